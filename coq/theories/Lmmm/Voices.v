(* Lmmm/Voices.v — C07: a voice (an output expression of dsp that depends on the inputs only) reads and
   writes only the words of its own state range, and its output stream is the reference stream of the voice
   alone started from the tree those words denote.  Hence a voice whose words are carried over by a hot swap
   continues exactly, and a voice whose range is zero starts fresh. *)
From Coq Require Import List ZArith NArith Bool Lia Arith.
From Mimium Require Import StateTree.Model Lmmm.Syntax Lmmm.Ref Lmmm.Compile Lmmm.Machine Lmmm.Wf Lmmm.HotSwap Lmmm.Spec
  Lmmm.Base Lmmm.Layout Lmmm.LayoutProg Lmmm.Swap Lmmm.Prims Lmmm.Flat Lmmm.Preserve Lmmm.Sim Lmmm.PreserveProg.
Import ListNotations.
Local Open Scope N_scope.

Ltac inv H := inversion H; subst; clear H.

(* ---------- the value of a wf expression depends only on the variables in scope ---------- *)
Definition env_agree (vars : list ident) (r r' : env) : Prop :=
  forall x, mem_id x vars = true -> lookup x r = lookup x r'.

Lemma env_agree_cons : forall vars r r' x v, env_agree vars r r' -> env_agree (x :: vars) ((x, v) :: r) ((x, v) :: r').
Proof.
  intros vars r r' x v H y Hy. cbn [mem_id] in Hy. cbn [lookup].
  destruct (N.eqb y x); [reflexivity|]. cbn [orb] in Hy. apply H. exact Hy.
Qed.

Lemma ref_eval_env_agree : forall fe now g e in_fun vars sv r r' s,
  wf_expr g in_fun vars e = true -> env_agree vars r r' ->
  ref_eval fe now sv r e s = ref_eval fe now sv r' e s.
Proof.
  intros fe now g.
  induction e as [z|x| | | |op a b IHa IHb|a IHa|x a b IHa IHb|cn t e' IHc IHt IHe|f args IHargs|a IHa|n a t IHa IHt]
    using expr_ind'; intros in_fun vars sv r r' s Hwf Hag; cbn [wf_expr] in Hwf; cbn [ref_eval]; try reflexivity.
  - rewrite (Hag x Hwf). reflexivity.
  - apply andb_prop in Hwf. destruct Hwf as [Hwa Hwb].
    rewrite (IHa _ _ sv r r' (kid s 0) Hwa Hag), (IHb _ _ sv r r' (kid s 1) Hwb Hag). reflexivity.
  - rewrite (IHa _ _ sv r r' (kid s 0) Hwf Hag). reflexivity.
  - apply andb_prop in Hwf. destruct Hwf as [Hwa Hwb].
    rewrite (IHa _ _ sv r r' (kid s 0) Hwa Hag). destruct (ref_eval fe now sv r' a (kid s 0)) as [[va ka]|]; [|reflexivity].
    rewrite (IHb _ _ sv ((x, va) :: r) ((x, va) :: r') (kid s 1) Hwb (env_agree_cons _ _ _ _ _ Hag)). reflexivity.
  - apply andb_prop in Hwf. destruct Hwf as [Hwf Hwe]. apply andb_prop in Hwf. destruct Hwf as [Hwc Hwt].
    rewrite (IHc _ _ sv r r' (kid s 0) Hwc Hag), (IHt _ _ sv r r' (kid s 1) Hwt Hag), (IHe _ _ sv r r' (kid s 2) Hwe Hag).
    reflexivity.
  - apply andb_prop in Hwf. destruct Hwf as [Hwargs _].
    fold (ref_args fe now sv r s). fold (ref_args fe now sv r' s).
    assert (Hargs : forall i, ref_args fe now sv r s args i = ref_args fe now sv r' s args i).
    { induction IHargs as [|a args Ha _ IH]; intros i; [reflexivity|].
      cbn [forallb] in Hwargs. apply andb_prop in Hwargs. destruct Hwargs as [Hwa Hwr].
      rewrite !ref_args_cons, (Ha _ _ sv r r' (kid s i) Hwa Hag), (IH Hwr). reflexivity. }
    rewrite Hargs. reflexivity.
  - rewrite (IHa _ _ sv r r' (kid s 0) Hwf Hag). reflexivity.
  - apply andb_prop in Hwf. destruct Hwf as [Hwa Hwt].
    rewrite (IHa _ _ sv r r' (kid s 0) Hwa Hag), (IHt _ _ sv r r' (kid s 1) Hwt Hag). reflexivity.
Qed.

(* run_lets only pushes the let bindings in front of the environment *)
Lemma run_lets_env : forall d mf now kl r m r' m',
  run_lets d mf now r kl m = Some (r', m') ->
  exists bs, r' = bs ++ r /\ map fst bs = rev (map fst kl).
Proof.
  induction kl as [|[x k] kl IH]; intros r m r' m' H; cbn [run_lets] in H.
  - inv H. exists []. auto.
  - destruct (run_code d mf now 0%Z r k m) as [[v m1]|]; [|discriminate].
    destruct (IH _ _ _ _ H) as (bs & -> & Hn). exists (bs ++ [(x, v)]). split.
    + rewrite <- app_assoc. reflexivity.
    + rewrite map_app, Hn. cbn [map fst rev]. reflexivity.
Qed.

Lemma compile_lets_names : forall ce lets c kl sl c1,
  compile_lets ce lets c = Some (kl, sl, c1) -> map fst kl = map fst lets.
Proof.
  induction lets as [|[x e] lets IH]; intros c kl sl c1 H; cbn [compile_lets] in H.
  - inv H. reflexivity.
  - destruct (compile_expr ce e c) as [[[k s] c2]|]; [|discriminate].
    destruct (compile_lets ce lets c2) as [[[ks ss] c3]|] eqn:Hl; [|discriminate]. inv H.
    cbn [map fst]. f_equal. apply (IH _ _ _ _ Hl).
Qed.

Lemma lookup_app_notin : forall x bs r, ~ In x (map fst bs) -> lookup x (bs ++ r) = lookup x r.
Proof.
  induction bs as [|[y v] bs IH]; intros r Hn; [reflexivity|]. cbn [app lookup].
  cbn [map fst In] in Hn. destruct (N.eqb_spec x y) as [->|Hne]; [exfalso; apply Hn; left; reflexivity|].
  apply IH. intros Hin. apply Hn. right. exact Hin.
Qed.

Lemma mem_id_In : forall x l, mem_id x l = true <-> In x l.
Proof.
  induction l as [|y l IH]; cbn [mem_id In]; [split; [discriminate|tauto]|].
  rewrite orb_true_iff, IH. split; intros [H|H]; auto.
  - apply N.eqb_eq in H. auto.
  - left. apply N.eqb_eq. auto.
Qed.

(* ---------- tracking one output expression through run_outs ---------- *)
Section Voice.
  Variable d : disc.
  Variable now : Z.
  Variable g : sigenv.
  Variable ce : cenv.
  Variable rf : ident -> option ref_fn.
  Variable mf : ident -> option mach_fn.
  Variable ffe : ident -> option flat_fn.
  Hypothesis Hsig : sig_ok g ce.
  Hypothesis Hfe : fenv_ok ce mf.
  Hypothesis Hsim : fenv_sim ce rf mf ffe.

  Lemma outs_ranges_bounds : forall outs vars c ko so c1,
    compile_outs ce outs c = Some (ko, so, c1) -> forallb (wf_expr g false vars) outs = true ->
    forall j off sz, nth_error (outs_ranges ce outs c) j = Some (off, sz) ->
    eff c <= off /\ off + sz <= eff c + skels_size so.
  Proof.
    induction outs as [|e outs IH]; intros vars c ko so c1 Hc Hwf j off sz Hj.
    - destruct j; discriminate.
    - cbn [compile_outs] in Hc. cbn [forallb] in Hwf. apply andb_prop in Hwf. destruct Hwf as [Hwe Hwf].
      cbn [outs_ranges] in Hj.
      destruct (compile_expr ce e c) as [[[k s] c2]|] eqn:Hce; [|discriminate].
      destruct (compile_outs ce outs c2) as [[[ks ss] c3]|] eqn:Hcl; [|discriminate]. inv Hc.
      destruct (expr_ok d now g ce mf Hsig Hfe _ _ _ _ _ _ _ Hce Hwe) as [Ee _].
      destruct j as [|j]; cbn [nth_error] in Hj.
      + inv Hj. sz.
      + destruct (IH _ _ _ _ _ Hcl Hwf j off sz Hj) as [H1 H2]. sz.
  Qed.

  Lemma outs_voice : forall outs vars c ko so c1,
    compile_outs ce outs c = Some (ko, so, c1) -> forallb (wf_expr g false vars) outs = true ->
    forall j e off sz, nth_error outs j = Some e -> nth_error (outs_ranges ce outs c) j = Some (off, sz) ->
    forall r m base sv,
      env_ok vars r -> m_pos m = base + snd c ->
      base + eff c + skels_size so <= N.of_nat (length (m_words m)) ->
      seg_is m (base + off) (flat_expr ffe e sv) ->
      exists vs m' v sv',
        run_outs d mf now r ko m = Some (vs, m') /\ nth_error vs j = Some v /\
        ref_eval rf now 0%Z r e sv = Some (v, sv') /\
        frame_ok (base + eff c) (base + eff c + skels_size so) (base + snd c1) m m' /\
        seg_is m' (base + off) (flat_expr ffe e sv').
  Proof.
    induction outs as [|e0 outs IH]; intros vars c ko so c1 Hc Hwf j e off sz Hj Hrg r m base sv Hr Hpos Hbd Hseg.
    - destruct j; discriminate.
    - pose proof Hc as Hc0. cbn [compile_outs] in Hc. pose proof Hwf as Hwf0.
      cbn [forallb] in Hwf. apply andb_prop in Hwf. destruct Hwf as [Hwe Hwf].
      cbn [outs_ranges] in Hrg.
      destruct (compile_expr ce e0 c) as [[[k s] c2]|] eqn:Hce; [|discriminate].
      destruct (compile_outs ce outs c2) as [[[ks ss] c3]|] eqn:Hcl; [|discriminate]. inv Hc.
      destruct (expr_ok d now g ce mf Hsig Hfe _ _ _ _ _ _ _ Hce Hwe) as [Ee Re].
      destruct j as [|j]; cbn [nth_error] in Hj, Hrg.
      + (* the voice is the head *)
        inv Hj. inv Hrg.
        pose proof (sim_ok d now g ce rf mf ffe Hsig Hfe Hsim _ _ _ _ _ _ _ Hce Hwe) as Se.
        destruct (Se r m base 0%Z 0%Z sv Hr (fun _ => eq_refl) Hpos ltac:(sz) Hseg)
          as (v & sv' & m1 & Hre & Hru & Hf1 & Hseg1).
        pose proof Hf1 as (Hp1 & Hl1 & _).
        destruct (outs_ok d now g ce mf Hsig Hfe _ _ _ _ _ _ Hcl Hwf) as [Eo Ro].
        destruct (Ro r m1 base Hr Hp1 ltac:(rewrite Hl1; sz)) as (vs & m2 & Hrun & Hlvs & Hok).
        apply run_ok_frame in Hok.
        exists (v :: vs), m2, v, sv'. split; [cbn [run_outs]; rewrite Hru, Hrun; reflexivity|].
        split; [reflexivity|]. split; [exact Hre|].
        split; [eapply frame_ok_trans; [exact Hf1|exact Hok|try sz..]|].
        eapply seg_is_frame; [exact Hseg1|exact Hok|].
        rewrite (flat_len g ce rf mf ffe Hsim _ _ _ _ _ _ _ sv' Hce Hwe). lia.
      + (* the voice is further down: the head only touches its own range *)
        destruct (outs_ranges_bounds _ _ _ _ _ _ Hcl Hwf j off sz Hrg) as [Hb1 Hb2].
        destruct (Re r m base 0%Z Hr Hpos ltac:(sz)) as (v0 & m1 & Hru & Hok1).
        apply run_ok_frame in Hok1. pose proof Hok1 as (Hp1 & Hl1 & _).
        assert (Hseg1 : seg_is m1 (base + off) (flat_expr ffe e sv))
          by (eapply seg_is_frame; [exact Hseg|exact Hok1|lia]).
        destruct (IH _ _ _ _ _ Hcl Hwf j e off sz Hj Hrg r m1 base sv Hr Hp1 ltac:(rewrite Hl1; sz) Hseg1)
          as (vs & m2 & v & sv' & Hrun & Hnth & Hre & Hf2 & Hseg2).
        exists (v0 :: vs), m2, v, sv'. split; [cbn [run_outs]; rewrite Hru, Hrun; reflexivity|].
        split; [exact Hnth|]. split; [exact Hre|].
        split; [eapply frame_ok_trans; [exact Hok1|exact Hf2|try sz..]|exact Hseg2].
  Qed.

  (* the words of output j inside the words of all outputs *)
  Lemma flat_args_voice : forall outs vars c ko so c1,
    compile_outs ce outs c = Some (ko, so, c1) -> forallb (wf_expr g false vars) outs = true ->
    forall j e off sz, nth_error outs j = Some e -> nth_error (outs_ranges ce outs c) j = Some (off, sz) ->
    forall m base s i,
      seg_is m (base + eff c) (flat_args ffe s outs i) ->
      seg_is m (base + off) (flat_expr ffe e (kid s (i + j))) /\
      forall sv, N.of_nat (length (flat_expr ffe e sv)) = sz.
  Proof.
    induction outs as [|e0 outs IH]; intros vars c ko so c1 Hc Hwf j e off sz Hj Hrg m base s i Hseg.
    - destruct j; discriminate.
    - cbn [compile_outs] in Hc. cbn [forallb] in Hwf. apply andb_prop in Hwf. destruct Hwf as [Hwe Hwf].
      cbn [outs_ranges] in Hrg.
      destruct (compile_expr ce e0 c) as [[[k s0] c2]|] eqn:Hce; [|discriminate].
      destruct (compile_outs ce outs c2) as [[[ks ss] c3]|] eqn:Hcl; [|discriminate]. inv Hc.
      destruct (expr_ok d now g ce mf Hsig Hfe _ _ _ _ _ _ _ Hce Hwe) as [Ee _].
      rewrite flat_args_cons in Hseg. apply seg_is_app in Hseg. destruct Hseg as [Hseg0 Hsegr].
      rewrite (flat_len g ce rf mf ffe Hsim _ _ _ _ _ _ _ (kid s i) Hce Hwe) in Hsegr.
      destruct j as [|j]; cbn [nth_error] in Hj, Hrg.
      + inv Hj. inv Hrg. rewrite Nat.add_0_r. split; [exact Hseg0|].
        intros sv. apply (flat_len g ce rf mf ffe Hsim _ _ _ _ _ _ _ sv Hce Hwe).
      + replace (base + eff c + skels_size s0) with (base + eff c2) in Hsegr by lia.
        replace (i + S j)%nat with (S i + j)%nat by lia.
        apply (IH _ _ _ _ _ Hcl Hwf j e off sz Hj Hrg m base s (S i) Hsegr).
  Qed.
End Voice.

(* ---------- one sample: the voice sees only its own range ---------- *)
Theorem step_voice : forall d p cp j e off sz now inputs m sv,
  compile p = Some cp -> wf_prog p = true ->
  nth_error (p_outs p) j = Some e -> closed_voice p e = true -> voice_range p j = Some (off, sz) ->
  m_pos m = 0 -> length inputs = length (p_inputs p) ->
  size (published_skeleton cp) <= N.of_nat (length (m_words (step_start d cp m))) ->
  seg_is (step_start d cp m) off (flat_expr (flat_fenv (rev (p_funs p))) e sv) ->
  exists outs m' v sv' r0,
    mach_step d p cp now inputs m = Some (outs, m') /\ nth_error outs j = Some v /\
    bind_params (p_inputs p) inputs = Some r0 /\
    ref_eval (ref_fenv now (rev (p_funs p))) now 0%Z r0 e sv = Some (v, sv') /\
    frame_ok 0 (size (published_skeleton cp)) 0 (step_start d cp m) m' /\
    seg_is m' off (flat_expr (flat_fenv (rev (p_funs p))) e sv').
Proof.
  intros d p cp j e off sz now inputs m sv Hcomp Hwf Hj Hclosed Hrange Hpos Hlen Hbd Hseg.
  unfold wf_prog in Hwf. unfold compile in Hcomp. unfold closed_voice in Hclosed. unfold voice_range in Hrange.
  destruct (wf_funs [] (p_funs p)) as [g|] eqn:Hf; [|discriminate].
  destruct (wf_lets g (p_inputs p) (p_lets p)) as [vars|] eqn:Hl; [|discriminate].
  destruct (compile_funs (fun _ => None) (p_funs p)) as [ce|] eqn:Hcf; [|discriminate].
  destruct (funs_total _ _ _ _ sig_ok_nil Hf) as (ce' & Hcf' & Hsig). rewrite Hcf in Hcf'. inv Hcf'.
  destruct (compile_lets ce' (p_lets p) (None, 0)) as [[[kl sl] c1]|] eqn:Hcl; [|discriminate].
  destruct (compile_outs ce' (p_outs p) c1) as [[[ko so] [nso ps]]|] eqn:Hco; [|discriminate]. inv Hcomp.
  apply andb_prop in Hclosed. destruct Hclosed as [Hwe Hnoshadow].
  pose proof (funs_ok d now _ _ _ Hf Hcf ce' (fun f cf H => H)) as Hfe.
  pose proof (funs_sim d now _ _ _ Hf Hcf ce' (fun f cf H => H)) as Hsim.
  destruct (lets_ok d now g ce' _ Hsig Hfe _ _ _ _ _ _ _ Hcl Hl) as [El Rl].
  destruct (outs_ranges_bounds d now g ce' _ Hsig Hfe _ _ _ _ _ _ Hco Hwf j off sz Hrange) as [Hb1 Hb2].
  rewrite eff_none in *. cbn [snd] in *.
  unfold mach_step. cbn [cp_fenv cp_inputs cp_lets cp_outs cp_pop].
  change (match d with
          | VmD => _
          | WasmD => _
          end) with (step_start d {| cp_fenv := ce'; cp_inputs := p_inputs p; cp_lets := kl; cp_outs := ko; cp_pop := ps; cp_skel := sl ++ so |} m).
  set (cp := {| cp_fenv := ce'; cp_inputs := p_inputs p; cp_lets := kl; cp_outs := ko; cp_pop := ps; cp_skel := sl ++ so |}) in *.
  set (ms := step_start d cp m) in *.
  set (ffe := flat_fenv (rev (p_funs p))) in *.
  assert (Hps : m_pos ms = 0) by (unfold ms, step_start; destruct d; exact Hpos).
  change (size (published_skeleton cp)) with (skels_size (sl ++ so)) in *.
  destruct (bind_params_ok (p_inputs p) inputs Hlen) as (r0 & Hbind & Hr0). rewrite Hbind.
  destruct (Rl r0 ms 0 Hr0 ltac:(lia) ltac:(sz)) as (r1 & m1 & Hrl & Hr1 & Hol).
  rewrite Hrl. apply run_ok_frame in Hol. pose proof Hol as (Hp1 & Hl1 & _).
  assert (Hseg1 : seg_is m1 (0 + off) (flat_expr ffe e sv))
    by (rewrite N.add_0_l; eapply seg_is_frame; [exact Hseg|exact Hol|lia]).
  destruct (outs_voice d now g ce' _ _ _ Hsig Hfe Hsim _ _ _ _ _ _ Hco Hwf j e off sz Hj Hrange r1 m1 0 sv Hr1 Hp1
              ltac:(rewrite Hl1; sz) Hseg1) as (vs & m2 & v & sv' & Hro & Hnth & Hre & Hfo & Hseg2).
  rewrite Hro. pose proof Hfo as (Hp2 & Hl2 & _). cbn [snd] in Hp2.
  destruct (opt_pop_frame d ps m2 0 0 ltac:(lia)) as (m3 & -> & Hfp).
  rewrite Hp2 in Hfp. replace (0 + ps - ps) with 0 in Hfp by lia.
  exists vs, m3, v, sv', r0. split; [reflexivity|]. split; [exact Hnth|]. split; [reflexivity|].
  split.
  { (* the let bindings do not shadow the inputs the voice reads *)
    destruct (run_lets_env _ _ _ _ _ _ _ _ Hrl) as (bs & -> & Hnames).
    rewrite (compile_lets_names _ _ _ _ _ _ Hcl) in Hnames.
    rewrite <- Hre. symmetry. apply (ref_eval_env_agree _ _ g e false (p_inputs p)); [exact Hwe|].
    intros x Hx. apply lookup_app_notin. rewrite Hnames. intros Hin. apply in_rev in Hin.
    apply in_map_iff in Hin. destruct Hin as ([y ey] & Hy & Hin). cbn [fst] in Hy. subst y.
    rewrite forallb_forall in Hnoshadow. specialize (Hnoshadow _ Hin). cbn [fst] in Hnoshadow.
    rewrite Hx in Hnoshadow. discriminate. }
  assert (F12 : frame_ok 0 (skels_size (sl ++ so)) (0 + ps) ms m2)
    by (eapply frame_ok_trans; [exact Hol|exact Hfo|try sz..]).
  split; [eapply frame_ok_trans; [exact F12|exact Hfp|try sz..]|].
  rewrite N.add_0_l in Hseg2. eapply seg_is_frame; [exact Hseg2|exact Hfp|lia].
Qed.

(* ---------- every run length ---------- *)
Lemma step_start_after : forall d cp m m' hi,
  frame_ok 0 hi 0 (step_start d cp m) m' ->
  m_words (step_start d cp m') = m_words m' /\ m_pos m' = 0 /\
  length (m_words m') = length (m_words (step_start d cp m)).
Proof.
  intros d cp m m' hi (Hp & Hl & _). split; [|split; [exact Hp|exact Hl]].
  destruct d; cbn [step_start m_words]; [|reflexivity].
  cbn [step_start m_words] in Hl. rewrite resize_words_length in Hl. rewrite <- Hl. apply resize_words_id.
Qed.

Theorem voice_local : forall d p cp j e off sz,
  compile p = Some cp -> wf_prog p = true ->
  nth_error (p_outs p) j = Some e -> closed_voice p e = true -> voice_range p j = Some (off, sz) ->
  forall rows t0 m sv, rows_ok p rows -> m_pos m = 0 ->
  size (published_skeleton cp) <= N.of_nat (length (m_words (step_start d cp m))) ->
  seg_is (step_start d cp m) off (flat_expr (flat_fenv (rev (p_funs p))) e sv) ->
  exists vs sv',
    voice_ref_run (p_funs p) (p_inputs p) e t0 rows sv = Some (vs, sv') /\
    map (chan j) (outs_of (mach_run d p cp t0 rows m)) = map Some vs.
Proof.
  intros d p cp j e off sz Hc Hwf Hj Hcl Hrg. induction rows as [|i rows IH]; intros t0 m sv Hrows Hpos Hbd Hseg.
  - exists [], sv. split; reflexivity.
  - inversion Hrows as [|? ? Hi Hrows']; subst.
    destruct (step_voice d p cp j e off sz t0 i m sv Hc Hwf Hj Hcl Hrg Hpos Hi Hbd Hseg)
      as (outs & m' & v & sv1 & r0 & Hstep & Hnth & Hbind & Hre & Hf & Hseg').
    destruct (step_start_after _ _ _ _ _ Hf) as (Hw' & Hp' & Hl').
    destruct (IH (t0 + 1)%Z m' sv1 Hrows' Hp') as (vs & sv' & Hvr & Hch).
    { rewrite Hw', Hl'. exact Hbd. }
    { apply (seg_is_words m'); [symmetry; exact Hw'|exact Hseg']. }
    exists (v :: vs), sv'. cbn [voice_ref_run mach_run]. rewrite Hbind, Hre, Hvr, Hstep.
    split; [reflexivity|]. cbn [outs_of map option_map fst chan]. rewrite Hnth. f_equal. exact Hch.
Qed.

(* ---------- the voice's words inside the whole dsp state ---------- *)
Lemma voice_in_state : forall p cp j e off sz,
  compile p = Some cp -> wf_prog p = true ->
  nth_error (p_outs p) j = Some e -> voice_range p j = Some (off, sz) ->
  (forall sv, N.of_nat (length (flat_expr (flat_fenv (rev (p_funs p))) e sv)) = sz) /\
  off + sz <= size (published_skeleton cp) /\
  forall s m, seg_is m 0 (flat_prog p s) ->
    seg_is m off (flat_expr (flat_fenv (rev (p_funs p))) e (kid s (length (p_lets p) + j))).
Proof.
  intros p cp j e off sz Hcomp Hwf Hj Hrange. pose (d := VmD).
  unfold wf_prog in Hwf. unfold compile in Hcomp. unfold voice_range in Hrange.
  destruct (wf_funs [] (p_funs p)) as [g|] eqn:Hf; [|discriminate].
  destruct (wf_lets g (p_inputs p) (p_lets p)) as [vars|] eqn:Hl; [|discriminate].
  destruct (compile_funs (fun _ => None) (p_funs p)) as [ce|] eqn:Hcf; [|discriminate].
  destruct (funs_total _ _ _ _ sig_ok_nil Hf) as (ce' & Hcf' & Hsig). rewrite Hcf in Hcf'. inv Hcf'.
  destruct (compile_lets ce' (p_lets p) (None, 0)) as [[[kl sl] c1]|] eqn:Hcl; [|discriminate].
  destruct (compile_outs ce' (p_outs p) c1) as [[[ko so] [nso ps]]|] eqn:Hco; [|discriminate]. inv Hcomp.
  pose proof (funs_ok d 0%Z _ _ _ Hf Hcf ce' (fun f cf H => H)) as Hfe.
  pose proof (funs_sim d 0%Z _ _ _ Hf Hcf ce' (fun f cf H => H)) as Hsim.
  destruct (lets_sim d 0%Z g ce' _ _ _ Hsig Hfe Hsim _ _ _ _ _ _ _ Hcl Hl) as (El & Ll & _).
  destruct (outs_ranges_bounds d 0%Z g ce' _ Hsig Hfe _ _ _ _ _ _ Hco Hwf j off sz Hrange) as [Hb1 Hb2].
  rewrite eff_none in El.
  change (size (published_skeleton _)) with (skels_size (sl ++ so)).
  set (ffe := flat_fenv (rev (p_funs p))) in *.
  assert (Hlen : forall sv, N.of_nat (length (flat_expr ffe e sv)) = sz).
  { intros sv.
    (* the size of the voice's skeleton does not depend on the context: read it off the ranges *)
    revert Hrange Hj Hco Hwf. generalize (p_outs p) c1 ko so (nso, ps) j.
    induction l as [|e0 outs IH]; intros c2 ko1 so1 c3 j0 Hrange Hj Hco Hwf.
    - destruct j0; discriminate.
    - cbn [compile_outs] in Hco. cbn [forallb] in Hwf. apply andb_prop in Hwf. destruct Hwf as [Hwe Hwf].
      cbn [outs_ranges] in Hrange.
      destruct (compile_expr ce' e0 c2) as [[[k s0] c4]|] eqn:Hce; [|discriminate].
      destruct (compile_outs ce' outs c4) as [[[ks ss] c5]|] eqn:Hcl'; [|discriminate]. inv Hco.
      destruct j0 as [|j0]; cbn [nth_error] in Hj, Hrange.
      + inv Hj. inv Hrange. apply (flat_len g ce' _ _ ffe Hsim _ _ _ _ _ _ _ sv Hce Hwe).
      + apply (IH _ _ _ _ _ Hrange Hj Hcl' Hwf). }
  split; [exact Hlen|]. split; [sz|].
  intros s m Hseg. unfold flat_prog in Hseg. fold ffe in Hseg.
  apply seg_is_app in Hseg. destruct Hseg as [_ Hsego]. rewrite Ll in Hsego.
  replace (0 + skels_size sl) with (0 + eff c1) in Hsego by lia.
  destruct (flat_args_voice d 0%Z g ce' _ _ ffe Hsig Hfe Hsim _ _ _ _ _ _ Hco Hwf j e off sz Hj Hrange m 0 s
              (length (p_lets p)) Hsego) as [Hv _].
  rewrite N.add_0_l in Hv. exact Hv.
Qed.

(* ---------- reading the storage a dsp call starts from ---------- *)
Lemma nth_resize_words : forall w n k, (k < n)%nat -> nth k (resize_words w n) 0%Z = nth k w 0%Z.
Proof.
  intros w n k Hk. unfold resize_words. destruct (Nat.lt_ge_cases k (length w)) as [Hlt|Hge].
  - rewrite app_nth1 by (rewrite firstn_length; lia). revert k n Hk Hlt.
    induction w as [|x w IH]; intros [|k] [|n] Hk Hlt; cbn [firstn nth length] in *; try lia; try reflexivity.
    apply IH; lia.
  - rewrite (nth_overflow w) by lia.
    destruct (Nat.lt_ge_cases k (length (firstn n w))) as [Hl2|Hg2].
    + rewrite firstn_length in Hl2. lia.
    + rewrite app_nth2 by lia. apply nth_repeat0.
Qed.

Lemma rd_step_start : forall d cp m k, k < size (published_skeleton cp) ->
  rd (step_start d cp m) k = nth (N.to_nat k) (m_words m) 0%Z.
Proof.
  intros d cp m k Hk. unfold rd. destruct d; cbn [step_start m_words]; [|reflexivity].
  apply nth_resize_words. lia.
Qed.

(* ---------- C07 ---------- *)
(* a voice whose words are carried over continues exactly *)
Theorem voice_continues : forall d p1 cp1 p2 cp2 i j e off1 off2 sz t0 rows1 m1 m2 t1 rows2,
  compile p1 = Some cp1 -> wf_prog p1 = true -> compile p2 = Some cp2 -> wf_prog p2 = true ->
  p_funs p2 = p_funs p1 -> p_inputs p2 = p_inputs p1 ->
  nth_error (p_outs p1) i = Some e -> nth_error (p_outs p2) j = Some e ->
  closed_voice p1 e = true -> closed_voice p2 e = true ->
  voice_range p1 i = Some (off1, sz) -> voice_range p2 j = Some (off2, sz) ->
  rows_ok p1 rows1 -> final_state d p1 cp1 t0 rows1 (init_state d cp1) = Some m1 ->
  home d cp2 m2 ->
  words_eq_on (m_words m1) off1 (m_words m2) off2 sz ->
  rows_ok p1 rows2 ->
  map (chan j) (outs_of (mach_run d p2 cp2 t1 rows2 m2))
  = map (chan i) (outs_of (mach_run d p1 cp1 t1 rows2 m1)).
Proof.
  intros d p1 cp1 p2 cp2 i j e off1 off2 sz t0 rows1 m1 m2 t1 rows2
         Hc1 Hw1 Hc2 Hw2 Hfuns Hins Hi Hj Hcl1 Hcl2 Hr1 Hr2 Hrows1 Hfin [Hp2 Hl2] Heq Hrows2.
  destruct (run_sim d p1 cp1 Hc1 Hw1 rows1 t0 _ st0 Hrows1 (abs_state_init d p1 cp1))
    as (outs1 & s1 & m1' & _ & _ & Hfin' & Habs).
  rewrite Hfin in Hfin'. inv Hfin'. destruct Habs as (Hp1 & Hbd1 & Hseg1).
  destruct (voice_in_state p1 cp1 i e off1 sz Hc1 Hw1 Hi Hr1) as (Hlen1 & Hin1 & Hv1).
  destruct (voice_in_state p2 cp2 j e off2 sz Hc2 Hw2 Hj Hr2) as (Hlen2 & Hin2 & _).
  set (sv := kid s1 (length (p_lets p1) + i)).
  pose proof (Hv1 s1 _ Hseg1) as Hsv1. fold sv in Hsv1.
  destruct (voice_local d p1 cp1 i e off1 sz Hc1 Hw1 Hi Hcl1 Hr1 rows2 t1 m1' sv Hrows2 Hp1 Hbd1 Hsv1)
    as (vs & sv' & Hvr & Hch1).
  assert (Hrows2' : rows_ok p2 rows2) by (unfold rows_ok in *; rewrite Hins; exact Hrows2).
  assert (Hbd2 : size (published_skeleton cp2) <= N.of_nat (length (m_words (step_start d cp2 m2)))).
  { destruct d; cbn [step_start m_words]; [rewrite resize_words_length; lia|exact Hl2]. }
  assert (Hsv2 : seg_is (step_start d cp2 m2) off2 (flat_expr (flat_fenv (rev (p_funs p2))) e sv)).
  { rewrite Hfuns. intros k Hk. rewrite <- Hsv1 by exact Hk.
    assert (Hksz : N.of_nat k < sz) by (rewrite <- (Hlen1 sv); lia).
    rewrite !rd_step_start by lia. apply Heq. exact Hksz. }
  destruct (voice_local d p2 cp2 j e off2 sz Hc2 Hw2 Hj Hcl2 Hr2 rows2 t1 m2 sv Hrows2' Hp2 Hbd2 Hsv2)
    as (vs2 & sv2' & Hvr2 & Hch2).
  rewrite Hfuns, Hins, Hvr in Hvr2. inv Hvr2. rewrite Hch1, Hch2. reflexivity.
Qed.

(* a voice whose range is zero starts fresh: its stream is the reference stream from the empty tree *)
Theorem voice_fresh : forall d p cp j e off sz t1 rows m,
  compile p = Some cp -> wf_prog p = true ->
  nth_error (p_outs p) j = Some e -> closed_voice p e = true -> voice_range p j = Some (off, sz) ->
  home d cp m ->
  words_zero_on (m_words m) off sz -> rows_ok p rows ->
  exists vs sv',
    voice_ref_run (p_funs p) (p_inputs p) e t1 rows st0 = Some (vs, sv') /\
    map (chan j) (outs_of (mach_run d p cp t1 rows m)) = map Some vs.
Proof.
  intros d p cp j e off sz t1 rows m Hc Hw Hj Hcl Hr [Hp Hl] Hz Hrows.
  destruct (voice_in_state p cp j e off sz Hc Hw Hj Hr) as (Hlen & Hin & _).
  apply (voice_local d p cp j e off sz Hc Hw Hj Hcl Hr rows t1 m st0 Hrows Hp).
  - destruct d; cbn [step_start m_words]; [rewrite resize_words_length; lia|exact Hl].
  - intros k Hk. assert (Hksz : N.of_nat k < sz) by (rewrite <- (Hlen st0); lia).
    rewrite rd_step_start by lia. rewrite (Hz _ Hksz). symmetry.
    pose proof (flat_expr_zero (flat_fenv (rev (p_funs p))) (flat_fenv_zero _) e) as Hall.
    unfold all_zero in Hall. rewrite Forall_forall in Hall. apply Hall. apply nth_In. exact Hk.
Qed.
