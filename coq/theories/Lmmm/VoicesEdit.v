(* Lmmm/VoicesEdit.v — C07 for insert/delete edits of voice programs, via StateTree's survivors_whole. *)
From Coq Require Import List ZArith NArith Bool Lia Arith.
From Mimium Require Import StateTree.Model StateTree.Lemmas StateTree.Apply StateTree.Embeds
  Lmmm.Syntax Lmmm.Ref Lmmm.Compile Lmmm.Machine Lmmm.Wf Lmmm.HotSwap Lmmm.Spec
  Lmmm.Base Lmmm.Layout Lmmm.LayoutProg Lmmm.Swap Lmmm.Prims Lmmm.Voices Lmmm.VoicesSwap.
Import ListNotations.
Local Open Scope N_scope.

Ltac inv H := inversion H; subst; clear H.

(* ---------- the skeleton an expression publishes does not depend on the offset context ---------- *)
Lemma compile_expr_ctx_indep : forall fe e c1 k1 s1 c1',
  compile_expr fe e c1 = Some (k1, s1, c1') ->
  forall c2, exists k2 c2', compile_expr fe e c2 = Some (k2, s1, c2').
Proof.
  intros fe.
  induction e as [z|x| | | |op a b IHa IHb|a IHa|x a b IHa IHb|cn t e' IHc IHt IHe|f args IHargs|a IHa|n a t IHa IHt]
    using expr_ind'; intros c1 k1 s1 c1' H c2;
    try (cbn [compile_expr] in H |- *; inv H; do 2 eexists; reflexivity).
  - cbn [compile_expr] in H |- *.
    destruct (compile_expr fe a c1) as [[[ka sa] ca]|] eqn:Ha; [|discriminate].
    destruct (compile_expr fe b ca) as [[[kb sb] cb]|] eqn:Hb; [|discriminate]. inv H.
    destruct (IHa _ _ _ _ Ha c2) as (ka2 & ca2 & ->). destruct (IHb _ _ _ _ Hb ca2) as (kb2 & cb2 & ->).
    do 2 eexists; reflexivity.
  - cbn [compile_expr] in H |- *.
    destruct (compile_expr fe a c1) as [[[ka sa] ca]|] eqn:Ha; [|discriminate]. inv H.
    destruct (IHa _ _ _ _ Ha c2) as (ka2 & ca2 & ->). do 2 eexists; reflexivity.
  - cbn [compile_expr] in H |- *.
    destruct (compile_expr fe a c1) as [[[ka sa] ca]|] eqn:Ha; [|discriminate].
    destruct (compile_expr fe b ca) as [[[kb sb] cb]|] eqn:Hb; [|discriminate]. inv H.
    destruct (IHa _ _ _ _ Ha c2) as (ka2 & ca2 & ->). destruct (IHb _ _ _ _ Hb ca2) as (kb2 & cb2 & ->).
    do 2 eexists; reflexivity.
  - cbn [compile_expr] in H |- *.
    destruct (compile_expr fe cn c1) as [[[kc sc] cc]|] eqn:Hc; [|discriminate].
    destruct (consume cc) as [push0 [o0 ps0]].
    destruct (compile_expr fe t (None, ps0)) as [[[kt st] ct]|] eqn:Ht; [|discriminate].
    destruct (consume ct) as [pusht ctt].
    destruct (compile_expr fe e' _) as [[[ke se] cee]|] eqn:He; [|discriminate].
    destruct (consume cee) as [pushe cte]. inv H.
    destruct (IHc _ _ _ _ Hc c2) as (kc2 & cc2 & ->). destruct (consume cc2) as [push02 [o02 ps02]].
    destruct (IHt _ _ _ _ Ht (None, ps02)) as (kt2 & ct2 & ->). destruct (consume ct2) as [pusht2 ctt2].
    destruct (IHe _ _ _ _ He (if 0 <? skels_size st then Some (skels_size st) else None, ps02)) as (ke2 & ce2 & ->).
    destruct (consume ce2) as [pushe2 cte2]. do 2 eexists; reflexivity.
  - rewrite compile_call_eq in H |- *.
    destruct (compile_args fe args c1) as [[[ks ss] ca]|] eqn:Hargs; [|discriminate].
    assert (Hargs2 : exists ks2 ca2, compile_args fe args c2 = Some (ks2, ss, ca2)).
    { clear H. revert c1 ks ss ca Hargs c2. induction IHargs as [|a args Ha _ IH]; intros c1 ks ss ca Hargs c2.
      - cbn in Hargs. inv Hargs. do 2 eexists; reflexivity.
      - rewrite compile_args_cons in Hargs |- *.
        destruct (compile_expr fe a c1) as [[[ka sa] cb]|] eqn:Hca; [|discriminate].
        destruct (compile_args fe args cb) as [[[ks' ss'] cc]|] eqn:Hcr; [|discriminate]. inv Hargs.
        destruct (Ha _ _ _ _ Hca c2) as (ka2 & cb2 & ->). destruct (IH _ _ _ _ Hcr cb2) as (ks2 & cc2 & ->).
        do 2 eexists; reflexivity. }
    destruct Hargs2 as (ks2 & ca2 & ->).
    destruct (fe f) as [cf|]; [|discriminate].
    destruct (Nat.eqb (length (c_params cf)) (length args)); [|discriminate].
    destruct (c_skel cf) as [|s0 sk0].
    + inv H. do 2 eexists; reflexivity.
    + destruct (consume ca) as [push [o ps]]. inv H. destruct (consume ca2) as [push2 [o2 ps2]]. do 2 eexists; reflexivity.
  - cbn [compile_expr] in H |- *.
    destruct (compile_expr fe a c1) as [[[ka sa] ca]|] eqn:Ha; [|discriminate].
    destruct (consume ca) as [push [o ps]]. inv H.
    destruct (IHa _ _ _ _ Ha c2) as (ka2 & ca2 & ->). destruct (consume ca2) as [push2 [o2 ps2]]. do 2 eexists; reflexivity.
  - cbn [compile_expr] in H |- *.
    destruct (compile_expr fe a c1) as [[[ka sa] ca]|] eqn:Ha; [|discriminate].
    destruct (compile_expr fe t ca) as [[[kt st] ct]|] eqn:Ht; [|discriminate].
    destruct (consume ct) as [push [o ps]]. inv H.
    destruct (IHa _ _ _ _ Ha c2) as (ka2 & ca2 & ->). destruct (IHt _ _ _ _ Ht ca2) as (kt2 & ct2 & ->).
    destruct (consume ct2) as [push2 [o2 ps2]]. do 2 eexists; reflexivity.
Qed.

Lemma expr_skel_eq : forall fe e c k s c', compile_expr fe e c = Some (k, s, c') -> expr_skel fe e = s.
Proof.
  intros fe e c k s c' H. unfold expr_skel.
  destruct (compile_expr_ctx_indep fe e c k s c' H (None, 0)) as (k2 & c2' & ->). reflexivity.
Qed.

(* ---------- the published skeleton and the ranges in terms of the voices' skeletons ---------- *)
Section Structure.
  Variable d : disc.
  Variable now : Z.
  Variable g : sigenv.
  Variable ce : cenv.
  Variable mf : ident -> option mach_fn.
  Hypothesis Hsig : sig_ok g ce.
  Hypothesis Hfe : fenv_ok ce mf.

  Lemma outs_structure : forall outs vars c ko so c1,
    compile_outs ce outs c = Some (ko, so, c1) -> forallb (wf_expr g false vars) outs = true ->
    so = concat (map (expr_skel ce) outs) /\
    forall j e, nth_error outs j = Some e ->
      nth_error (outs_ranges ce outs c) j =
      Some (eff c + skels_size (concat (map (expr_skel ce) (firstn j outs))), skels_size (expr_skel ce e)).
  Proof.
    induction outs as [|e0 outs IH]; intros vars c ko so c1 Hc Hwf.
    - cbn in Hc. inv Hc. split; [reflexivity|]. intros [|j] e Hj; discriminate.
    - cbn [compile_outs] in Hc. cbn [forallb] in Hwf. apply andb_prop in Hwf. destruct Hwf as [Hwe Hwf].
      destruct (compile_expr ce e0 c) as [[[k s] c2]|] eqn:Hce; [|discriminate].
      destruct (compile_outs ce outs c2) as [[[ks ss] c3]|] eqn:Hcl; [|discriminate]. inv Hc.
      destruct (expr_ok d now g ce mf Hsig Hfe _ _ _ _ _ _ _ Hce Hwe) as [Ee _].
      destruct (IH _ _ _ _ _ Hcl Hwf) as [Hso Hr]. pose proof (expr_skel_eq _ _ _ _ _ _ Hce) as Hsk.
      symmetry in Hsk. subst s.
      split; [cbn [map concat]; rewrite Hso; reflexivity|].
      intros [|j] e Hj; cbn [nth_error] in Hj; cbn [outs_ranges]; rewrite Hce; cbn [nth_error].
      + inv Hj. cbn [firstn map concat]. f_equal. f_equal. sz.
      + rewrite (Hr j e Hj). cbn [firstn map concat]. f_equal. f_equal. sz.
  Qed.
End Structure.

Lemma concat_firstn_singletons : forall (A : Type) (ls : list (list A)) j,
  forallb (fun l => Nat.eqb (length l) 1) ls = true ->
  concat (firstn j ls) = firstn j (concat ls).
Proof.
  intros A. induction ls as [|l ls IH]; intros j H; [destruct j; reflexivity|].
  cbn [forallb] in H. apply andb_prop in H. destruct H as [Hl H].
  destruct l as [|x [|y l]]; try discriminate. destruct j; [reflexivity|].
  cbn [firstn concat app]. rewrite IH by exact H. reflexivity.
Qed.

Lemma nth_error_concat_singletons : forall (A : Type) (ls : list (list A)) j l,
  forallb (fun l => Nat.eqb (length l) 1) ls = true -> nth_error ls j = Some l ->
  exists c, l = [c] /\ nth_error (concat ls) j = Some c.
Proof.
  intros A. induction ls as [|l0 ls IH]; intros j l H Hj; [destruct j; discriminate|].
  cbn [forallb] in H. apply andb_prop in H. destruct H as [Hl H].
  destruct l0 as [|x [|y l0]]; try discriminate. destruct j; cbn [nth_error] in Hj.
  - inv Hj. exists x. split; reflexivity.
  - destruct (IH j l H Hj) as (c & -> & Hc). exists c. split; [reflexivity|]. exact Hc.
Qed.

(* a voice program: published skeleton = FnCall (voices' skeletons); voice j occupies child j *)
Lemma voice_prog_structure : forall p cp,
  compile p = Some cp -> wf_prog p = true -> voice_prog p = true ->
  let cs := concat (voice_skels p) in
  published_skeleton cp = FnCall cs /\
  forall j e, nth_error (p_outs p) j = Some e ->
    closed_voice p e = true /\
    exists c, voice_skel p j = Some c /\ nth_error cs j = Some c /\
              voice_range p j = Some (child_off cs j, size c).
Proof.
  intros p cp Hcomp Hwf Hvp cs. subst cs. unfold voice_prog in Hvp.
  destruct (p_lets p) as [|l0 ls] eqn:Hlets; [|discriminate].
  apply andb_prop in Hvp. destruct Hvp as [Hclosed Hsing].
  unfold wf_prog in Hwf. unfold compile in Hcomp. unfold voice_skels, voice_skel, voice_range in *. rewrite Hlets in *.
  destruct (wf_funs [] (p_funs p)) as [g|] eqn:Hf; [|discriminate].
  cbn [wf_lets compile_lets] in *.
  destruct (compile_funs (fun _ => None) (p_funs p)) as [ce|] eqn:Hcf; [|discriminate].
  destruct (funs_total _ _ _ _ sig_ok_nil Hf) as (ce' & Hcf' & Hsig). rewrite Hcf in Hcf'. inv Hcf'.
  destruct (compile_outs ce' (p_outs p) (None, 0)) as [[[ko so] [nso ps]]|] eqn:Hco; [|discriminate]. inv Hcomp.
  pose proof (funs_ok VmD 0%Z _ _ _ Hf Hcf ce' (fun f cf H => H)) as Hfe.
  destruct (outs_structure VmD 0%Z g ce' _ Hsig Hfe _ _ _ _ _ _ Hco Hwf) as [Hso Hr].
  split; [unfold published_skeleton; cbn [cp_skel app]; rewrite Hso; reflexivity|].
  intros j e Hj. split.
  { rewrite forallb_forall in Hclosed. apply Hclosed. apply (nth_error_In _ _ Hj). }
  pose proof (map_nth_error (expr_skel ce') j (p_outs p) Hj) as Hjs.
  destruct (nth_error_concat_singletons _ _ j _ Hsing Hjs) as (c & Hc & Hnc).
  exists c. unfold voice_skels. rewrite Hcf, Hjs, Hc. split; [reflexivity|]. split; [exact Hnc|].
  rewrite (Hr j e Hj), eff_none, Hc. f_equal. f_equal.
  - unfold child_off. rewrite <- firstn_map, concat_firstn_singletons by exact Hsing. reflexivity.
  - cbn. lia.
Qed.

(* ---------- deleting / inserting voices ---------- *)
Lemma sublist_map : forall (A B : Type) (f : A -> B) l2 l1, sublist l2 l1 -> sublist (map f l2) (map f l1).
Proof. intros A B f l2 l1 H. induction H; cbn [map]; constructor; assumption. Qed.

Lemma sublist_nth : forall (A : Type) (l2 l1 : list A), sublist l2 l1 ->
  forall j e, nth_error l2 j = Some e -> exists i, nth_error l1 i = Some e.
Proof.
  intros A l2 l1 H. induction H as [|l2 x l1 H IH|x l2 l1 H IH]; intros j e Hj.
  - destruct j; discriminate.
  - destruct (IH j e Hj) as [i Hi]. exists (S i). exact Hi.
  - destruct j as [|j]; cbn [nth_error] in Hj.
    + exists O. exact Hj.
    + destruct (IH j e Hj) as [i Hi]. exists (S i). exact Hi.
Qed.

Lemma sublist_singletons_subseq : forall ls2 ls1 : list (list skel), sublist ls2 ls1 ->
  forallb (fun l => Nat.eqb (length l) 1) ls1 = true ->
  subseq (concat ls2) (concat ls1).
Proof.
  intros ls2 ls1 H. induction H as [|l2 x l1 H IH|x l2 l1 H IH]; intros H1; cbn [forallb] in H1.
  - constructor.
  - apply andb_prop in H1. destruct H1 as [Hx H1]. destruct x as [|c [|c' x]]; try discriminate.
    cbn [concat app]. apply sub_skip. apply IH. exact H1.
  - apply andb_prop in H1. destruct H1 as [Hx H1]. destruct x as [|c [|c' x]]; try discriminate.
    cbn [concat app]. apply sub_keep. apply IH. exact H1.
Qed.

Lemma voice_prog_singletons : forall p, voice_prog p = true ->
  forallb (fun l => Nat.eqb (length l) 1) (voice_skels p) = true.
Proof.
  intros p H. unfold voice_prog in H. destruct (p_lets p); [|discriminate].
  apply andb_prop in H. apply H.
Qed.

Lemma concat_singletons_length : forall (A : Type) (ls : list (list A)),
  forallb (fun l => Nat.eqb (length l) 1) ls = true -> length (concat ls) = length ls.
Proof.
  intros A. induction ls as [|l ls IH]; intros H; [reflexivity|].
  cbn [forallb] in H. apply andb_prop in H. destruct H as [Hl H].
  destruct l as [|x [|y l]]; try discriminate. cbn [concat app length]. rewrite IH by exact H. reflexivity.
Qed.

Lemma voice_skels_sublist : forall p1 p2, p_funs p2 = p_funs p1 ->
  sublist (p_outs p2) (p_outs p1) -> sublist (voice_skels p2) (voice_skels p1).
Proof.
  intros p1 p2 Hf H. unfold voice_skels. rewrite Hf.
  destruct (compile_funs (fun _ => None) (p_funs p1)); [apply sublist_map; exact H|constructor].
Qed.

Lemma voice_skel_same_expr : forall p1 p2 i j e c, p_funs p2 = p_funs p1 ->
  nth_error (p_outs p1) i = Some e -> nth_error (p_outs p2) j = Some e ->
  voice_skel p2 j = Some c -> voice_skel p1 i = Some c.
Proof.
  intros p1 p2 i j e c Hf Hi Hj H. unfold voice_skel, voice_skels in *. rewrite Hf in H.
  destruct (compile_funs (fun _ => None) (p_funs p1)) as [fe|]; [|destruct j; discriminate].
  rewrite (map_nth_error (expr_skel fe) _ _ Hj) in H. rewrite (map_nth_error (expr_skel fe) _ _ Hi). exact H.
Qed.

Lemma child_in_outs : forall p i c, voice_prog p = true ->
  nth_error (concat (voice_skels p)) i = Some c -> exists e, nth_error (p_outs p) i = Some e.
Proof.
  intros p i c Hvp Hc. pose proof (voice_prog_singletons p Hvp) as Hs.
  assert (Hlt : (i < length (concat (voice_skels p)))%nat) by (apply nth_error_Some; congruence).
  rewrite (concat_singletons_length _ _ Hs) in Hlt. unfold voice_skels in Hlt.
  destruct (compile_funs (fun _ => None) (p_funs p)); [|cbn in Hlt; lia].
  rewrite map_length in Hlt. destruct (nth_error (p_outs p) i) as [e|] eqn:He; [eauto|].
  apply nth_error_None in He. lia.
Qed.

Lemma carried_by_patch : forall os ns total ps i j c,
  plan (FnCall os) (FnCall ns) = Some (total, ps) ->
  In (mkPatch (child_off os i) (child_off ns j) (size c)) ps ->
  voice_carried (FnCall os) (FnCall ns) (child_off os i) (child_off ns j) (size c).
Proof.
  intros os ns total ps i j c Hplan Hin. unfold voice_carried. rewrite Hplan.
  exists (mkPatch (child_off os i) (child_off ns j) (size c)). split; [exact Hin|]. cbn [p_src p_dst p_sz].
  repeat split; lia.
Qed.

Section Edit.
  Variables (p1 : program) (cp1 : cprog) (p2 : program) (cp2 : cprog).
  Hypothesis Hc1 : compile p1 = Some cp1.
  Hypothesis Hw1 : wf_prog p1 = true.
  Hypothesis Hc2 : compile p2 = Some cp2.
  Hypothesis Hw2 : wf_prog p2 = true.
  Hypothesis Hv1 : voice_prog p1 = true.
  Hypothesis Hv2 : voice_prog p2 = true.
  Hypothesis Hfuns : p_funs p2 = p_funs p1.

  (* voices deleted: every new voice with cells is carried from an old voice with the identical skeleton *)
  Lemma delete_carried : sublist (p_outs p2) (p_outs p1) ->
    forall j c, voice_skel p2 j = Some c -> 0 < count_cells c ->
    exists i off1 off2,
      voice_skel p1 i = Some c /\ voice_range p1 i = Some (off1, size c) /\ voice_range p2 j = Some (off2, size c) /\
      voice_carried (published_skeleton cp1) (published_skeleton cp2) off1 off2 (size c) /\
      nth_error (concat (voice_skels p1)) i = Some c.
  Proof.
    intros Hsub j c Hsk Hcells.
    destruct (voice_prog_structure p1 cp1 Hc1 Hw1 Hv1) as [Hs1 Ho1].
    destruct (voice_prog_structure p2 cp2 Hc2 Hw2 Hv2) as [Hs2 Ho2].
    set (cs1 := concat (voice_skels p1)) in *. set (cs2 := concat (voice_skels p2)) in *.
    assert (Hsubseq : subseq cs2 cs1)
      by (apply sublist_singletons_subseq; [apply voice_skels_sublist; assumption|apply voice_prog_singletons; exact Hv1]).
    assert (Hj : exists e, nth_error (p_outs p2) j = Some e).
    { unfold voice_skel in Hsk. destruct (nth_error (voice_skels p2) j) as [l|] eqn:Hn; [|discriminate].
      unfold voice_skels in Hn. destruct (compile_funs (fun _ => None) (p_funs p2)); [|destruct j; discriminate].
      destruct (nth_error (p_outs p2) j) as [e|] eqn:He; [eauto|].
      apply nth_error_None in He. assert (nth_error (map (expr_skel c0) (p_outs p2)) j <> None) by congruence.
      apply nth_error_Some in H. rewrite map_length in H. lia. }
    destruct Hj as [e Hj]. destruct (Ho2 j e Hj) as (_ & c' & Hsk' & Hn2 & Hr2).
    rewrite Hsk in Hsk'. inv Hsk'.
    assert (Hfind : exists i, nth_error cs1 i = Some c' /\
              voice_carried (FnCall cs1) (FnCall cs2) (child_off cs1 i) (child_off cs2 j) (size c')).
    { destruct (plan (FnCall cs1) (FnCall cs2)) as [[total ps]|] eqn:Hplan.
      - destruct (survivors_whole cs1 cs2 total ps Hplan) as [Hdel _].
        destruct (Hdel Hsubseq j c' Hn2 Hcells) as (i & Hi & Hin).
        exists i. split; [exact Hi|]. apply (carried_by_patch _ _ _ _ _ _ _ Hplan Hin).
      - pose proof (plan_none_eq _ _ Hplan) as Heq. injection Heq as Heq.
        exists j. split; [rewrite Heq; exact Hn2|]. unfold voice_carried. rewrite Hplan, Heq. reflexivity. }
    destruct Hfind as (i & Hi & Hcar).
    destruct (child_in_outs p1 i c' Hv1 Hi) as [ei Hei].
    destruct (Ho1 i ei Hei) as (_ & c1 & Hsk1 & Hn1 & Hr1). fold cs1 in Hn1. rewrite Hi in Hn1. inv Hn1.
    exists i, (child_off cs1 i), (child_off cs2 j). rewrite Hs1, Hs2. auto.
  Qed.

  (* voices inserted: every old voice with cells is carried to a new voice with the identical skeleton *)
  Lemma insert_carried : sublist (p_outs p1) (p_outs p2) ->
    forall i c, voice_skel p1 i = Some c -> 0 < count_cells c ->
    exists j off1 off2,
      voice_skel p2 j = Some c /\ voice_range p1 i = Some (off1, size c) /\ voice_range p2 j = Some (off2, size c) /\
      voice_carried (published_skeleton cp1) (published_skeleton cp2) off1 off2 (size c) /\
      nth_error (concat (voice_skels p2)) j = Some c.
  Proof.
    intros Hsub i c Hsk Hcells.
    destruct (voice_prog_structure p1 cp1 Hc1 Hw1 Hv1) as [Hs1 Ho1].
    destruct (voice_prog_structure p2 cp2 Hc2 Hw2 Hv2) as [Hs2 Ho2].
    set (cs1 := concat (voice_skels p1)) in *. set (cs2 := concat (voice_skels p2)) in *.
    assert (Hsubseq : subseq cs1 cs2)
      by (apply sublist_singletons_subseq; [apply voice_skels_sublist; [symmetry|]; assumption|apply voice_prog_singletons; exact Hv2]).
    assert (Hi : exists e, nth_error (p_outs p1) i = Some e).
    { unfold voice_skel in Hsk. destruct (nth_error (voice_skels p1) i) as [l|] eqn:Hn; [|discriminate].
      unfold voice_skels in Hn. destruct (compile_funs (fun _ => None) (p_funs p1)); [|destruct i; discriminate].
      destruct (nth_error (p_outs p1) i) as [e|] eqn:He; [eauto|].
      apply nth_error_None in He. assert (nth_error (map (expr_skel c0) (p_outs p1)) i <> None) by congruence.
      apply nth_error_Some in H. rewrite map_length in H. lia. }
    destruct Hi as [e Hi]. destruct (Ho1 i e Hi) as (_ & c' & Hsk' & Hn1 & Hr1).
    rewrite Hsk in Hsk'. inv Hsk'.
    assert (Hfind : exists j, nth_error cs2 j = Some c' /\
              voice_carried (FnCall cs1) (FnCall cs2) (child_off cs1 i) (child_off cs2 j) (size c')).
    { destruct (plan (FnCall cs1) (FnCall cs2)) as [[total ps]|] eqn:Hplan.
      - destruct (survivors_whole cs1 cs2 total ps Hplan) as [_ Hins].
        destruct (Hins Hsubseq i c' Hn1 Hcells) as (j & Hj & Hin).
        exists j. split; [exact Hj|]. apply (carried_by_patch _ _ _ _ _ _ _ Hplan Hin).
      - pose proof (plan_none_eq _ _ Hplan) as Heq. injection Heq as Heq.
        exists i. split; [rewrite <- Heq; exact Hn1|]. unfold voice_carried. rewrite Hplan, Heq. reflexivity. }
    destruct Hfind as (j & Hj & Hcar).
    destruct (child_in_outs p2 j c' Hv2 Hj) as [ej Hej].
    destruct (Ho2 j ej Hej) as (_ & c2 & Hsk2 & Hn2 & Hr2). fold cs2 in Hn2. rewrite Hj in Hn2. inv Hn2.
    exists j, (child_off cs1 i), (child_off cs2 j). rewrite Hs1, Hs2. auto.
  Qed.
End Edit.

(* ---------- the corollaries ---------- *)
Theorem voices_delete : forall d p1 cp1 p2 cp2 j e c t0 rows1 m1 t1 rows2,
  compile p1 = Some cp1 -> wf_prog p1 = true -> compile p2 = Some cp2 -> wf_prog p2 = true ->
  voice_prog p1 = true -> voice_prog p2 = true ->
  p_funs p2 = p_funs p1 -> p_inputs p2 = p_inputs p1 ->
  sublist (p_outs p2) (p_outs p1) ->
  nth_error (p_outs p2) j = Some e -> voice_skel p2 j = Some c -> 0 < count_cells c ->
  rows_ok p1 rows1 -> final_state d p1 cp1 t0 rows1 (init_state d cp1) = Some m1 -> rows_ok p1 rows2 ->
  exists i off1 off2,
    voice_skel p1 i = Some c /\ voice_range p1 i = Some (off1, size c) /\ voice_range p2 j = Some (off2, size c) /\
    voice_carried (published_skeleton cp1) (published_skeleton cp2) off1 off2 (size c) /\
    (nth_error (p_outs p1) i = Some e -> continues d p1 cp1 p2 cp2 m1 t1 rows2 i j).
Proof.
  intros d p1 cp1 p2 cp2 j e c t0 rows1 m1 t1 rows2 Hc1 Hw1 Hc2 Hw2 Hv1 Hv2 Hfuns Hins Hsub Hj Hsk Hcells Hrows1 Hfin Hrows2.
  destruct (delete_carried p1 cp1 p2 cp2 Hc1 Hw1 Hc2 Hw2 Hv1 Hv2 Hfuns Hsub j c Hsk Hcells)
    as (i & off1 & off2 & Hsk1 & Hr1 & Hr2 & Hcar & _).
  exists i, off1, off2. repeat (split; [assumption|]). intros Hi.
  destruct (voice_prog_structure p1 cp1 Hc1 Hw1 Hv1) as [_ Ho1].
  destruct (voice_prog_structure p2 cp2 Hc2 Hw2 Hv2) as [_ Ho2].
  destruct (Ho1 i e Hi) as [Hcl1 _]. destruct (Ho2 j e Hj) as [Hcl2 _].
  apply (untouched_voice_continues d p1 cp1 p2 cp2 i j e off1 off2 (size c) t0 rows1 m1 t1 rows2); assumption.
Qed.

Theorem voices_insert : forall d p1 cp1 p2 cp2 i e c t0 rows1 m1 t1 rows2,
  compile p1 = Some cp1 -> wf_prog p1 = true -> compile p2 = Some cp2 -> wf_prog p2 = true ->
  voice_prog p1 = true -> voice_prog p2 = true ->
  p_funs p2 = p_funs p1 -> p_inputs p2 = p_inputs p1 ->
  sublist (p_outs p1) (p_outs p2) ->
  nth_error (p_outs p1) i = Some e -> voice_skel p1 i = Some c -> 0 < count_cells c ->
  rows_ok p1 rows1 -> final_state d p1 cp1 t0 rows1 (init_state d cp1) = Some m1 -> rows_ok p1 rows2 ->
  exists j off1 off2,
    voice_skel p2 j = Some c /\ voice_range p1 i = Some (off1, size c) /\ voice_range p2 j = Some (off2, size c) /\
    voice_carried (published_skeleton cp1) (published_skeleton cp2) off1 off2 (size c) /\
    (nth_error (p_outs p2) j = Some e -> continues d p1 cp1 p2 cp2 m1 t1 rows2 i j).
Proof.
  intros d p1 cp1 p2 cp2 i e c t0 rows1 m1 t1 rows2 Hc1 Hw1 Hc2 Hw2 Hv1 Hv2 Hfuns Hins Hsub Hi Hsk Hcells Hrows1 Hfin Hrows2.
  destruct (insert_carried p1 cp1 p2 cp2 Hc1 Hw1 Hc2 Hw2 Hv1 Hv2 Hfuns Hsub i c Hsk Hcells)
    as (j & off1 & off2 & Hsk2 & Hr1 & Hr2 & Hcar & _).
  exists j, off1, off2. repeat (split; [assumption|]). intros Hj.
  destruct (voice_prog_structure p1 cp1 Hc1 Hw1 Hv1) as [_ Ho1].
  destruct (voice_prog_structure p2 cp2 Hc2 Hw2 Hv2) as [_ Ho2].
  destruct (Ho1 i e Hi) as [Hcl1 _]. destruct (Ho2 j e Hj) as [Hcl2 _].
  apply (untouched_voice_continues d p1 cp1 p2 cp2 i j e off1 off2 (size c) t0 rows1 m1 t1 rows2); assumption.
Qed.

(* pairwise distinct skeletons: the voice is carried from / to its own original *)
Theorem voices_delete_distinct : forall d p1 cp1 p2 cp2 j e c t0 rows1 m1 t1 rows2,
  compile p1 = Some cp1 -> wf_prog p1 = true -> compile p2 = Some cp2 -> wf_prog p2 = true ->
  voice_prog p1 = true -> voice_prog p2 = true ->
  p_funs p2 = p_funs p1 -> p_inputs p2 = p_inputs p1 ->
  sublist (p_outs p2) (p_outs p1) -> NoDup (voice_skels p1) ->
  nth_error (p_outs p2) j = Some e -> voice_skel p2 j = Some c -> 0 < count_cells c ->
  rows_ok p1 rows1 -> final_state d p1 cp1 t0 rows1 (init_state d cp1) = Some m1 -> rows_ok p1 rows2 ->
  exists i, nth_error (p_outs p1) i = Some e /\ continues d p1 cp1 p2 cp2 m1 t1 rows2 i j.
Proof.
  intros d p1 cp1 p2 cp2 j e c t0 rows1 m1 t1 rows2 Hc1 Hw1 Hc2 Hw2 Hv1 Hv2 Hfuns Hins Hsub Hnd Hj Hsk Hcells Hrows1 Hfin Hrows2.
  destruct (voices_delete d p1 cp1 p2 cp2 j e c t0 rows1 m1 t1 rows2 Hc1 Hw1 Hc2 Hw2 Hv1 Hv2 Hfuns Hins Hsub Hj Hsk Hcells
              Hrows1 Hfin Hrows2) as (i & off1 & off2 & Hsk1 & _ & _ & _ & Hcont).
  destruct (sublist_nth _ _ _ Hsub j e Hj) as [i' Hi'].
  pose proof (voice_skel_same_expr p1 p2 i' j e c Hfuns Hi' Hj Hsk) as Hsk1'.
  assert (Heq : i = i').
  { unfold voice_skel in Hsk1, Hsk1'.
    destruct (nth_error (voice_skels p1) i) as [[|c1 [|c1' l1]]|] eqn:Hn; try discriminate. inv Hsk1.
    destruct (nth_error (voice_skels p1) i') as [[|c2 [|c2' l2]]|] eqn:Hn'; try discriminate. inv Hsk1'.
    apply (proj1 (NoDup_nth_error (voice_skels p1)) Hnd); [apply nth_error_Some; congruence|congruence]. }
  subst i'. exists i. split; [exact Hi'|apply Hcont; exact Hi'].
Qed.

Theorem voices_insert_distinct : forall d p1 cp1 p2 cp2 i e c t0 rows1 m1 t1 rows2,
  compile p1 = Some cp1 -> wf_prog p1 = true -> compile p2 = Some cp2 -> wf_prog p2 = true ->
  voice_prog p1 = true -> voice_prog p2 = true ->
  p_funs p2 = p_funs p1 -> p_inputs p2 = p_inputs p1 ->
  sublist (p_outs p1) (p_outs p2) -> NoDup (voice_skels p2) ->
  nth_error (p_outs p1) i = Some e -> voice_skel p1 i = Some c -> 0 < count_cells c ->
  rows_ok p1 rows1 -> final_state d p1 cp1 t0 rows1 (init_state d cp1) = Some m1 -> rows_ok p1 rows2 ->
  exists j, nth_error (p_outs p2) j = Some e /\ continues d p1 cp1 p2 cp2 m1 t1 rows2 i j.
Proof.
  intros d p1 cp1 p2 cp2 i e c t0 rows1 m1 t1 rows2 Hc1 Hw1 Hc2 Hw2 Hv1 Hv2 Hfuns Hins Hsub Hnd Hi Hsk Hcells Hrows1 Hfin Hrows2.
  destruct (voices_insert d p1 cp1 p2 cp2 i e c t0 rows1 m1 t1 rows2 Hc1 Hw1 Hc2 Hw2 Hv1 Hv2 Hfuns Hins Hsub Hi Hsk Hcells
              Hrows1 Hfin Hrows2) as (j & off1 & off2 & Hsk2 & _ & _ & _ & Hcont).
  destruct (sublist_nth _ _ _ Hsub i e Hi) as [j' Hj'].
  pose proof (voice_skel_same_expr p2 p1 j' i e c (eq_sym Hfuns) Hj' Hi Hsk) as Hsk2'.
  assert (Heq : j = j').
  { unfold voice_skel in Hsk2, Hsk2'.
    destruct (nth_error (voice_skels p2) j) as [[|c1 [|c1' l1]]|] eqn:Hn; try discriminate. inv Hsk2.
    destruct (nth_error (voice_skels p2) j') as [[|c2 [|c2' l2]]|] eqn:Hn'; try discriminate. inv Hsk2'.
    apply (proj1 (NoDup_nth_error (voice_skels p2)) Hnd); [apply nth_error_Some; congruence|congruence]. }
  subst j'. exists j. split; [exact Hj'|apply Hcont; exact Hj'].
Qed.
