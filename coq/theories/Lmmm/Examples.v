(* Lmmm/Examples.v — concrete programs used as witnesses / satisfiability examples. *)
From Coq Require Import List ZArith NArith Bool.
From Mimium Require Import StateTree.Model Lmmm.Syntax Lmmm.Ref Lmmm.Compile Lmmm.Machine Lmmm.Wf Lmmm.HotSwap Lmmm.Spec.
Import ListNotations.
Local Open Scope N_scope.

Definition cprog_dummy : cprog := mkCProg (fun _ => None) [] [] [] 0 [].
Definition compiled (p : program) : cprog :=
  match compile p with Some cp => cp | None => cprog_dummy end.

(* fn f1(x){ self + x }  fn f2(y){ mem(y) + delay(3, y, 2) }  fn dsp(){ (f2(f1(1)) + now, samplerate) } *)
Definition ex_prog : program :=
  mkProg [ mkFun 1 [10] (EBin OAdd ESelf (EVar 10));
           mkFun 2 [11] (EBin OAdd (EMem (EVar 11)) (EDelay 3 (EVar 11) (ELit 2))) ]
         [] []
         [ EBin OAdd (ECall 2 [ECall 1 [ELit 1]]) ENow; ESr ].

(* two voices with an input and a let: fn dsp(i){ let a = f1(i); (f2(a), f2(f1(2)) + a) } *)
Definition ex_prog2 : program :=
  mkProg [ mkFun 1 [10] (EBin OAdd ESelf (EVar 10));
           mkFun 2 [11] (EBin OAdd (EMem (EVar 11)) (EDelay 3 (EVar 11) (ELit 2))) ]
         [20] [(21, ECall 1 [EVar 20])]
         [ ECall 2 [EVar 21]; EBin OAdd (ECall 2 [ECall 1 [ELit 2]]) (EVar 21) ].

(* the witness of finding F2 (repaired): fn cnt(i){ self + i }  fn dsp(){ if (cnt(1)) cnt(10) else cnt(100) } *)
Definition f2_prog : program :=
  mkProg [ mkFun 1 [10] (EBin OAdd ESelf (EVar 10)) ] [] []
         [ EIf (ECall 1 [ELit 1]) (ECall 1 [ELit 10]) (ECall 1 [ELit 100]) ].

Lemma ex_prog_wf : wf_prog ex_prog = true.
Proof. vm_compute. reflexivity. Qed.
Lemma ex_prog_compiles : compile ex_prog = Some (compiled ex_prog).
Proof. vm_compute. reflexivity. Qed.
Lemma ex_prog_skeleton :
  published_skeleton (compiled ex_prog) = FnCall [FnCall [Feed 1]; FnCall [Mem 1; Delay 3]].
Proof. vm_compute. reflexivity. Qed.
Lemma ex_prog2_wf : wf_prog ex_prog2 = true.
Proof. vm_compute. reflexivity. Qed.
Lemma ex_prog2_compiles : compile ex_prog2 = Some (compiled ex_prog2).
Proof. vm_compute. reflexivity. Qed.

Lemma ex_prog_run :
  outs_of (mach_run VmD ex_prog (compiled ex_prog) 0 [[]; []; []; []] m0)
  = [Some [0; 48000]; Some [2; 48000]; Some [5; 48000]; Some [8; 48000]]%Z.
Proof. vm_compute. reflexivity. Qed.

(* the former F2 witness now behaves: wf, never faults, and produces the reference stream *)
Lemma f2_prog_wf : wf_prog f2_prog = true.
Proof. vm_compute. reflexivity. Qed.
Lemma f2_prog_compiles : compile f2_prog = Some (compiled f2_prog).
Proof. vm_compute. reflexivity. Qed.
Lemma f2_prog_skeleton :
  published_skeleton (compiled f2_prog) = FnCall [FnCall [Feed 1]; FnCall [Feed 1]; FnCall [Feed 1]].
Proof. vm_compute. reflexivity. Qed.
Lemma f2_prog_runs :
  outs_of (mach_run VmD f2_prog (compiled f2_prog) 0 [[]; []; []] m0) = [Some [10]; Some [20]; Some [30]]%Z /\
  option_map fst (ref_run f2_prog 0 [[]; []; []] st0) = Some [[10]; [20]; [30]]%Z.
Proof. vm_compute. auto. Qed.

(* outside wf the two disciplines may differ: a redefined function name makes a call site that was
   compiled as stateless run a stateful body without storage: the VM faults, WASM grows the storage *)
Definition dup_prog : program :=
  mkProg [ mkFun 1 [10] (EVar 10); mkFun 2 [11] (ECall 1 [EVar 11]); mkFun 1 [10] (EMem (EVar 10)) ] [] []
         [ ECall 2 [ELit 1] ].

Lemma disciplines_differ_outside_wf : exists p cp,
  compile p = Some cp /\ wf_prog p = false /\
  In None (mach_run VmD p cp 0%Z [[]] m0) /\ ~ In None (mach_run WasmD p cp 0%Z [[]] m0).
Proof.
  exists dup_prog, (compiled dup_prog). split; [vm_compute; reflexivity|]. split; [vm_compute; reflexivity|]. split.
  - vm_compute. auto.
  - vm_compute. intros [H|[]]. discriminate.
Qed.

Lemma ex_prog2_rows : rows_ok ex_prog2 [[1]; [2]; [3]]%Z.
Proof. repeat constructor. Qed.

Lemma ex_prog_segments :
  run_segments VmD ex_prog (compiled ex_prog) 0%Z [[[]; []]; [[]]; [[]]] (init_state VmD (compiled ex_prog))
  = Some [Some [0; 48000]; Some [2; 48000]; Some [5; 48000]; Some [8; 48000]]%Z.
Proof. vm_compute. reflexivity. Qed.

Lemma ex_prog_final_state :
  option_map m_words (final_state VmD ex_prog (compiled ex_prog) 0%Z [[]; []] m0)
  = Some [2; 2; 2; 2; 1; 2; 0]%Z.
Proof. vm_compute. reflexivity. Qed.

Lemma ex_prog2_streams :
  option_map fst (ref_run ex_prog2 0 [[1]; [2]; [3]; [4]]%Z st0) = Some [[0; 1]; [1; 5]; [4; 12]; [9; 20]]%Z /\
  outs_of (mach_run VmD ex_prog2 (compiled ex_prog2) 0 [[1]; [2]; [3]; [4]]%Z m0)
  = [Some [0; 1]; Some [1; 5]; Some [4; 12]; Some [9; 20]]%Z.
Proof. vm_compute. auto. Qed.

(* ---------- voices (C07) ---------- *)
Definition vfuns : list fundef :=
  [ mkFun 1 [10] (EBin OAdd ESelf (EVar 10));
    mkFun 2 [11] (EBin OAdd (EMem (EVar 11)) (EDelay 3 (EVar 11) (ELit 2))) ].
(* old: (cnt(1), f2(3));  new: a voice cnt(5) inserted in between *)
Definition v_old : program := mkProg vfuns [] [] [ ECall 1 [ELit 1]; ECall 2 [ELit 3] ].
Definition v_new : program := mkProg vfuns [] [] [ ECall 1 [ELit 1]; ECall 1 [ELit 5]; ECall 2 [ELit 3] ].

Lemma v_progs_ok :
  wf_prog v_old = true /\ wf_prog v_new = true /\
  compile v_old = Some (compiled v_old) /\ compile v_new = Some (compiled v_new).
Proof. vm_compute. auto. Qed.

Lemma v_plan :
  plan (published_skeleton (compiled v_old)) (published_skeleton (compiled v_new))
  = Some (8, [mkPatch 0 1 1; mkPatch 1 2 6]).
Proof. vm_compute. reflexivity. Qed.

Lemma v_ranges :
  voice_range v_old 1 = Some (1, 6) /\ voice_range v_new 2 = Some (2, 6) /\ voice_range v_new 0 = Some (0, 1) /\
  closed_voice v_old (ECall 2 [ELit 3]) = true /\ closed_voice v_new (ECall 2 [ELit 3]) = true /\
  closed_voice v_new (ECall 1 [ELit 1]) = true.
Proof. vm_compute. auto 10. Qed.

Lemma v_carried : voice_carried (published_skeleton (compiled v_old)) (published_skeleton (compiled v_new)) 1 2 6.
Proof.
  unfold voice_carried. rewrite v_plan. exists (mkPatch 1 2 6). split; [right; left; reflexivity|].
  vm_compute. repeat split; intros H; discriminate H.
Qed.

Lemma v_unwritten : voice_unwritten (published_skeleton (compiled v_old)) (published_skeleton (compiled v_new)) 0 1.
Proof.
  unfold voice_unwritten. rewrite v_plan. intros pt k Hin Hk.
  assert (k = 0) by (destruct k as [|[q|q|]]; [reflexivity|destruct q; discriminate Hk..|discriminate Hk]). subst k.
  destruct Hin as [<-|[<-|[]]]; cbn [p_dst p_sz]; intros [H1 H2]; vm_compute in H1; apply H1; reflexivity.
Qed.

(* concrete runs: 3 samples of the old program, hot swap, 3 samples of the new program.
   f2(3) (old channel 1 -> new channel 2) continues; the state of the old cnt(1) is carried to the NEW voice
   cnt(5) (identically shaped sibling, LCS tie), the unchanged source voice cnt(1) restarts from zero *)
Lemma v_swap_run :
  map (chan 1) (outs_of (mach_run VmD v_old (compiled v_old) 0 [[];[];[];[];[];[]] m0))
    = [Some 0; Some 3; Some 6; Some 6; Some 6; Some 6]%Z /\
  map (chan 0) (outs_of (mach_run VmD v_old (compiled v_old) 0 [[];[];[];[];[];[]] m0))
    = [Some 1; Some 2; Some 3; Some 4; Some 5; Some 6]%Z /\
  option_map (fun r => (map (chan 0) (outs_of r), map (chan 1) (outs_of r), map (chan 2) (outs_of r)))
             (swap_run VmD v_old (compiled v_old) v_new (compiled v_new) [[];[];[]] [[];[];[]])
    = Some ([Some 1; Some 2; Some 3], [Some 8; Some 13; Some 18], [Some 6; Some 6; Some 6])%Z.
Proof. vm_compute. auto. Qed.

(* voice programs: v_old and v_new above, and v_del = v_old with the voice cnt(1) deleted *)
Definition v_del : program := mkProg vfuns [] [] [ ECall 2 [ELit 3] ].

Lemma v_voice_progs :
  voice_prog v_old = true /\ voice_prog v_new = true /\ voice_prog v_del = true /\
  wf_prog v_del = true /\ compile v_del = Some (compiled v_del) /\
  voice_skels v_old = [[FnCall [Feed 1]]; [FnCall [Mem 1; Delay 3]]] /\
  voice_skel v_del 0 = Some (FnCall [Mem 1; Delay 3]).
Proof. vm_compute. auto 10. Qed.

Lemma v_sublists : sublist (p_outs v_del) (p_outs v_old) /\ sublist (p_outs v_old) (p_outs v_new).
Proof.
  split; cbn [p_outs v_del v_old v_new].
  - apply sl_skip. apply sl_keep. apply sl_nil.
  - apply sl_keep. apply sl_skip. apply sl_keep. apply sl_nil.
Qed.

Lemma v_old_distinct : NoDup (voice_skels v_old).
Proof.
  replace (voice_skels v_old) with [[FnCall [Feed 1]]; [FnCall [Mem 1; Delay 3]]] by (vm_compute; reflexivity).
  constructor; [intros [H|[]]; discriminate H|]. constructor; [intros []|constructor].
Qed.

(* deleting cnt(1): f2(3) moves from channel 1 to channel 0 and continues (6,6,6) *)
Lemma v_delete_run :
  option_map (fun r => map (chan 0) (outs_of r))
             (swap_run VmD v_old (compiled v_old) v_del (compiled v_del) [[];[];[]] [[];[];[]])
  = Some [Some 6; Some 6; Some 6]%Z.
Proof. vm_compute. reflexivity. Qed.
