(* Lmmm/RenameRef.v — C16: the reference semantics is invariant under injective renaming. *)
From Coq Require Import List ZArith NArith Bool Lia.
From Mimium Require Import StateTree.Model Lmmm.Syntax Lmmm.Ref Lmmm.Compile Lmmm.Machine Lmmm.Wf Lmmm.Spec Lmmm.Base Lmmm.Rename.
Import ListNotations.

Lemma inj_eqb : forall f a b, injective f -> N.eqb (f a) (f b) = N.eqb a b.
Proof.
  intros f a b Hi. destruct (N.eqb_spec a b) as [->|Hne]; [apply N.eqb_refl|].
  apply N.eqb_neq. intros H. apply Hne. apply Hi. exact H.
Qed.

Section RefRename.
  Variable rv rf : ident -> ident.
  Hypothesis Hrv : injective rv.
  Hypothesis Hrf : injective rf.

  Definition rename_env (r : env) : env := map (fun yv => (rv (fst yv), snd yv)) r.

  Lemma lookup_rename : forall x r, lookup (rv x) (rename_env r) = lookup x r.
  Proof.
    induction r as [|[y v] r IH]; [reflexivity|]. cbn [rename_env map fst snd lookup].
    rewrite (inj_eqb rv x y Hrv). destruct (N.eqb x y); [reflexivity|exact IH].
  Qed.

  Lemma bind_params_rename : forall ps vs,
    bind_params (map rv ps) vs = option_map rename_env (bind_params ps vs).
  Proof.
    induction ps as [|p ps IH]; intros [|v vs]; cbn [map bind_params option_map]; try reflexivity.
    rewrite IH. destruct (bind_params ps vs); reflexivity.
  Qed.

  (* function environments related by the renaming (extensionally) *)
  Definition fenv_ren (fe fe' : ident -> option ref_fn) : Prop :=
    forall f, match fe f, fe' (rf f) with
              | Some fn, Some fn' => forall vs inst, fn' vs inst = fn vs inst
              | None, None => True
              | _, _ => False
              end.

  Section Eval.
    Variable now : Z.
    Variable fe fe' : ident -> option ref_fn.
    Hypothesis Hfe : fenv_ren fe fe'.

    Lemma ref_eval_rename : forall e sv r s,
      ref_eval fe' now sv (rename_env r) (rename_expr rv rf e) s = ref_eval fe now sv r e s.
    Proof.
      induction e as [z|x| | | |op a b IHa IHb|a IHa|x a b IHa IHb|cn t e' IHc IHt IHe|f args IHargs|a IHa|n a t IHa IHt]
        using expr_ind'; intros sv r s; cbn [rename_expr ref_eval]; try reflexivity.
      - rewrite lookup_rename. reflexivity.
      - rewrite IHa, IHb. reflexivity.
      - rewrite IHa. reflexivity.
      - rewrite IHa. destruct (ref_eval fe now sv r a (kid s 0)) as [[va ka]|]; [|reflexivity].
        change ((rv x, va) :: rename_env r) with (rename_env ((x, va) :: r)). rewrite IHb. reflexivity.
      - rewrite IHc, IHt, IHe. reflexivity.
      - fold (ref_args fe' now sv (rename_env r) s). fold (ref_args fe now sv r s). rewrite map_length.
        assert (Hargs : forall i, ref_args fe' now sv (rename_env r) s (map (rename_expr rv rf) args) i
                                  = ref_args fe now sv r s args i).
        { induction IHargs as [|a args Ha _ IH]; intros i; [reflexivity|].
          cbn [map]. rewrite !ref_args_cons, Ha, IH. reflexivity. }
        rewrite Hargs. destruct (ref_args fe now sv r s args 0) as [[vs ks]|]; [|reflexivity].
        pose proof (Hfe f) as Hf. destruct (fe f) as [fn|], (fe' (rf f)) as [fn'|]; try contradiction; [|reflexivity].
        rewrite Hf. reflexivity.
      - rewrite IHa. reflexivity.
      - rewrite IHa, IHt. reflexivity.
    Qed.

    Lemma ref_call_rename : forall fd vs inst,
      ref_call fe' now (rename_fun rv rf fd) vs inst = ref_call fe now fd vs inst.
    Proof.
      intros fd vs inst. unfold ref_call. cbn [rename_fun f_params f_body]. rewrite bind_params_rename.
      destruct (bind_params (f_params fd) vs) as [r|]; [|reflexivity]. cbn [option_map].
      rewrite ref_eval_rename. reflexivity.
    Qed.

    Lemma ref_lets_rename : forall lets r s i,
      ref_lets fe' now (rename_env r) (map (rename_let rv rf) lets) s i
      = option_map (fun rk => (rename_env (fst rk), snd rk)) (ref_lets fe now r lets s i).
    Proof.
      induction lets as [|[x e] lets IH]; intros r s i; [reflexivity|].
      cbn [map rename_let fst snd ref_lets]. rewrite ref_eval_rename.
      destruct (ref_eval fe now 0%Z r e (kid s i)) as [[v k]|]; [|reflexivity].
      change ((rv x, v) :: rename_env r) with (rename_env ((x, v) :: r)). rewrite IH.
      destruct (ref_lets fe now ((x, v) :: r) lets s (S i)) as [[r' ks]|]; reflexivity.
    Qed.

    Lemma ref_outs_rename : forall outs r s i,
      ref_outs fe' now (rename_env r) (map (rename_expr rv rf) outs) s i = ref_outs fe now r outs s i.
    Proof.
      induction outs as [|e outs IH]; intros r s i; [reflexivity|].
      cbn [map ref_outs]. rewrite ref_eval_rename, IH. reflexivity.
    Qed.
  End Eval.

  Lemma ref_fenv_rename : forall now l, fenv_ren (ref_fenv now l) (ref_fenv now (map (rename_fun rv rf) l)).
  Proof.
    intros now. induction l as [|fd l IH]; intros f; cbn [map ref_fenv]; [exact I|].
    cbn [rename_fun f_name]. rewrite (inj_eqb rf f (f_name fd) Hrf).
    destruct (N.eqb f (f_name fd)); [|apply IH].
    intros vs inst. apply (ref_call_rename now _ _ IH fd vs inst).
  Qed.

  Lemma ref_step_rename : forall p now inputs s,
    ref_step (rename_prog rv rf p) now inputs s = ref_step p now inputs s.
  Proof.
    intros p now inputs s. unfold ref_step. cbn [rename_prog p_funs p_inputs p_lets p_outs].
    rewrite <- map_rev, bind_params_rename, map_length.
    destruct (bind_params (p_inputs p) inputs) as [r0|]; [|reflexivity]. cbn [option_map].
    pose proof (ref_fenv_rename now (rev (p_funs p))) as Hfe.
    rewrite (ref_lets_rename now _ _ Hfe).
    destruct (ref_lets (ref_fenv now (rev (p_funs p))) now r0 (p_lets p) s 0) as [[r ks1]|]; [|reflexivity].
    cbn [option_map fst snd]. rewrite (ref_outs_rename now _ _ Hfe). reflexivity.
  Qed.

  Theorem alpha_ref_gen : forall p rows t0 s,
    ref_run (rename_prog rv rf p) t0 rows s = ref_run p t0 rows s.
  Proof.
    intros p. induction rows as [|i rows IH]; intros t0 s; [reflexivity|].
    cbn [ref_run]. rewrite ref_step_rename. destruct (ref_step p t0 i s) as [[o s']|]; [|reflexivity].
    rewrite IH. reflexivity.
  Qed.
End RefRename.

(* C16_alpha_ref *)
Theorem alpha_ref : forall rv rf p rows, injective rv -> injective rf ->
  ref_run (rename_prog rv rf p) 0%Z rows st0 = ref_run p 0%Z rows st0.
Proof. intros rv rf p rows Hrv Hrf. apply alpha_ref_gen; assumption. Qed.
