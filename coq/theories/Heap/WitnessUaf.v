(* Heap/WitnessUaf.v — witness of C12_no_uaf_refuted: the H2 event log of the real VM for the program below
   (global initialisation, then sample 0 up to the panic "Invalid indirect callable").  checks/C12.py re-runs the
   SOURCE on the real VM on every run and compares the log with the tuples of this file.
   What happens: the four temporary closures of `mk` share the upvalue cell of `g` with the escaping closure `a`;
   closing `a` turns the cell into Closed(.., is_closure) and retains g twice; each temporary is still open when the
   frame of `mk` exits, release_heap_closure drops it to 0, and drop_closure releases the closure found in the (now
   closed) shared cell although the temporary never retained it.  After four such releases g and its heap wrapper
   are freed while `a` and the variable g0 still hold the handle; calling a(1.0) looks the freed handle up. *)
(* SOURCE
fn mk(g:(float)->float){
  let a = |x:float| { g(x) }
  let t1 = (|x:float| { g(x) + 1.0 })(2.0)
  let t2 = (|x:float| { g(x) + 2.0 })(2.0)
  let t3 = (|x:float| { g(x) + 3.0 })(2.0)
  let t4 = (|x:float| { g(x) + 4.0 })(2.0)
  a
}
fn dsp(){
  let k = 3.0
  let g0 = |x:float| { x * k }
  let a = mk(g0)
  a(1.0)
}
END SOURCE *)
From Coq Require Import List NArith.
From Mimium Require Import Heap.Model.
Import ListNotations.
Local Open Scope N_scope.

Definition decode_uaf (l : list (N * N * N * N)) : list event :=
  flat_map (fun t => match t with (k, i, v, rc) =>
                       match event_of_tuple k i v rc with Some e => [e] | None => [] end end) l.

Definition uaf_trace_raw : list (N * N * N * N) :=
  [(42, 0, 0, 0);
   (37, 8, 0, 0);
   (16, 1, 1, 1);
   (0, 1, 1, 1);
   (35, 1, 1, 0);
   (5, 1, 1, 1);
   (1, 1, 1, 2);
   (17, 1, 1, 2);
   (36, 1, 1, 0);
   (5, 1, 1, 2);
   (34, 1, 1, 0);
   (20, 1, 1, 2);
   (20, 1, 1, 2);
   (20, 1, 1, 2);
   (22, 1, 1, 2);
   (37, 2, 0, 0);
   (16, 2, 1, 1);
   (0, 2, 1, 1);
   (37, 3, 0, 0);
   (16, 3, 1, 1);
   (0, 3, 1, 1);
   (5, 3, 1, 1);
   (20, 3, 1, 1);
   (20, 3, 1, 1);
   (5, 1, 1, 2);
   (20, 1, 1, 2);
   (20, 1, 1, 2);
   (42, 0, 0, 0);
   (42, 0, 0, 0);
   (37, 4, 0, 0);
   (16, 4, 1, 1);
   (0, 4, 1, 1);
   (5, 4, 1, 1);
   (20, 4, 1, 1);
   (20, 4, 1, 1);
   (5, 1, 1, 2);
   (20, 1, 1, 2);
   (20, 1, 1, 2);
   (42, 0, 0, 0);
   (42, 0, 0, 0);
   (37, 5, 0, 0);
   (16, 5, 1, 1);
   (0, 5, 1, 1);
   (5, 5, 1, 1);
   (20, 5, 1, 1);
   (20, 5, 1, 1);
   (5, 1, 1, 2);
   (20, 1, 1, 2);
   (20, 1, 1, 2);
   (42, 0, 0, 0);
   (42, 0, 0, 0);
   (37, 6, 0, 0);
   (16, 6, 1, 1);
   (0, 6, 1, 1);
   (5, 6, 1, 1);
   (20, 6, 1, 1);
   (20, 6, 1, 1);
   (5, 1, 1, 2);
   (20, 1, 1, 2);
   (20, 1, 1, 2);
   (42, 0, 0, 0);
   (42, 0, 0, 0);
   (36, 1, 2, 0);
   (5, 2, 1, 1);
   (34, 2, 1, 0);
   (20, 2, 1, 1);
   (20, 2, 1, 1);
   (23, 1, 1, 0);
   (5, 1, 1, 2);
   (1, 1, 1, 3);
   (20, 1, 1, 2);
   (17, 1, 1, 3);
   (20, 2, 1, 1);
   (22, 2, 1, 1);
   (36, 1, 2, 0);
   (5, 2, 1, 1);
   (34, 2, 1, 0);
   (20, 2, 1, 1);
   (20, 2, 1, 1);
   (23, 1, 1, 0);
   (5, 1, 1, 3);
   (1, 1, 1, 4);
   (20, 1, 1, 3);
   (17, 1, 1, 4);
   (20, 2, 1, 1);
   (22, 2, 1, 1);
   (35, 1, 2, 0);
   (5, 2, 1, 1);
   (1, 2, 1, 2);
   (17, 2, 1, 2);
   (42, 0, 5, 0);
   (33, 2, 1, 0);
   (20, 2, 1, 2);
   (2, 2, 1, 1);
   (33, 3, 1, 0);
   (20, 3, 1, 1);
   (32, 3, 1, 0);
   (18, 3, 1, 0);
   (23, 1, 1, 0);
   (5, 1, 1, 4);
   (32, 1, 1, 0);
   (18, 1, 1, 3);
   (2, 1, 1, 3);
   (19, 3, 1, 0);
   (2, 3, 1, 0);
   (3, 3, 1, 0);
   (33, 4, 1, 0);
   (20, 4, 1, 1);
   (32, 4, 1, 0);
   (18, 4, 1, 0);
   (23, 1, 1, 0);
   (5, 1, 1, 3);
   (32, 1, 1, 0);
   (18, 1, 1, 2);
   (2, 1, 1, 2);
   (19, 4, 1, 0);
   (2, 4, 1, 0);
   (3, 4, 1, 0);
   (33, 5, 1, 0);
   (20, 5, 1, 1);
   (32, 5, 1, 0);
   (18, 5, 1, 0);
   (23, 1, 1, 0);
   (5, 1, 1, 2);
   (32, 1, 1, 0);
   (18, 1, 1, 1);
   (2, 1, 1, 1);
   (19, 5, 1, 0);
   (2, 5, 1, 0);
   (3, 5, 1, 0);
   (33, 6, 1, 0);
   (20, 6, 1, 1);
   (32, 6, 1, 0);
   (18, 6, 1, 0);
   (23, 1, 1, 0);
   (5, 1, 1, 1);
   (32, 1, 1, 0);
   (18, 1, 1, 0);
   (19, 1, 1, 0);
   (2, 1, 1, 0);
   (3, 1, 1, 0);
   (19, 6, 1, 0);
   (2, 6, 1, 0);
   (3, 6, 1, 0);
   (5, 2, 1, 1);
   (20, 2, 1, 2);
   (20, 2, 1, 2);
   (5, 1, 1, 18446744073709551615);
   (21, 1, 1, 18446744073709551615)].
Definition uaf_trace : list event := decode_uaf uaf_trace_raw.

Lemma uaf_trace_decoded : length uaf_trace = length uaf_trace_raw.
Proof. vm_compute. reflexivity. Qed.

Lemma no_uaf_refuted :
  exists (tr1 : list event) (e : event) (tr2 : list event) (m1 : mach),
    uaf_trace = tr1 ++ e :: tr2
    /\ mrun mach_new tr1 = Some m1                      (* everything before is accepted by the monitor *)
    /\ e_op e = EProbe /\ e_rc e = None                  (* the VM looks a handle up and finds nothing *)
    /\ count_key (e_store e) EAlloc (e_key e) tr1 = 1    (* the handle was handed out by an allocation ... *)
    /\ count_key (e_store e) EFree (e_key e) tr1 = 1     (* ... and its object has been freed since *)
    /\ mstep m1 e = None                                 (* the monitor rejects exactly here *)
    /\ balanced uaf_trace = false.
Proof.
  destruct (first_reject mach_new uaf_trace 0) as [i|] eqn:Hi; [|vm_compute in Hi; discriminate].
  vm_compute in Hi. inversion Hi; subst i; clear Hi.
  exists (firstn 147%nat uaf_trace), (nth 147%nat uaf_trace (mkEv SH ERef (mkKey 0 0) None)), (skipn (S 147%nat) uaf_trace).
  eexists. split; [vm_compute; reflexivity|].
  split; [vm_compute; reflexivity|].
  repeat split; vm_compute; reflexivity.
Qed.
