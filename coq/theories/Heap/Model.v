(* Heap/Model.v — executable model of the VM's reference-counted object stores (property C12).
   Definitions only.  Literal transcription of
     slotmap 1.0.7 src/basic.rs                       SlotMap<DefaultKey, V> (insert / remove / get / contains_key)
     crates/lib/mimium-lang/src/runtime/vm/heap.rs    HeapObject, heap_retain, heap_release
     crates/lib/mimium-lang/src/runtime/vm.rs         Closure{refcount,is_closed}, allocate_closure,
                                                      allocate_heap_closure, drop_closure, release_heap_closure,
                                                      close_upvalues_by_idx (reference-count part), CloneHeap,
                                                      release_open_closures, release_heap_closures,
                                                      BoxAlloc / BoxLoad / BoxStore / BoxClone / BoxRelease
   Abstractions:
   - slot versions are unbounded [N] (Rust: u32 with wrapping_add; a slot must be reused 2^31 times before a
     version repeats);
   - an object is {refcount, is_closed, data}; the heap uses [data] as HeapObject.data (a heap-backed closure
     keeps the raw ClosureIdx in data[0]), closures use [data] for nothing (fn_proto_pos, base_ptr, state
     storage and upvalue cells are not modelled: the raw values of closure-typed upvalues that
     drop_closure / close_upvalues_by_idx read from the upvalue cells are inputs of the model);
   - the value stack is not modelled: instructions take the raw register value as an argument. *)
From Coq Require Import List NArith Bool.
Import ListNotations.
Local Open Scope N_scope.

(* ---------------------------------------------------------------------- *)
(* slotmap: KeyData { idx: u32, version: NonZeroU32 }                       *)
Record key := mkKey { kidx : N; kver : N }.

Definition key_eqb (a b : key) : bool := (kidx a =? kidx b) && (kver a =? kver b).

(* How the VM moves a key through a register: `Machine::get_as::<HeapIdx / ClosureIdx>(raw)` and `to_value(key)` are
   transmute_copy of KeyData { idx: u32, version: NonZeroU32 }.  With the pinned toolchain the version occupies the
   low and the index the high 32 bits of the word (harness `--probe` reports "key_layout":"idx-high"; checks/C12.py
   fails when that changes).  NB this is NOT KeyData::as_ffi / from_ffi, which put the index low. *)
Definition key_of_raw (r : N) : key := mkKey (N.shiftr r 32) (N.land r 4294967295).
Definition raw_of_key (k : key) : N := N.lor (N.shiftl (kidx k) 32) (kver k).

(* ---------------------------------------------------------------------- *)
(* slotmap basic.rs: struct Slot<T> { u: union { value, next_free }, version }  (version even = vacant)
   struct SlotMap { slots: Vec<Slot<V>>, free_head: u32, num_elems: u32 }                                *)
Section SlotMap.
  Context {V : Type}.

  Record slot := mkSlot { sver : N; sval : option V; snext : N }.
  Record smap := mkSMap { slots : list slot; free_head : N; num_elems : N }.

  (* with_capacity_and_key: a sentinel slot at index 0, free_head = 1 *)
  Definition sm_new : smap := mkSMap [mkSlot 0 None 0] 1 0.

  Fixpoint set_nth {A : Type} (l : list A) (n : nat) (x : A) : list A :=
    match l, n with
    | [], _ => []
    | _ :: r, O => x :: r
    | y :: r, S n' => y :: set_nth r n' x
    end.

  (* slots.get(i); the bound test first keeps the lookup cheap for wild indices (raw floats tried as keys) *)
  Definition slot_at (m : smap) (i : N) : option slot :=
    if i <? N.of_nat (length (slots m)) then nth_error (slots m) (N.to_nat i) else None.

  (* contains_key: slots.get(idx).map_or(false, |slot| slot.version == kd.version) *)
  Definition sm_contains (m : smap) (k : key) : bool :=
    match slot_at m (kidx k) with
    | Some s => sver s =? kver k
    | None => false
    end.

  (* get: slots.get(idx).filter(version ==).map(value) *)
  Definition sm_get (m : smap) (k : key) : option V :=
    match slot_at m (kidx k) with
    | Some s => if sver s =? kver k then sval s else None
    | None => None
    end.

  (* try_insert_with_key *)
  Definition sm_insert (m : smap) (v : V) : smap * key :=
    match slot_at m (free_head m) with
    | Some s =>
        let ov := N.lor (sver s) 1 in
        (mkSMap (set_nth (slots m) (N.to_nat (free_head m)) (mkSlot ov (Some v) 0))
                (snext s) (num_elems m + 1),
         mkKey (free_head m) ov)
    | None =>
        let i := N.of_nat (length (slots m)) in
        (mkSMap (slots m ++ [mkSlot 1 (Some v) 0]) (i + 1) (num_elems m + 1), mkKey i 1)
    end.

  (* remove = contains_key + remove_from_slot *)
  Definition sm_remove (m : smap) (k : key) : smap * option V :=
    if sm_contains m k then
      match slot_at m (kidx k) with
      | Some s =>
          (mkSMap (set_nth (slots m) (N.to_nat (kidx k)) (mkSlot (sver s + 1) None (free_head m)))
                  (kidx k) (num_elems m - 1),
           sval s)
      | None => (m, None)
      end
    else (m, None).

  (* get_mut followed by an assignment of the whole value *)
  Definition sm_set (m : smap) (k : key) (v : V) : smap :=
    match slot_at m (kidx k) with
    | Some s =>
        if sver s =? kver k
        then mkSMap (set_nth (slots m) (N.to_nat (kidx k)) (mkSlot (sver s) (Some v) (snext s)))
                    (free_head m) (num_elems m)
        else m
    | None => m
    end.

  (* len() *)
  Definition sm_len (m : smap) : N := num_elems m.
End SlotMap.
Arguments slot V : clear implicits.
Arguments smap V : clear implicits.

(* ---------------------------------------------------------------------- *)
(* heap.rs HeapObject { refcount, size, data }  /  vm.rs Closure { refcount, is_closed, .. }              *)
Record obj := mkObj { orc : N; oclosed : bool; odata : list N }.
Definition store := smap obj.

(* HeapObject::with_data / Closure::new: refcount 1, is_closed false *)
Definition st_alloc (s : store) (data : list N) : store * key := sm_insert s (mkObj 1 false data).

(* ---------------------------------------------------------------------- *)
(* Operations of heap.rs on one store, as the property text lists them.
   A result tells what the Rust code did: [RInvalid] = the `else` branch (log::warn, nothing changes). *)
Inductive hop :=
| HAlloc (data : list N)
| HRetain (k : key)
| HRelease (k : key)
| HLoad (k : key)
| HStore (k : key) (data : list N).

Inductive hres :=
| RKey (k : key)          (* alloc returned k *)
| RCount (n : N)          (* retain / release: refcount after; release to 0 also removed the object *)
| RData (d : list N)      (* load *)
| RUnit                   (* store *)
| RInvalid.               (* invalid key: warning (retain/release) or panic (BoxLoad/BoxStore `expect`) *)

(* heap_retain *)
Definition heap_retain (s : store) (k : key) : store * hres :=
  match sm_get s k with
  | Some o => (sm_set s k (mkObj (orc o + 1) (oclosed o) (odata o)), RCount (orc o + 1))
  | None => (s, RInvalid)
  end.

(* heap_release: decrement, remove at 0 *)
Definition heap_release (s : store) (k : key) : store * hres :=
  match sm_get s k with
  | Some o =>
      let s1 := sm_set s k (mkObj (orc o - 1) (oclosed o) (odata o)) in
      if orc o - 1 =? 0 then (fst (sm_remove s1 k), RCount 0) else (s1, RCount (orc o - 1))
  | None => (s, RInvalid)
  end.

Definition hstep (s : store) (o : hop) : store * hres :=
  match o with
  | HAlloc d => let (s', k) := st_alloc s d in (s', RKey k)
  | HRetain k => heap_retain s k
  | HRelease k => heap_release s k
  | HLoad k => match sm_get s k with Some ob => (s, RData (odata ob)) | None => (s, RInvalid) end
  | HStore k d =>
      match sm_get s k with
      | Some ob => (sm_set s k (mkObj (orc ob) (oclosed ob) d), RUnit)
      | None => (s, RInvalid)
      end
  end.

(* run a sequence of operations, keeping the log of (operation, result) *)
Fixpoint hrun (s : store) (ops : list hop) : store * list (hop * hres) :=
  match ops with
  | [] => (s, [])
  | o :: r =>
      let (s1, res) := hstep s o in
      let (s2, lg) := hrun s1 r in
      (s2, (o, res) :: lg)
  end.

(* contribution of one logged operation to the reference count of key k *)
Definition delta (k : key) (e : hop * hres) : (N * N) :=      (* (increments, decrements) *)
  match e with
  | (HAlloc _, RKey k') => if key_eqb k k' then (1, 0) else (0, 0)
  | (HRetain k', RCount _) => if key_eqb k k' then (1, 0) else (0, 0)
  | (HRelease k', RCount _) => if key_eqb k k' then (0, 1) else (0, 0)
  | _ => (0, 0)
  end.

Fixpoint incs (k : key) (lg : list (hop * hres)) : N :=
  match lg with [] => 0 | e :: r => fst (delta k e) + incs k r end.
Fixpoint decs (k : key) (lg : list (hop * hres)) : N :=
  match lg with [] => 0 | e :: r => snd (delta k e) + decs k r end.

(* keys handed out by the allocations of a log, in order *)
Fixpoint alloc_keys (lg : list (hop * hres)) : list key :=
  match lg with
  | [] => []
  | (HAlloc _, RKey k) :: r => k :: alloc_keys r
  | _ :: r => alloc_keys r
  end.

(* ---------------------------------------------------------------------- *)
(* The machine: Machine.closures and Machine.heap                           *)
Record mach := mkMach { m_cl : store; m_hp : store }.
Definition mach_new : mach := mkMach sm_new sm_new.

Inductive sid := SH | SC.                       (* which store an event is about *)
Definition sid_eqb (a b : sid) : bool := match a, b with SH, SH | SC, SC => true | _, _ => false end.
Definition get_store (m : mach) (w : sid) : store := match w with SH => m_hp m | SC => m_cl m end.
Definition set_store (m : mach) (w : sid) (s : store) : mach :=
  match w with SH => mkMach (m_cl m) s | SC => mkMach s (m_hp m) end.

(* ---------------------------------------------------------------------- *)
(* Hook H2 events: (kind, key, refcount after); [e_rc = None] is H2_INVALID.
   EAlloc/ERetain/ERelease/EFree/EUse/EProbe/EClose/ERef are the kinds 0..7 of the hook; EMark n (kind 0x20|n)
   marks the entry of an operation and carries its raw argument. *)
Inductive eop := EAlloc | ERetain | ERelease | EFree | EUse | EProbe | EClose | ERef | EMark (n : N).
Record event := mkEv { e_store : sid; e_op : eop; e_key : key; e_rc : option N }.

(* decoding of a logged record (kind, idx, version, rc): kind = 0x20|n operation mark, else store bit 0x10 and
   operation in the low nibble; rc = u64::MAX is H2_INVALID *)
Definition H2_INVALID : N := 18446744073709551615.
Definition event_of_tuple (kind idx ver rc : N) : option event :=
  let rc' := if rc =? H2_INVALID then None else Some rc in
  let key := mkKey idx ver in
  if N.testbit kind 5 then Some (mkEv SH (EMark (N.land kind 15)) key rc')
  else
    let st := if N.testbit kind 4 then SC else SH in
    match N.land kind 15 with
    | 0 => Some (mkEv st EAlloc key rc')
    | 1 => Some (mkEv st ERetain key rc')
    | 2 => Some (mkEv st ERelease key rc')
    | 3 => Some (mkEv st EFree key rc')
    | 4 => Some (mkEv st EUse key rc')
    | 5 => Some (mkEv st EProbe key rc')
    | 6 => Some (mkEv st EClose key rc')
    | 7 => Some (mkEv st ERef key rc')
    | _ => None
    end.

(* what an event does, without the key and the count *)
Definition shape (e : event) : sid * eop := (e_store e, e_op e).

Definition orc_eqb (a : option N) (b : N) : bool := match a with Some x => x =? b | None => false end.

(* slot-map history of a key: [stale s k] = the slot of k exists and has moved on to a later version, i.e. k may
   have been live once and has been removed (versions only grow): a dangling handle. *)
Definition stale {V : Type} (s : smap V) (k : key) : bool :=
  match slot_at s (kidx k) with
  | Some sl => kver k <? sver sl
  | None => false
  end.

(* The discipline checker, one event.  [None] = rejected.
   - alloc: the model's slot map must hand out exactly the logged key, refcount 1;
   - retain / release / use / close: the key must name a present object with refcount >= 1 (release: the object
     stays present with the decremented count, possibly 0, until its free event);
   - free: the object must be present with refcount 0 (so: never freed while referenced, never freed twice);
   - probe: a lookup that is allowed to miss (the VM tries a raw value as a key of this store); hit or miss and
     the count seen must agree with the model, and a miss must not be on a stale key (a handle whose object
     has been freed: the VM would silently treat a dangling closure handle as "not a closure");
   - ref / mark: informational. *)
Definition mstep (m : mach) (e : event) : option mach :=
  let s := get_store m (e_store e) in
  let k := e_key e in
  match e_op e with
  | EAlloc =>
      let (s', k') := st_alloc s [] in
      if key_eqb k k' && orc_eqb (e_rc e) 1 then Some (set_store m (e_store e) s') else None
  | ERetain =>
      match sm_get s k with
      | Some o =>
          if (1 <=? orc o) && orc_eqb (e_rc e) (orc o + 1)
          then Some (set_store m (e_store e) (sm_set s k (mkObj (orc o + 1) (oclosed o) (odata o))))
          else None
      | None => None
      end
  | ERelease =>
      match sm_get s k with
      | Some o =>
          if (1 <=? orc o) && orc_eqb (e_rc e) (orc o - 1)
          then Some (set_store m (e_store e) (sm_set s k (mkObj (orc o - 1) (oclosed o) (odata o))))
          else None
      | None => None
      end
  | EFree =>
      match sm_get s k with
      | Some o => if orc o =? 0 then Some (set_store m (e_store e) (fst (sm_remove s k))) else None
      | None => None
      end
  | EUse =>
      match sm_get s k with
      | Some o => if (1 <=? orc o) && orc_eqb (e_rc e) (orc o) then Some m else None
      | None => None
      end
  | EClose =>
      match sm_get s k with
      | Some o =>
          if (1 <=? orc o) && orc_eqb (e_rc e) (orc o)
          then Some (set_store m (e_store e) (sm_set s k (mkObj (orc o) true (odata o))))
          else None
      | None => None
      end
  | EProbe =>
      match sm_get s k, e_rc e with
      | Some o, Some r => if r =? orc o then Some m else None
      | None, None => if stale s k then None else Some m
      | _, _ => None
      end
  | ERef => Some m
  | EMark _ => Some m
  end.

(* events that dereference their key (everything except alloc, probe and the informational kinds) *)
Definition touches (e : event) : bool :=
  match e_op e with ERetain | ERelease | EFree | EUse | EClose => true | _ => false end.

Fixpoint mrun (m : mach) (tr : list event) : option mach :=
  match tr with
  | [] => Some m
  | e :: r => match mstep m e with Some m' => mrun m' r | None => None end
  end.

(* every present object has a positive count (no object is left at 0 without being freed) *)
Definition slot_settled (sl : slot obj) : bool :=
  match sval sl with Some o => 1 <=? orc o | None => true end.
Definition settled (m : mach) : bool :=
  forallb slot_settled (slots (m_cl m)) && forallb slot_settled (slots (m_hp m)).

(* no live closure wrapper (heap object whose data[0] is a raw ClosureIdx, see allocate_heap_closure) refers to a
   closure that has been freed: such a handle is a use-after-release waiting for its next call *)
Definition wrapper_ok (m : mach) (sl : slot obj) : bool :=
  match sval sl with
  | Some o =>
      match odata o with
      | c :: _ =>
          match sm_get (m_cl m) (key_of_raw c) with
          | Some _ => true
          | None => negb (stale (m_cl m) (key_of_raw c))
          end
      | [] => true
      end
  | None => true
  end.
Definition no_dangling (m : mach) : bool := forallb (wrapper_ok m) (slots (m_hp m)).

(* THE MONITOR: the trace replays on the model from the given state and ends settled *)
Definition balanced_from (m : mach) (tr : list event) : bool :=
  match mrun m tr with Some m' => settled m' | None => false end.
Definition balanced (tr : list event) : bool := balanced_from mach_new tr.

(* index of the first rejected event (for reporting); None = all accepted *)
Fixpoint first_reject (m : mach) (tr : list event) (i : N) : option N :=
  match tr with
  | [] => None
  | e :: r => match mstep m e with Some m' => first_reject m' r (i + 1) | None => Some i end
  end.

(* counts over event traces *)
Definition is_op (w : sid) (o : eop) (e : event) : bool :=
  sid_eqb w (e_store e) &&
  match o, e_op e with
  | EAlloc, EAlloc | ERetain, ERetain | ERelease, ERelease | EFree, EFree => true
  | _, _ => false
  end.
Definition count_op (w : sid) (o : eop) (tr : list event) : N :=
  N.of_nat (length (filter (is_op w o) tr)).
Definition is_op_key (w : sid) (o : eop) (k : key) (e : event) : bool := is_op w o e && key_eqb k (e_key e).
Definition count_key (w : sid) (o : eop) (k : key) (tr : list event) : N :=
  N.of_nat (length (filter (is_op_key w o k) tr)).

(* live objects of a store *)
Definition live (m : mach) (w : sid) (k : key) : bool :=
  match sm_get (get_store m w) k with Some _ => true | None => false end.
Definition live_count (m : mach) (w : sid) : N := sm_len (get_store m w).

(* ---------------------------------------------------------------------- *)
(* Closure layer of vm.rs: each function returns the new machine and the H2 events it emits, in order
   (the hook sits at exactly these places).                                                                *)
Definition ev (w : sid) (o : eop) (k : key) (rc : option N) : event := mkEv w o k rc.
Definition rc_of (s : store) (k : key) : option N :=
  match sm_get s k with Some o => Some (orc o) | None => None end.

(* heap_retain / heap_release with their events *)
Definition heap_retain_ev (m : mach) (k : key) : mach * list event :=
  let (s', r) := heap_retain (m_hp m) k in
  (mkMach (m_cl m) s', [ev SH ERetain k (match r with RCount n => Some n | _ => None end)]).

Definition heap_release_ev (m : mach) (k : key) : mach * list event :=
  let (s', r) := heap_release (m_hp m) k in
  (mkMach (m_cl m) s',
   match r with
   | RCount 0 => [ev SH ERelease k (Some 0); ev SH EFree k (Some 0)]
   | RCount n => [ev SH ERelease k (Some n)]
   | _ => [ev SH ERelease k None]
   end).

(* allocate_closure *)
Definition allocate_closure (m : mach) : mach * key * list event :=
  let (s', k) := st_alloc (m_cl m) [] in
  (mkMach s' (m_hp m), k, [ev SC EAlloc k (Some 1)]).

(* allocate_heap_closure: a closure plus a heap object whose data[0] is the raw ClosureIdx *)
Definition allocate_heap_closure (m : mach) (fn_i : N) : mach * key * list event :=
  let '(m1, c, e1) := allocate_closure m in
  let (h', hk) := st_alloc (m_hp m1) [raw_of_key c] in
  (mkMach (m_cl m1) h', hk, mkEv SH (EMark 5) (mkKey fn_i 0) (Some 0) :: e1 ++ [ev SH EAlloc hk (Some 1)]).

(* try_get_heap_backed_closure: heap.get(raw as HeapIdx).and_then(|o| o.data.first()) *)
Definition try_get_heap_backed_closure (m : mach) (raw : N) : option (key * key) * list event :=
  let hk := key_of_raw raw in
  (match sm_get (m_hp m) hk with
   | Some o => match odata o with c :: _ => Some (hk, key_of_raw c) | [] => None end
   | None => None
   end,
   [ev SH EProbe hk (rc_of (m_hp m) hk)]).

(* try_get_direct_closure *)
Definition try_get_direct_closure (m : mach) (raw : N) : option key * list event :=
  let ck := key_of_raw raw in
  ((if sm_contains (m_cl m) ck then Some ck else None), [ev SC EProbe ck (rc_of (m_cl m) ck)]).

(* the `refs` computation shared by drop_closure and close_upvalues_by_idx:
   raw -> (Some heap_idx, closure_idx) | (None, closure_idx) | dropped *)
Fixpoint resolve_refs (m : mach) (raws : list N) : list (option key * key) * list event :=
  match raws with
  | [] => ([], [])
  | r :: rest =>
      let (hb, e1) := try_get_heap_backed_closure m r in
      let (here, e2) :=
        match hb with
        | Some (hk, ck) => ([(Some hk, ck)], [])
        | None =>
            let (d, e) := try_get_direct_closure m r in
            (match d with Some ck => [(None, ck)] | None => [] end, e)
        end in
      let (more, e3) := resolve_refs m rest in
      (here ++ more, e1 ++ e2 ++ e3)
  end.

Definition ref_events (raws : list N) : list event :=
  map (fun r => mkEv SC ERef (mkKey (N.land r 4294967295) (N.shiftr r 32)) (Some 0)) raws.

(* The raw values of the closure-typed upvalue cells of a closure, as read by the VM at that moment. *)
Definition upvalue_oracle := key -> list N.

Inductive outcome (A : Type) := Ok (a : A) | Panicked (evs : list event) | OutOfFuel.
Arguments Ok {A} a.
Arguments Panicked {A} evs.
Arguments OutOfFuel {A}.

(* the loop `refs.iter().for_each(|(heap_idx, clsi)| { self.drop_closure(clsi); heap_release(heap_idx) })` of
   drop_closure; [rec] is the recursive call *)
Fixpoint drop_refs (rec : mach -> key -> outcome (mach * list event)) (m : mach)
    (refs : list (option key * key)) (acc : list event) : outcome (mach * list event) :=
  match refs with
  | [] => Ok (m, acc)
  | (hk, ck) :: rest =>
      match rec m ck with
      | Ok (m2, e2) =>
          let (m3, e3) :=
            match hk with
            | Some h => heap_release_ev m2 h
            | None => (m2, [])
            end in
          drop_refs rec m3 rest (acc ++ e2 ++ e3)
      | Panicked e2 => Panicked (acc ++ e2)
      | OutOfFuel => OutOfFuel
      end
  end.

(* drop_closure: `closures.get_mut(id).unwrap()` panics on a stale id; refcount -= 1; at 0: if the closure was
   closed (`owns_refs = cls.is_closed`: only closing retains what the shared cells hold) collect the closure-typed
   closed upvalues, drop each referenced closure (and release its heap wrapper); remove. *)
Fixpoint drop_closure (fuel : nat) (up : upvalue_oracle) (m : mach) (id : key) : outcome (mach * list event) :=
  match fuel with
  | O => OutOfFuel
  | S fuel' =>
      let mark := mkEv SH (EMark 0) id (Some 0) in
      match sm_get (m_cl m) id with
      | None => Panicked [mark; ev SC ERelease id None]
      | Some o =>
          if orc o =? 0 then Panicked [mark; ev SC ERelease id None]   (* `refcount -= 1` overflows (debug build) *)
          else
          let rc' := orc o - 1 in
          let m1 := mkMach (sm_set (m_cl m) id (mkObj rc' (oclosed o) (odata o))) (m_hp m) in
          let e0 := [mark; ev SC ERelease id (Some rc')] in
          if rc' =? 0 then
            let raws := if oclosed o then up id else [] in
            let (refs, e1) := resolve_refs m1 raws in
            match drop_refs (drop_closure fuel' up) m1 refs (e0 ++ ref_events raws ++ e1) with
            | Ok (m4, e4) =>
                Ok (mkMach (fst (sm_remove (m_cl m4) id)) (m_hp m4), e4 ++ [ev SC EFree id (Some 0)])
            | other => other
            end
          else Ok (m1, e0)
      end
  end.

(* get_closure / get_closure_mut: the H2 use event (and assertion) *)
Definition use_closure (m : mach) (c : key) : list event := [ev SC EUse c (rc_of (m_cl m) c)].

(* release_heap_closure: `if !closure.is_closed || last_handle { drop_closure }`, then heap_release *)
Definition release_heap_closure (fuel : nat) (up : upvalue_oracle) (m : mach) (hk : key)
  : outcome (mach * list event) :=
  let mark := mkEv SH (EMark 1) hk (Some 0) in
  let maybe_closure :=
    match sm_get (m_hp m) hk with
    | Some o => match odata o with c :: _ => Some (key_of_raw c) | [] => None end
    | None => None
    end in
  (* `last_handle`: the wrapper is about to lose its last reference, so nobody can reach the closure any more *)
  let last_handle :=
    match sm_get (m_hp m) hk with Some o => orc o =? 1 | None => false end in
  let after (m1 : mach) (e1 : list event) :=
    let (m2, e2) := heap_release_ev m1 hk in Ok (m2, mark :: e1 ++ e2) in
  match maybe_closure with
  | Some c =>
      match sm_get (m_cl m) c with
      | None => Panicked (mark :: use_closure m c)         (* get_closure on a stale key *)
      | Some co =>
          if oclosed co && negb last_handle then after m (use_closure m c)
          else
            match drop_closure fuel up m c with
            | Ok (m1, e1) => after m1 (use_closure m c ++ e1)
            | Panicked e1 => Panicked (mark :: use_closure m c ++ e1)
            | OutOfFuel => OutOfFuel
            end
      end
  | None => after m []
  end.

(* release_heap_closures: for each entry of local_heap_closures *)
Fixpoint release_heap_closures (fuel : nat) (up : upvalue_oracle) (m : mach) (hs : list key)
  : outcome (mach * list event) :=
  match hs with
  | [] => Ok (m, [])
  | h :: rest =>
      match release_heap_closure fuel up m h with
      | Ok (m1, e1) =>
          match release_heap_closures fuel up m1 rest with
          | Ok (m2, e2) => Ok (m2, e1 ++ e2)
          | Panicked e2 => Panicked (e1 ++ e2)
          | OutOfFuel => OutOfFuel
          end
      | other => other
      end
  end.

(* release_open_closures: for each entry of local_closures, drop it unless it was closed *)
Fixpoint release_open_closures (fuel : nat) (up : upvalue_oracle) (m : mach) (cs : list key)
  : outcome (mach * list event) :=
  match cs with
  | [] => Ok (m, [])
  | c :: rest =>
      match sm_get (m_cl m) c with
      | None => Panicked (use_closure m c)
      | Some co =>
          let step :=
            if oclosed co then Ok (m, use_closure m c)
            else match drop_closure fuel up m c with
                 | Ok (m1, e1) => Ok (m1, use_closure m c ++ e1)
                 | Panicked e1 => Panicked (use_closure m c ++ e1)
                 | OutOfFuel => OutOfFuel
                 end in
          match step with
          | Ok (m1, e1) =>
              match release_open_closures fuel up m1 rest with
              | Ok (m2, e2) => Ok (m2, e1 ++ e2)
              | Panicked e2 => Panicked (e1 ++ e2)
              | OutOfFuel => OutOfFuel
              end
          | other => other
          end
      end
  end.

(* close_upvalues_by_idx, reference-count part: two get_closure reads, the refs are retained
   (heap wrapper, then the closure through get_closure_mut), then is_closed = true. *)
Fixpoint retain_refs (m : mach) (refs : list (option key * key)) : outcome (mach * list event) :=
  match refs with
  | [] => Ok (m, [])
  | (hk, ck) :: rest =>
      let (m1, e1) := match hk with Some h => heap_retain_ev m h | None => (m, []) end in
      match sm_get (m_cl m1) ck with
      | None => Panicked (e1 ++ use_closure m1 ck)
      | Some co =>
          let m2 := mkMach (sm_set (m_cl m1) ck (mkObj (orc co + 1) (oclosed co) (odata co))) (m_hp m1) in
          match retain_refs m2 rest with
          | Ok (m3, e3) => Ok (m3, e1 ++ use_closure m1 ck ++ [ev SC ERetain ck (Some (orc co + 1))] ++ e3)
          | Panicked e3 => Panicked (e1 ++ use_closure m1 ck ++ [ev SC ERetain ck (Some (orc co + 1))] ++ e3)
          | OutOfFuel => OutOfFuel
          end
      end
  end.

Definition close_upvalues_by_idx (up : upvalue_oracle) (m : mach) (c : key) : outcome (mach * list event) :=
  let mark := mkEv SH (EMark 2) c (Some 0) in
  match sm_get (m_cl m) c with
  | None => Panicked (mark :: use_closure m c)
  | Some _ =>
      let raws := up c in
      let (refs, e1) := resolve_refs m raws in
      match retain_refs m refs with
      | Ok (m1, e2) =>
          match sm_get (m_cl m1) c with
          | None => Panicked (mark :: use_closure m c)
          | Some co =>
              Ok (mkMach (sm_set (m_cl m1) c (mkObj (orc co) true (odata co))) (m_hp m1),
                  mark :: use_closure m c ++ use_closure m c ++ ref_events raws ++ e1 ++ e2
                  ++ use_closure m1 c ++ [ev SC EClose c (Some (orc co))])
          end
      | Panicked e2 => Panicked (mark :: use_closure m c ++ use_closure m c ++ ref_events raws ++ e1 ++ e2)
      | OutOfFuel => OutOfFuel
      end
  end.

(* `if let Some(closure) = self.closures.get_mut(closure_idx.0) { closure.refcount += 1 }` *)
Definition retain_closure (m : mach) (c : key) : mach * list event :=
  match sm_get (m_cl m) c with
  | Some co => (mkMach (sm_set (m_cl m) c (mkObj (orc co + 1) (oclosed co) (odata co))) (m_hp m),
                [ev SC ERetain c (Some (orc co + 1))])
  | None => (m, [])
  end.

(* Instruction::CloneHeap(src) on the raw register value *)
Definition clone_heap (m : mach) (raw : N) : mach * list event :=
  let mark := mkEv SH (EMark 3) (mkKey (N.land raw 4294967295) (N.shiftr raw 32)) (Some 0) in
  let (hb, e1) := try_get_heap_backed_closure m raw in
  match hb with
  | Some (hk, ck) =>
      let (m1, e2) := heap_retain_ev m hk in
      let (m2, e3) := retain_closure m1 ck in
      (m2, mark :: e1 ++ e2 ++ e3)
  | None =>
      let (d, e2) := try_get_direct_closure m raw in
      match d with
      | Some ck => let (m2, e3) := retain_closure m ck in (m2, mark :: e1 ++ e2 ++ e3)
      | None => (m, mark :: e1 ++ e2)
      end
  end.

(* Instruction::CloseHeapClosure(src) *)
Definition close_heap_closure (up : upvalue_oracle) (m : mach) (raw : N) : outcome (mach * list event) :=
  let mark := mkEv SH (EMark 4) (mkKey (N.land raw 4294967295) (N.shiftr raw 32)) (Some 0) in
  let (hb, e1) := try_get_heap_backed_closure m raw in
  match hb with
  | Some (hk, ck) =>
      (* close_heap_upvalues: heap.get(heap_idx) again, then close_upvalues_by_idx *)
      match close_upvalues_by_idx up m ck with
      | Ok (m1, e2) => Ok (m1, mark :: e1 ++ e2)
      | Panicked e2 => Panicked (mark :: e1 ++ e2)
      | OutOfFuel => OutOfFuel
      end
  | None =>
      let (d, e2) := try_get_direct_closure m raw in
      match d with
      | Some ck =>
          match close_upvalues_by_idx up m ck with
          | Ok (m1, e3) => Ok (m1, mark :: e1 ++ e2 ++ e3)
          | Panicked e3 => Panicked (mark :: e1 ++ e2 ++ e3)
          | OutOfFuel => OutOfFuel
          end
      | None => Ok (m, mark :: e1 ++ e2)
      end
  end.

(* Instruction::BoxAlloc / BoxClone / BoxRelease / BoxLoad / BoxStore *)
Definition box_alloc (m : mach) (data : list N) : mach * key * list event :=
  let (h', k) := st_alloc (m_hp m) data in (mkMach (m_cl m) h', k, [ev SH EAlloc k (Some 1)]).
Definition box_clone (m : mach) (raw : N) : mach * list event := heap_retain_ev m (key_of_raw raw).
Definition box_release (m : mach) (raw : N) : mach * list event := heap_release_ev m (key_of_raw raw).
Definition box_load (m : mach) (raw : N) : outcome (list N * list event) :=
  let k := key_of_raw raw in
  match sm_get (m_hp m) k with
  | Some o => Ok (odata o, [ev SH EUse k (Some (orc o))])
  | None => Panicked [ev SH EUse k None]
  end.
Definition box_store (m : mach) (raw : N) (d : list N) : outcome (mach * list event) :=
  let k := key_of_raw raw in
  match sm_get (m_hp m) k with
  | Some o => Ok (mkMach (m_cl m) (sm_set (m_hp m) k (mkObj (orc o) (oclosed o) d)), [ev SH EUse k (Some (orc o))])
  | None => Panicked [ev SH EUse k None]
  end.
