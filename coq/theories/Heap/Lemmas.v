(* Heap/Lemmas.v — reference-count accounting of one store under the heap.rs operations ([hrun]):
   after any sequence of operations an object is present iff its count (allocations + retains - releases that
   took effect) is positive, its refcount equals that count, and no key is handed out twice. *)
From Coq Require Import List NArith Bool Lia Arith.
From Mimium Require Import Heap.Model Heap.SlotMap.
Import ListNotations.
Local Open Scope N_scope.

Definition rc_pos (s : store) : Prop := forall k o, sm_get s k = Some o -> 1 <= orc o.

Lemma NoDup_app_one : forall (A : Type) (l : list A) (x : A), NoDup l -> ~ In x l -> NoDup (l ++ [x]).
Proof.
  induction l as [|y r IH]; intros x Hd Hn; cbn.
  - constructor; [intros []|constructor].
  - inversion Hd; subst. constructor.
    + intros Hin. apply in_app_or in Hin. destruct Hin as [Hin|[<-|[]]]; [contradiction|]. apply Hn; left; reflexivity.
    + apply IH; [assumption|]. intros Hin; apply Hn; right; assumption.
Qed.

Lemma incs_app : forall k a b, incs k (a ++ b) = incs k a + incs k b.
Proof. induction a as [|e r IH]; intros b; cbn [incs app]; [reflexivity|]. rewrite IH; lia. Qed.

Lemma decs_app : forall k a b, decs k (a ++ b) = decs k a + decs k b.
Proof. induction a as [|e r IH]; intros b; cbn [decs app]; [reflexivity|]. rewrite IH; lia. Qed.

Lemma alloc_keys_app : forall a b, alloc_keys (a ++ b) = alloc_keys a ++ alloc_keys b.
Proof.
  induction a as [|[o r] rest IH]; intros b; cbn [alloc_keys app]; [reflexivity|].
  destruct o; try apply IH. destruct r; try apply IH. cbn. rewrite IH; reflexivity.
Qed.

Lemma sm_new_get : forall (V : Type) k, sm_get (@sm_new V) k = None.
Proof.
  intros V k. unfold sm_get. rewrite slot_at_eq. unfold sm_new; cbn [slots].
  destruct (N.to_nat (kidx k)) as [|[|n]]; cbn; [destruct (kver k)|..]; reflexivity.
Qed.

Record HInv (s : store) (lg : list (hop * hres)) : Prop := mkHInv {
  hi_wf : wf s;
  hi_pos : rc_pos s;
  hi_some : forall k o, sm_get s k = Some o -> orc o + decs k lg = incs k lg;
  hi_none : forall k, sm_get s k = None -> decs k lg = incs k lg;
  hi_bound : forall k, In k (alloc_keys lg) -> bound s k;
  hi_nodup : NoDup (alloc_keys lg)
}.

Lemma hinv_new : HInv sm_new [].
Proof.
  constructor; cbn; auto using wf_new.
  - intros k o H; rewrite sm_new_get in H; discriminate.
  - intros k o H; rewrite sm_new_get in H; discriminate.
  - intros k [].
  - constructor.
Qed.

(* an operation that changes neither the store nor the counts *)
Lemma hinv_noop : forall s lg o r,
  HInv s lg -> (forall k, delta k (o, r) = (0, 0)) -> alloc_keys [(o, r)] = [] -> HInv s (lg ++ [(o, r)]).
Proof.
  intros s lg o r [Hwf Hpos Hs Hn Hb Hd] Hdelta Hak.
  constructor; auto.
  - intros k ob Hg. rewrite incs_app, decs_app. cbn [incs decs]. rewrite Hdelta; cbn. rewrite <- (Hs _ _ Hg); lia.
  - intros k Hg. rewrite incs_app, decs_app. cbn [incs decs]. rewrite Hdelta; cbn. rewrite (Hn _ Hg); lia.
  - intros k Hin. rewrite alloc_keys_app, Hak, app_nil_r in Hin. auto.
  - rewrite alloc_keys_app, Hak, app_nil_r. assumption.
Qed.

(* an operation that replaces the object at a present key k0 (same slot) and moves its count by (di, dd) *)
Lemma hinv_set : forall s lg o r k0 ob ob' di dd,
  HInv s lg -> sm_get s k0 = Some ob -> 1 <= orc ob' ->
  delta k0 (o, r) = (di, dd) -> (forall k, k <> k0 -> delta k (o, r) = (0, 0)) -> alloc_keys [(o, r)] = [] ->
  orc ob' + dd = orc ob + di ->
  HInv (sm_set s k0 ob') (lg ++ [(o, r)]).
Proof.
  intros s lg o r k0 ob ob' di dd [Hwf Hpos Hs Hn Hb Hd] Hg Hpos' Hd0 Hdo Hak Hrc.
  constructor.
  - eapply set_wf; eauto.
  - intros k o' Hg'. destruct (key_eqb k k0) eqn:E.
    + apply key_eqb_eq in E; subst. rewrite (set_get_same _ _ _ _ Hg) in Hg'. inversion Hg'; subst; assumption.
    + apply key_eqb_neq in E. rewrite set_get_other in Hg' by assumption. eauto.
  - intros k o' Hg'. rewrite incs_app, decs_app. cbn [incs decs]. destruct (key_eqb k k0) eqn:E.
    + apply key_eqb_eq in E; subst. rewrite (set_get_same _ _ _ _ Hg) in Hg'. inversion Hg'; subst.
      rewrite Hd0; cbn [fst snd]. pose proof (Hs _ _ Hg). lia.
    + apply key_eqb_neq in E. rewrite set_get_other in Hg' by assumption.
      rewrite (Hdo _ E); cbn [fst snd]. pose proof (Hs _ _ Hg'). lia.
  - intros k Hg'. rewrite incs_app, decs_app. cbn [incs decs]. destruct (key_eqb k k0) eqn:E.
    + apply key_eqb_eq in E; subst. rewrite (set_get_same _ _ _ _ Hg) in Hg'. discriminate.
    + apply key_eqb_neq in E. rewrite set_get_other in Hg' by assumption.
      rewrite (Hdo _ E); cbn [fst snd]. pose proof (Hn _ Hg'). lia.
  - intros k Hin. rewrite alloc_keys_app, Hak, app_nil_r in Hin. apply set_bound_mono; auto.
  - rewrite alloc_keys_app, Hak, app_nil_r. assumption.
Qed.

Lemma delta_other_retain : forall k k0 n, k <> k0 -> delta k (HRetain k0, RCount n) = (0, 0).
Proof. intros k k0 n H; cbn. apply key_eqb_neq in H. rewrite H; reflexivity. Qed.
Lemma delta_other_release : forall k k0 n, k <> k0 -> delta k (HRelease k0, RCount n) = (0, 0).
Proof. intros k k0 n H; cbn. apply key_eqb_neq in H. rewrite H; reflexivity. Qed.

Lemma hstep_inv : forall s lg o s' r, HInv s lg -> hstep s o = (s', r) -> HInv s' (lg ++ [(o, r)]).
Proof.
  intros s lg o s' r HI Hstep. destruct o as [d|k|k|k|k d]; cbn [hstep] in Hstep.
  - (* alloc *)
    unfold st_alloc in Hstep. destruct (sm_insert s (mkObj 1 false d)) as [s1 k0] eqn:Hins.
    inversion Hstep; subst s' r; clear Hstep.
    destruct HI as [Hwf Hpos Hs Hn Hb Hd].
    assert (Hs1 : s1 = fst (sm_insert s (mkObj 1 false d))) by (rewrite Hins; reflexivity).
    assert (Hk0 : k0 = snd (sm_insert s (mkObj 1 false d))) by (rewrite Hins; reflexivity).
    assert (Hfresh : sm_get s k0 = None) by (rewrite Hk0; apply insert_fresh; assumption).
    assert (Hsame : sm_get s1 k0 = Some (mkObj 1 false d)) by (rewrite Hs1, Hk0; apply insert_get_same; assumption).
    assert (Hother : forall k, k <> k0 -> sm_get s1 k = sm_get s k)
      by (intros k Hk; rewrite Hs1; apply insert_get_other; [assumption|rewrite <- Hk0; assumption]).
    constructor.
    + rewrite Hs1; apply insert_wf; assumption.
    + intros k o Hg. destruct (key_eqb k k0) eqn:E.
      * apply key_eqb_eq in E; subst k. rewrite Hsame in Hg; inversion Hg; cbn; lia.
      * apply key_eqb_neq in E. rewrite Hother in Hg by assumption. eauto.
    + intros k o Hg. rewrite incs_app, decs_app. cbn [incs decs delta]. destruct (key_eqb k k0) eqn:E.
      * apply key_eqb_eq in E; subst k. rewrite Hsame in Hg; inversion Hg; subst o; cbn [orc fst snd].
        rewrite (Hn _ Hfresh); lia.
      * cbn [fst snd]. apply key_eqb_neq in E. rewrite Hother in Hg by assumption. pose proof (Hs _ _ Hg); lia.
    + intros k Hg. rewrite incs_app, decs_app. cbn [incs decs delta]. destruct (key_eqb k k0) eqn:E.
      * apply key_eqb_eq in E; subst k. congruence.
      * cbn [fst snd]. apply key_eqb_neq in E. rewrite Hother in Hg by assumption. pose proof (Hn _ Hg); lia.
    + intros k Hin. rewrite alloc_keys_app in Hin. cbn in Hin. apply in_app_or in Hin. destruct Hin as [Hin|[<-|[]]].
      * rewrite Hs1. apply insert_bound_mono; auto.
      * rewrite Hs1, Hk0. apply insert_new_bound.
    + rewrite alloc_keys_app. cbn. apply NoDup_app_one; [assumption|].
      intros Hin. apply Hb in Hin. rewrite Hk0 in Hin. eapply insert_new_unbound; eauto.
  - (* retain *)
    unfold heap_retain in Hstep. destruct (sm_get s k) as [ob|] eqn:Hg; inversion Hstep; subst s' r; clear Hstep.
    + eapply hinv_set with (di := 1) (dd := 0); eauto; cbn [orc]; try lia.
      * cbn. rewrite key_eqb_refl; reflexivity.
      * intros; apply delta_other_retain; assumption.
    + apply hinv_noop; auto.
  - (* release *)
    unfold heap_release in Hstep. destruct (sm_get s k) as [ob|] eqn:Hg.
    + pose proof (hi_pos _ _ HI _ _ Hg) as Hpos.
      destruct (orc ob - 1 =? 0) eqn:Ez; inversion Hstep; subst s' r; clear Hstep.
      * (* freed *)
        apply N.eqb_eq in Ez. assert (Hone : orc ob = 1) by lia.
        destruct HI as [Hwf Hp Hs Hn Hb Hd].
        set (s1 := sm_set s k (mkObj (orc ob - 1) (oclosed ob) (odata ob))).
        assert (Hg1 : sm_get s1 k = Some (mkObj (orc ob - 1) (oclosed ob) (odata ob)))
          by (eapply set_get_same; eauto).
        assert (Hwf1 : wf s1) by (eapply set_wf; eauto).
        assert (Hother : forall k', k' <> k -> sm_get (fst (sm_remove s1 k)) k' = sm_get s k').
        { intros k' Hk'. rewrite (remove_get_other _ _ _ _ Hg1 Hk'). apply set_get_other; assumption. }
        assert (Hgone : sm_get (fst (sm_remove s1 k)) k = None) by (eapply remove_get_same; eauto).
        constructor.
        -- eapply remove_wf; eauto.
        -- intros k' o Hg'. destruct (key_eqb k' k) eqn:E.
           ++ apply key_eqb_eq in E; subst k'. congruence.
           ++ apply key_eqb_neq in E. rewrite Hother in Hg' by assumption. eauto.
        -- intros k' o Hg'. rewrite incs_app, decs_app. cbn [incs decs]. destruct (key_eqb k' k) eqn:E.
           ++ apply key_eqb_eq in E; subst k'. congruence.
           ++ apply key_eqb_neq in E. rewrite Hother in Hg' by assumption.
              rewrite delta_other_release by assumption. cbn. pose proof (Hs _ _ Hg'); lia.
        -- intros k' Hg'. rewrite incs_app, decs_app. cbn [incs decs]. destruct (key_eqb k' k) eqn:E.
           ++ apply key_eqb_eq in E; subst k'. cbn. rewrite key_eqb_refl; cbn. pose proof (Hs _ _ Hg); lia.
           ++ apply key_eqb_neq in E. rewrite Hother in Hg' by assumption.
              rewrite delta_other_release by assumption. cbn. pose proof (Hn _ Hg'); lia.
        -- intros k' Hin. rewrite alloc_keys_app in Hin; cbn in Hin; rewrite app_nil_r in Hin.
           apply remove_bound_mono. apply set_bound_mono. auto.
        -- rewrite alloc_keys_app; cbn; rewrite app_nil_r; assumption.
      * apply N.eqb_neq in Ez.
        eapply hinv_set with (di := 0) (dd := 1); eauto; cbn [orc]; try lia.
        -- cbn. rewrite key_eqb_refl; reflexivity.
        -- intros; apply delta_other_release; assumption.
    + inversion Hstep; subst. apply hinv_noop; auto.
  - (* load *)
    destruct (sm_get s k) as [ob|]; inversion Hstep; subst; apply hinv_noop; auto.
  - (* store *)
    destruct (sm_get s k) as [ob|] eqn:Hg; inversion Hstep; subst.
    + eapply hinv_set with (di := 0) (dd := 0); eauto; cbn [orc]; try lia.
      exact (hi_pos _ _ HI _ _ Hg).
    + apply hinv_noop; auto.
Qed.

Lemma hrun_inv : forall ops s lg0 s' lg, HInv s lg0 -> hrun s ops = (s', lg) -> HInv s' (lg0 ++ lg).
Proof.
  induction ops as [|o r IH]; intros s lg0 s' lg HI Hrun; cbn [hrun] in Hrun.
  - inversion Hrun; subst. rewrite app_nil_r; assumption.
  - destruct (hstep s o) as [s1 res] eqn:Hst. destruct (hrun s1 r) as [s2 lg2] eqn:Hr.
    inversion Hrun; subst. pose proof (hstep_inv _ _ _ _ _ HI Hst) as HI1.
    specialize (IH _ _ _ _ HI1 Hr). rewrite <- app_assoc in IH. exact IH.
Qed.

(* C12_heap_inv *)
Theorem heap_inv : forall (ops : list hop) (s : store) (lg : list (hop * hres)),
  hrun sm_new ops = (s, lg) ->
  (forall k, (exists o, sm_get s k = Some o) <-> decs k lg < incs k lg)
  /\ (forall k o, sm_get s k = Some o -> orc o = incs k lg - decs k lg)
  /\ (forall k, decs k lg <= incs k lg)
  /\ NoDup (alloc_keys lg).
Proof.
  intros ops s lg Hrun. pose proof (hrun_inv _ _ _ _ _ hinv_new Hrun) as HI. cbn [app] in HI.
  destruct HI as [Hwf Hpos Hs Hn Hb Hd]. repeat split.
  - intros [o Hg]. pose proof (Hs _ _ Hg). pose proof (Hpos _ _ Hg). lia.
  - intros Hlt. destruct (sm_get s k) as [o|] eqn:Hg; [eauto|]. pose proof (Hn _ Hg). lia.
  - intros k o Hg. pose proof (Hs _ _ Hg). lia.
  - intros k. destruct (sm_get s k) as [o|] eqn:Hg; [pose proof (Hs _ _ Hg)|pose proof (Hn _ Hg)]; lia.
  - assumption.
Qed.
