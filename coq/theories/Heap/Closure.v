(* Heap/Closure.v — the closure layer of vm.rs (Heap/Model.v: drop_closure, release_heap_closure(s),
   release_open_closures, close_upvalues_by_idx, CloneHeap, CloseHeapClosure, Box instructions) and the monitor
   agree: whenever an operation completes and the monitor accepts the events it emitted, the monitor's state is
   exactly the state the operation produced.  So everything proved about accepted traces (Heap/Monitor.v) holds for
   the states these operations build. *)
From Coq Require Import List NArith Bool Lia Arith.
From Mimium Require Import Heap.Model Heap.SlotMap Heap.Lemmas Heap.Monitor.
Import ListNotations.
Local Open Scope N_scope.

(* [T m evs m']: if the monitor accepts evs from m, it ends in m' *)
Definition T (m : mach) (evs : list event) (m' : mach) : Prop :=
  forall m'', mrun m evs = Some m'' -> m'' = m'.

Definition tracks (m : mach) (r : outcome (mach * list event)) : Prop :=
  match r with Ok (m', evs) => T m evs m' | _ => True end.

Definition passive (e : event) : Prop :=
  match e_op e with EUse | EProbe | ERef | EMark _ => True | _ => False end.

Lemma T_nil : forall m, T m [] m.
Proof. intros m m'' H; cbn in H; inversion H; reflexivity. Qed.

Lemma T_app : forall m e1 m1 e2 m2, T m e1 m1 -> T m1 e2 m2 -> T m (e1 ++ e2) m2.
Proof.
  intros m e1 m1 e2 m2 H1 H2 m'' Hrun. rewrite mrun_app in Hrun.
  destruct (mrun m e1) as [x|] eqn:E; [|discriminate]. rewrite (H1 _ E) in Hrun. auto.
Qed.

Lemma mstep_passive : forall m e m', passive e -> mstep m e = Some m' -> m' = m.
Proof.
  intros m [st op k rc] m' Hp Hs. unfold passive in Hp. unfold mstep in Hs. cbn [e_store e_op e_key e_rc] in *.
  destruct op; try contradiction.
  - destruct (sm_get (get_store m st) k); [|discriminate].
    destruct ((1 <=? orc o) && orc_eqb rc (orc o)); inversion Hs; reflexivity.
  - destruct (sm_get (get_store m st) k); destruct rc; try discriminate.
    + destruct (n =? orc o); inversion Hs; reflexivity.
    + destruct (stale (get_store m st) k); inversion Hs; reflexivity.
  - inversion Hs; reflexivity.
  - inversion Hs; reflexivity.
Qed.

Lemma T_passive : forall evs m, Forall passive evs -> T m evs m.
Proof.
  induction evs as [|e r IH]; intros m Hf m'' Hrun; cbn [mrun] in Hrun.
  - inversion Hrun; reflexivity.
  - inversion Hf; subst. destruct (mstep m e) as [x|] eqn:E; [|discriminate].
    rewrite (mstep_passive _ _ _ H1 E) in Hrun. eapply IH; eauto.
Qed.

Lemma T_cons_passive : forall e evs m m', passive e -> T m evs m' -> T m (e :: evs) m'.
Proof.
  intros e evs m m' Hp HT. change (e :: evs) with ([e] ++ evs). eapply T_app; [|exact HT].
  apply T_passive. constructor; [assumption|constructor].
Qed.

Lemma T_one : forall m e m', (forall x, mstep m e = Some x -> x = m') -> T m [e] m'.
Proof.
  intros m e m' H m'' Hrun. cbn [mrun] in Hrun. destruct (mstep m e) as [x|] eqn:E; [|discriminate].
  inversion Hrun; subst. auto.
Qed.

Lemma Forall_app_intro : forall (A : Type) (P : A -> Prop) a b, Forall P a -> Forall P b -> Forall P (a ++ b).
Proof. intros; apply Forall_app; split; assumption. Qed.

(* ---- primitive pieces ---- *)
Lemma T_heap_retain_ev : forall m k m' evs, heap_retain_ev m k = (m', evs) -> T m evs m'.
Proof.
  intros m k m' evs H. unfold heap_retain_ev, heap_retain in H.
  destruct (sm_get (m_hp m) k) as [o|] eqn:Hg; inversion H; subst; clear H; apply T_one; intros x Hx;
    unfold mstep in Hx; cbn [e_store e_op e_key e_rc ev get_store] in Hx; rewrite Hg in Hx; [|discriminate].
  destruct ((1 <=? orc o) && orc_eqb (Some (orc o + 1)) (orc o + 1)); inversion Hx; reflexivity.
Qed.

Lemma T_heap_release_ev : forall m k m' evs, heap_release_ev m k = (m', evs) -> T m evs m'.
Proof.
  intros m k m' evs H. unfold heap_release_ev, heap_release in H.
  destruct (sm_get (m_hp m) k) as [o|] eqn:Hg.
  - destruct (orc o - 1 =? 0) eqn:Ez; inversion H; subst; clear H.
    + (* release to 0, then free *)
      change [ev SH ERelease k (Some 0); ev SH EFree k (Some 0)]
        with ([ev SH ERelease k (Some 0)] ++ [ev SH EFree k (Some 0)]).
      eapply T_app with (m1 := mkMach (m_cl m) (sm_set (m_hp m) k (mkObj (orc o - 1) (oclosed o) (odata o)))).
      * apply T_one; intros x Hx. unfold mstep in Hx. cbn [e_store e_op e_key e_rc ev get_store] in Hx.
        rewrite Hg in Hx. destruct ((1 <=? orc o) && orc_eqb (Some 0) (orc o - 1)); inversion Hx; reflexivity.
      * apply T_one; intros x Hx. unfold mstep in Hx. cbn [e_store e_op e_key e_rc ev get_store m_hp] in Hx.
        rewrite (set_get_same _ _ _ _ Hg) in Hx. cbn [orc] in Hx. rewrite Ez in Hx. inversion Hx; reflexivity.
    + assert (Hev : match orc o - 1 with 0 => [ev SH ERelease k (Some 0); ev SH EFree k (Some 0)]
                                  | N.pos _ => [ev SH ERelease k (Some (orc o - 1))] end
                    = [ev SH ERelease k (Some (orc o - 1))]).
      { destruct (orc o - 1) eqn:E; [discriminate|reflexivity]. }
      rewrite Hev. apply T_one; intros x Hx. unfold mstep in Hx. cbn [e_store e_op e_key e_rc ev get_store] in Hx.
      rewrite Hg in Hx. destruct ((1 <=? orc o) && orc_eqb (Some (orc o - 1)) (orc o - 1)); inversion Hx; reflexivity.
  - inversion H; subst. apply T_one; intros x Hx. unfold mstep in Hx.
    cbn [e_store e_op e_key e_rc ev get_store] in Hx. rewrite Hg in Hx. discriminate.
Qed.

Lemma use_closure_passive : forall m c, Forall passive (use_closure m c).
Proof. intros; unfold use_closure; constructor; [exact I|constructor]. Qed.

Lemma ref_events_passive : forall raws, Forall passive (ref_events raws).
Proof. induction raws; cbn; constructor; [exact I|assumption]. Qed.

Lemma resolve_refs_passive : forall raws m, Forall passive (snd (resolve_refs m raws)).
Proof.
  induction raws as [|r rest IH]; intros m; cbn [resolve_refs snd]; [constructor|].
  unfold try_get_heap_backed_closure, try_get_direct_closure.
  specialize (IH m). destruct (resolve_refs m rest) as [more e3]. cbn [snd] in *.
  destruct (sm_get (m_hp m) (key_of_raw r)) as [o|]; [destruct (odata o)|]; cbn [snd];
    repeat (apply Forall_app_intro || (constructor; [exact I|]) || constructor || assumption).
Qed.

(* the closure refcount update shared by several operations *)
Lemma T_closure_set : forall m c o op rc ob',
  sm_get (m_cl m) c = Some o ->
  (forall x, mstep m (ev SC op c rc) = Some x -> x = mkMach (sm_set (m_cl m) c ob') (m_hp m)) ->
  T m [ev SC op c rc] (mkMach (sm_set (m_cl m) c ob') (m_hp m)).
Proof. intros; apply T_one; assumption. Qed.

(* ---- drop_closure ---- *)
Lemma T_drop_refs : forall (rec : mach -> key -> outcome (mach * list event)),
  (forall m k, tracks m (rec m k)) ->
  forall refs m acc m0 m' evs, T m0 acc m -> drop_refs rec m refs acc = Ok (m', evs) -> T m0 evs m'.
Proof.
  intros rec Hrec. induction refs as [|[hk ck] rest IH]; intros m acc m0 m' evs Hacc H; cbn [drop_refs] in H.
  - inversion H; subst; assumption.
  - pose proof (Hrec m ck) as Hr. destruct (rec m ck) as [[m2 e2]| |]; try discriminate. cbn [tracks] in Hr.
    destruct hk as [h|].
    + destruct (heap_release_ev m2 h) as [m3 e3] eqn:Hh.
      eapply IH; [|exact H]. eapply T_app; [exact Hacc|]. eapply T_app; [exact Hr|]. eapply T_heap_release_ev; eauto.
    + eapply IH; [|exact H]. eapply T_app; [exact Hacc|]. rewrite app_nil_r. exact Hr.
Qed.

Lemma tracks_drop_closure : forall fuel up m id, tracks m (drop_closure fuel up m id).
Proof.
  induction fuel as [|fuel IH]; intros up m id; cbn [drop_closure]; [exact I|].
  destruct (sm_get (m_cl m) id) as [o|] eqn:Hg; [|exact I].
  destruct (orc o =? 0) eqn:Ez0; [exact I|].
  set (m1 := mkMach (sm_set (m_cl m) id (mkObj (orc o - 1) (oclosed o) (odata o))) (m_hp m)).
  assert (He0 : T m [mkEv SH (EMark 0) id (Some 0); ev SC ERelease id (Some (orc o - 1))] m1).
  { apply T_cons_passive; [exact I|]. apply T_one; intros x Hx. unfold mstep in Hx.
    cbn [e_store e_op e_key e_rc ev get_store] in Hx. rewrite Hg in Hx.
    destruct ((1 <=? orc o) && orc_eqb (Some (orc o - 1)) (orc o - 1)); inversion Hx; reflexivity. }
  destruct (orc o - 1 =? 0) eqn:Ez; [|exact He0].
  set (raws := if oclosed o then up id else []).
  pose proof (resolve_refs_passive raws m1) as Hp.
  destruct (resolve_refs m1 raws) as [refs e1]. cbn [snd] in Hp.
  destruct (drop_refs (drop_closure fuel up) m1 refs
              ([mkEv SH (EMark 0) id (Some 0); ev SC ERelease id (Some (orc o - 1))] ++ ref_events raws ++ e1))
    as [[m4 e4]| |] eqn:Hd; cbn [tracks]; try exact I.
  eapply T_app.
  - eapply T_drop_refs; [intros; apply IH| |exact Hd].
    eapply T_app; [exact He0|]. apply T_passive. apply Forall_app_intro; [apply ref_events_passive|assumption].
  - apply T_one; intros x Hx. unfold mstep in Hx. cbn [e_store e_op e_key e_rc ev get_store] in Hx.
    destruct (sm_get (m_cl m4) id) as [o'|]; [|discriminate].
    destruct (orc o' =? 0); inversion Hx; reflexivity.
Qed.

(* ---- release_heap_closure(s), release_open_closures ---- *)
Lemma tracks_release_heap_closure : forall fuel up m hk, tracks m (release_heap_closure fuel up m hk).
Proof.
  intros fuel up m hk. unfold release_heap_closure.
  set (mc := match sm_get (m_hp m) hk with
             | Some o => match odata o with c :: _ => Some (key_of_raw c) | [] => None end
             | None => None end).
  assert (Hafter : forall m1 e1, T m e1 m1 ->
            tracks m (let (m2, e2) := heap_release_ev m1 hk in
                      Ok (m2, mkEv SH (EMark 1) hk (Some 0) :: e1 ++ e2))).
  { intros m1 e1 H1. destruct (heap_release_ev m1 hk) as [m2 e2] eqn:Hh. cbn [tracks].
    apply T_cons_passive; [exact I|]. eapply T_app; [exact H1|]. eapply T_heap_release_ev; eauto. }
  destruct mc as [c|].
  - destruct (sm_get (m_cl m) c) as [co|] eqn:Hc; [|exact I].
    destruct (oclosed co && negb match sm_get (m_hp m) hk with Some o => orc o =? 1 | None => false end).
    + apply Hafter. apply T_passive. apply use_closure_passive.
    + pose proof (tracks_drop_closure fuel up m c) as Hd.
      destruct (drop_closure fuel up m c) as [[m1 e1]| |]; try exact I. cbn [tracks] in Hd.
      apply Hafter. eapply T_app; [|exact Hd]. apply T_passive. apply use_closure_passive.
  - apply Hafter. apply T_nil.
Qed.

Lemma tracks_release_heap_closures : forall fuel up hs m, tracks m (release_heap_closures fuel up m hs).
Proof.
  intros fuel up. induction hs as [|h rest IH]; intros m; cbn [release_heap_closures]; [apply T_nil|].
  pose proof (tracks_release_heap_closure fuel up m h) as H1.
  destruct (release_heap_closure fuel up m h) as [[m1 e1]| |]; try exact I. cbn [tracks] in H1.
  specialize (IH m1). destruct (release_heap_closures fuel up m1 rest) as [[m2 e2]| |]; try exact I.
  cbn [tracks] in *. eapply T_app; eauto.
Qed.

Lemma tracks_release_open_closures : forall fuel up cs m, tracks m (release_open_closures fuel up m cs).
Proof.
  intros fuel up. induction cs as [|c rest IH]; intros m; cbn [release_open_closures]; [apply T_nil|].
  destruct (sm_get (m_cl m) c) as [co|] eqn:Hc; [|exact I].
  assert (Hstep : tracks m (if oclosed co then Ok (m, use_closure m c)
                            else match drop_closure fuel up m c with
                                 | Ok (m1, e1) => Ok (m1, use_closure m c ++ e1)
                                 | Panicked e1 => Panicked (use_closure m c ++ e1)
                                 | OutOfFuel => OutOfFuel
                                 end)).
  { destruct (oclosed co); [apply T_passive; apply use_closure_passive|].
    pose proof (tracks_drop_closure fuel up m c) as Hd.
    destruct (drop_closure fuel up m c) as [[m1 e1]| |]; try exact I. cbn [tracks] in *.
    eapply T_app; [|exact Hd]. apply T_passive. apply use_closure_passive. }
  destruct (if oclosed co then Ok (m, use_closure m c)
            else match drop_closure fuel up m c with
                 | Ok (m1, e1) => Ok (m1, use_closure m c ++ e1)
                 | Panicked e1 => Panicked (use_closure m c ++ e1)
                 | OutOfFuel => OutOfFuel
                 end) as [[m1 e1]| |]; try exact I.
  cbn [tracks] in Hstep. specialize (IH m1).
  destruct (release_open_closures fuel up m1 rest) as [[m2 e2]| |]; try exact I.
  cbn [tracks] in *. eapply T_app; eauto.
Qed.

(* ---- close_upvalues_by_idx, CloseHeapClosure, CloneHeap ---- *)
Lemma tracks_retain_refs : forall refs m, tracks m (retain_refs m refs).
Proof.
  induction refs as [|[hk ck] rest IH]; intros m; cbn [retain_refs]; [apply T_nil|].
  assert (H1 : forall m1 e1, (match hk with Some h => heap_retain_ev m h | None => (m, []) end) = (m1, e1) -> T m e1 m1).
  { intros m1 e1 H. destruct hk as [h|]; [eapply T_heap_retain_ev; eauto|inversion H; subst; apply T_nil]. }
  destruct (match hk with Some h => heap_retain_ev m h | None => (m, []) end) as [m1 e1] eqn:Hh.
  specialize (H1 _ _ eq_refl).
  destruct (sm_get (m_cl m1) ck) as [co|] eqn:Hc; [|exact I].
  set (m2 := mkMach (sm_set (m_cl m1) ck (mkObj (orc co + 1) (oclosed co) (odata co))) (m_hp m1)).
  specialize (IH m2). destruct (retain_refs m2 rest) as [[m3 e3]| |]; try exact I. cbn [tracks] in *.
  eapply T_app; [exact H1|]. eapply T_app; [apply T_passive; apply use_closure_passive|].
  eapply T_app with (m1 := m2); [|exact IH].
  apply T_one; intros x Hx. unfold mstep in Hx. cbn [e_store e_op e_key e_rc ev get_store] in Hx.
  rewrite Hc in Hx. destruct ((1 <=? orc co) && orc_eqb (Some (orc co + 1)) (orc co + 1)); inversion Hx; reflexivity.
Qed.

Lemma tracks_close_upvalues_by_idx : forall up m c, tracks m (close_upvalues_by_idx up m c).
Proof.
  intros up m c. unfold close_upvalues_by_idx.
  destruct (sm_get (m_cl m) c) as [o0|] eqn:Hc0; [|exact I].
  pose proof (resolve_refs_passive (up c) m) as Hp.
  destruct (resolve_refs m (up c)) as [refs e1]. cbn [snd] in Hp.
  pose proof (tracks_retain_refs refs m) as Hr.
  destruct (retain_refs m refs) as [[m1 e2]| |]; try exact I. cbn [tracks] in Hr.
  destruct (sm_get (m_cl m1) c) as [co|] eqn:Hc; [|exact I]. cbn [tracks].
  apply T_cons_passive; [exact I|].
  eapply T_app; [apply T_passive; apply use_closure_passive|].
  eapply T_app; [apply T_passive; apply use_closure_passive|].
  eapply T_app; [apply T_passive; apply ref_events_passive|].
  eapply T_app; [apply T_passive; exact Hp|].
  eapply T_app; [exact Hr|].
  eapply T_app; [apply T_passive; apply use_closure_passive|].
  apply T_one; intros x Hx. unfold mstep in Hx. cbn [e_store e_op e_key e_rc ev get_store] in Hx.
  rewrite Hc in Hx. destruct ((1 <=? orc co) && orc_eqb (Some (orc co)) (orc co)); inversion Hx; reflexivity.
Qed.

Lemma probe_hb_passive : forall m raw, Forall passive (snd (try_get_heap_backed_closure m raw)).
Proof. intros; unfold try_get_heap_backed_closure; cbn [snd]. constructor; [exact I|constructor]. Qed.

Lemma probe_direct_passive : forall m raw, Forall passive (snd (try_get_direct_closure m raw)).
Proof. intros; unfold try_get_direct_closure; cbn [snd]. constructor; [exact I|constructor]. Qed.

Lemma tracks_close_heap_closure : forall up m raw, tracks m (close_heap_closure up m raw).
Proof.
  intros up m raw. unfold close_heap_closure.
  pose proof (probe_hb_passive m raw) as Hp1.
  destruct (try_get_heap_backed_closure m raw) as [hb e1]. cbn [snd] in Hp1.
  destruct hb as [[hk ck]|].
  - pose proof (tracks_close_upvalues_by_idx up m ck) as Hc.
    destruct (close_upvalues_by_idx up m ck) as [[m1 e2]| |]; try exact I. cbn [tracks] in *.
    apply T_cons_passive; [exact I|]. eapply T_app; [apply T_passive; exact Hp1|exact Hc].
  - pose proof (probe_direct_passive m raw) as Hp2.
    destruct (try_get_direct_closure m raw) as [d e2]. cbn [snd] in Hp2.
    destruct d as [ck|].
    + pose proof (tracks_close_upvalues_by_idx up m ck) as Hc.
      destruct (close_upvalues_by_idx up m ck) as [[m1 e3]| |]; try exact I. cbn [tracks] in *.
      apply T_cons_passive; [exact I|]. eapply T_app; [apply T_passive; exact Hp1|].
      eapply T_app; [apply T_passive; exact Hp2|exact Hc].
    + cbn [tracks]. apply T_cons_passive; [exact I|]. apply T_passive. apply Forall_app_intro; assumption.
Qed.

Lemma T_retain_closure : forall m c m' evs, retain_closure m c = (m', evs) -> T m evs m'.
Proof.
  intros m c m' evs H. unfold retain_closure in H.
  destruct (sm_get (m_cl m) c) as [co|] eqn:Hc; inversion H; subst; clear H; [|apply T_nil].
  apply T_one; intros x Hx. unfold mstep in Hx. cbn [e_store e_op e_key e_rc ev get_store] in Hx.
  rewrite Hc in Hx. destruct ((1 <=? orc co) && orc_eqb (Some (orc co + 1)) (orc co + 1)); inversion Hx; reflexivity.
Qed.

Lemma T_clone_heap : forall m raw m' evs, clone_heap m raw = (m', evs) -> T m evs m'.
Proof.
  intros m raw m' evs H. unfold clone_heap in H.
  pose proof (probe_hb_passive m raw) as Hp1.
  destruct (try_get_heap_backed_closure m raw) as [hb e1]. cbn [snd] in Hp1.
  destruct hb as [[hk ck]|].
  - destruct (heap_retain_ev m hk) as [m1 e2] eqn:Hh.
    destruct (retain_closure m1 ck) as [m2 e3] eqn:Hrc.
    pose proof (f_equal fst H) as Hm; pose proof (f_equal snd H) as He; cbn [fst snd] in Hm, He; subst m' evs; clear H.
    apply T_cons_passive; [exact I|]. eapply T_app; [apply T_passive; exact Hp1|].
    eapply T_app; [eapply T_heap_retain_ev; eauto|eapply T_retain_closure; eauto].
  - pose proof (probe_direct_passive m raw) as Hp2.
    destruct (try_get_direct_closure m raw) as [d e2]. cbn [snd] in Hp2.
    destruct d as [ck|].
    + destruct (retain_closure m ck) as [m2 e3] eqn:Hrc.
      pose proof (f_equal fst H) as Hm; pose proof (f_equal snd H) as He; cbn [fst snd] in Hm, He; subst m' evs; clear H.
      apply T_cons_passive; [exact I|]. eapply T_app; [apply T_passive; exact Hp1|].
      eapply T_app; [apply T_passive; exact Hp2|eapply T_retain_closure; eauto].
    + pose proof (f_equal fst H) as Hm; pose proof (f_equal snd H) as He; cbn [fst snd] in Hm, He; subst m' evs; clear H.
      apply T_cons_passive; [exact I|]. apply T_passive. apply Forall_app_intro; assumption.
Qed.

(* ---- C12_closure_ops_replay ---- *)
Theorem closure_ops_replay :
  forall (fuel : nat) (up : upvalue_oracle) (m : mach),
  (forall id m' evs m'', drop_closure fuel up m id = Ok (m', evs) -> mrun m evs = Some m'' -> m'' = m')
  /\ (forall hk m' evs m'', release_heap_closure fuel up m hk = Ok (m', evs) -> mrun m evs = Some m'' -> m'' = m')
  /\ (forall hs m' evs m'', release_heap_closures fuel up m hs = Ok (m', evs) -> mrun m evs = Some m'' -> m'' = m')
  /\ (forall cs m' evs m'', release_open_closures fuel up m cs = Ok (m', evs) -> mrun m evs = Some m'' -> m'' = m')
  /\ (forall c m' evs m'', close_upvalues_by_idx up m c = Ok (m', evs) -> mrun m evs = Some m'' -> m'' = m')
  /\ (forall raw m' evs m'', close_heap_closure up m raw = Ok (m', evs) -> mrun m evs = Some m'' -> m'' = m')
  /\ (forall raw m' evs m'', clone_heap m raw = (m', evs) -> mrun m evs = Some m'' -> m'' = m')
  /\ (forall raw m' evs m'', box_clone m raw = (m', evs) -> mrun m evs = Some m'' -> m'' = m')
  /\ (forall raw m' evs m'', box_release m raw = (m', evs) -> mrun m evs = Some m'' -> m'' = m').
Proof.
  intros fuel up m. repeat split.
  - intros id m' evs m'' H. pose proof (tracks_drop_closure fuel up m id) as Ht. rewrite H in Ht. apply Ht.
  - intros hk m' evs m'' H. pose proof (tracks_release_heap_closure fuel up m hk) as Ht. rewrite H in Ht. apply Ht.
  - intros hs m' evs m'' H. pose proof (tracks_release_heap_closures fuel up hs m) as Ht. rewrite H in Ht. apply Ht.
  - intros cs m' evs m'' H. pose proof (tracks_release_open_closures fuel up cs m) as Ht. rewrite H in Ht. apply Ht.
  - intros c m' evs m'' H. pose proof (tracks_close_upvalues_by_idx up m c) as Ht. rewrite H in Ht. apply Ht.
  - intros raw m' evs m'' H. pose proof (tracks_close_heap_closure up m raw) as Ht. rewrite H in Ht. apply Ht.
  - intros raw m' evs m'' H. exact (T_clone_heap _ _ _ _ H m'').
  - intros raw m' evs m'' H. exact (T_heap_retain_ev _ _ _ _ H m'').
  - intros raw m' evs m'' H. exact (T_heap_release_ev _ _ _ _ H m'').
Qed.
