(* Heap/Witness.v — witness of C12_steady_state_refuted: the H2 event log of the real VM for the program below
   (global initialisation, then samples 0, 1, 2): a top-level function used as a value is wrapped in a closure, cloned
   for the call (CloneHeap) and never released (known finding F22).  checks/C12.py re-runs the SOURCE on the real VM
   on every run and compares the log with the tuples of this file, so the witness is a trace of the CURRENT
   implementation.  Regenerate with corpus/C12/fix_candidates/gen_witnesses.py. *)
(* SOURCE
fn ap(f:(float)->float, y:float){ f(y) }
fn nm(z:float){ z*2.0 }
fn dsp(){ ap(nm, 2.0) }
END SOURCE *)
From Coq Require Import List NArith.
From Mimium Require Import Heap.Model.
Import ListNotations.
Local Open Scope N_scope.

Definition decode (l : list (N * N * N * N)) : list event :=
  flat_map (fun t => match t with (k, i, v, rc) =>
                       match event_of_tuple k i v rc with Some e => [e] | None => [] end end) l.

Definition w_prefix_raw : list (N * N * N * N) :=
  [(42, 0, 0, 0)].
Definition w_prefix : list event := decode w_prefix_raw.

Definition w_p1_raw : list (N * N * N * N) :=
  [(37, 2, 0, 0);
   (16, 1, 1, 1);
   (0, 1, 1, 1);
   (35, 1, 1, 0);
   (5, 1, 1, 1);
   (1, 1, 1, 2);
   (17, 1, 1, 2);
   (36, 1, 1, 0);
   (5, 1, 1, 2);
   (34, 1, 1, 0);
   (20, 1, 1, 2);
   (20, 1, 1, 2);
   (20, 1, 1, 2);
   (22, 1, 1, 2);
   (5, 1, 1, 2);
   (20, 1, 1, 2);
   (42, 0, 0, 0);
   (42, 0, 0, 0);
   (42, 0, 1, 0);
   (33, 1, 1, 0);
   (20, 1, 1, 2);
   (2, 1, 1, 1)].
Definition w_p1 : list event := decode w_p1_raw.

Definition w_p2_raw : list (N * N * N * N) :=
  [(37, 2, 0, 0);
   (16, 2, 1, 1);
   (0, 2, 1, 1);
   (35, 1, 2, 0);
   (5, 2, 1, 1);
   (1, 2, 1, 2);
   (17, 2, 1, 2);
   (36, 1, 2, 0);
   (5, 2, 1, 2);
   (34, 2, 1, 0);
   (20, 2, 1, 2);
   (20, 2, 1, 2);
   (20, 2, 1, 2);
   (22, 2, 1, 2);
   (5, 2, 1, 2);
   (20, 2, 1, 2);
   (42, 0, 0, 0);
   (42, 0, 0, 0);
   (42, 0, 1, 0);
   (33, 2, 1, 0);
   (20, 2, 1, 2);
   (2, 2, 1, 1)].
Definition w_p2 : list event := decode w_p2_raw.

Definition w_p3_raw : list (N * N * N * N) :=
  [(37, 2, 0, 0);
   (16, 3, 1, 1);
   (0, 3, 1, 1);
   (35, 1, 3, 0);
   (5, 3, 1, 1);
   (1, 3, 1, 2);
   (17, 3, 1, 2);
   (36, 1, 3, 0);
   (5, 3, 1, 2);
   (34, 3, 1, 0);
   (20, 3, 1, 2);
   (20, 3, 1, 2);
   (20, 3, 1, 2);
   (22, 3, 1, 2);
   (5, 3, 1, 2);
   (20, 3, 1, 2);
   (42, 0, 0, 0);
   (42, 0, 0, 0);
   (42, 0, 1, 0);
   (33, 3, 1, 0);
   (20, 3, 1, 2);
   (2, 3, 1, 1)].
Definition w_p3 : list event := decode w_p3_raw.

Definition witness_trace : list event := w_prefix ++ w_p1 ++ w_p2 ++ w_p3.

Lemma witness_decoded :
  length w_prefix = length w_prefix_raw /\ length w_p1 = length w_p1_raw
  /\ length w_p2 = length w_p2_raw /\ length w_p3 = length w_p3_raw.
Proof. vm_compute. repeat split; reflexivity. Qed.

Lemma steady_state_refuted :
  exists (prefix p1 p2 p3 : list event),
    balanced (prefix ++ p1 ++ p2 ++ p3) = true
    /\ map shape p1 = map shape p2 /\ map shape p2 = map shape p3
    /\ (exists m, mrun mach_new (prefix ++ p1) = Some m /\ live_count m SC = 1 /\ live_count m SH = 1)
    /\ (exists m, mrun mach_new (prefix ++ p1 ++ p2) = Some m /\ live_count m SC = 2 /\ live_count m SH = 2)
    /\ (exists m, mrun mach_new (prefix ++ p1 ++ p2 ++ p3) = Some m /\ live_count m SC = 3 /\ live_count m SH = 3).
Proof.
  exists w_prefix, w_p1, w_p2, w_p3.
  split; [vm_compute; reflexivity|].
  split; [vm_compute; reflexivity|].
  split; [vm_compute; reflexivity|].
  split; [|split]; eexists; (split; [vm_compute; reflexivity|split; vm_compute; reflexivity]).
Qed.
