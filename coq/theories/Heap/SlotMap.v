(* Heap/SlotMap.v — lemmas about the slot-map model (Heap/Model.v, section SlotMap):
   well-formedness (free list is a duplicate-free chain of vacant slots ending at the length, version parity =
   occupancy, num_elems = number of occupied slots) is preserved by insert / remove / set, lookups after each
   operation, and slot versions only grow (so a key is never issued twice). *)
From Coq Require Import List NArith Bool Lia Arith.
From Mimium Require Import Heap.Model.
Import ListNotations.
Local Open Scope N_scope.

Lemma key_eqb_eq : forall a b, key_eqb a b = true <-> a = b.
Proof.
  intros [ai av] [bi bv]; unfold key_eqb; cbn [kidx kver].
  rewrite andb_true_iff, !N.eqb_eq. split.
  - intros [-> ->]; reflexivity.
  - intros H; inversion H; auto.
Qed.

Lemma key_eqb_refl : forall a, key_eqb a a = true.
Proof. intros; apply key_eqb_eq; reflexivity. Qed.

Lemma key_eqb_neq : forall a b, key_eqb a b = false <-> a <> b.
Proof.
  intros a b; split.
  - intros H E; apply key_eqb_eq in E; congruence.
  - intros H; destruct (key_eqb a b) eqn:E; auto. apply key_eqb_eq in E; contradiction.
Qed.

Lemma key_eqb_sym : forall a b, key_eqb a b = key_eqb b a.
Proof.
  intros a b; destruct (key_eqb a b) eqn:E.
  - apply key_eqb_eq in E; subst; symmetry; apply key_eqb_refl.
  - symmetry; apply key_eqb_neq; apply key_eqb_neq in E; congruence.
Qed.

Lemma lor1_even : forall v, N.odd v = false -> N.lor v 1 = v + 1.
Proof. intros [|p] H; [reflexivity|]. destruct p; cbn in *; try discriminate; reflexivity. Qed.

Lemma lor1_odd : forall v, N.odd (N.lor v 1) = true.
Proof. intros [|p]; [reflexivity|]. destruct p; reflexivity. Qed.

Lemma lor1_ge : forall v, v <= N.lor v 1.
Proof.
  intros v; destruct (N.odd v) eqn:E.
  - destruct v as [|p]; [discriminate|]. destruct p; cbn in *; try discriminate; lia.
  - rewrite lor1_even by assumption; lia.
Qed.

(* ---------------------------------------------------------------------- *)
Section ListFacts.
  Context {A : Type}.

  Lemma set_nth_length : forall (l : list A) n x, length (set_nth l n x) = length l.
  Proof. induction l as [|y r IH]; intros [|n] x; cbn; auto. Qed.

  Lemma nth_error_set_nth_eq : forall (l : list A) n x, (n < length l)%nat -> nth_error (set_nth l n x) n = Some x.
  Proof.
    induction l as [|y r IH]; intros [|n] x H; cbn in *; try lia; auto.
    apply IH; lia.
  Qed.

  Lemma nth_error_set_nth_neq : forall (l : list A) n n' x, n <> n' -> nth_error (set_nth l n x) n' = nth_error l n'.
  Proof.
    induction l as [|y r IH]; intros [|n] [|n'] x H; cbn; auto; try congruence.
  Qed.

  Lemma nth_error_app_last : forall (l : list A) x, nth_error (l ++ [x]) (length l) = Some x.
  Proof. intros; rewrite nth_error_app2 by lia. rewrite Nat.sub_diag; reflexivity. Qed.
End ListFacts.

(* ---------------------------------------------------------------------- *)
Section SM.
  Context {V : Type}.

  Lemma slot_at_eq : forall (m : smap V) i, slot_at m i = nth_error (slots m) (N.to_nat i).
  Proof.
    intros m i. unfold slot_at. destruct (i <? N.of_nat (length (slots m))) eqn:E; [reflexivity|].
    apply N.ltb_ge in E. symmetry. apply nth_error_None. lia.
  Qed.

  Definition occ (s : slot V) : bool := match sval s with Some _ => true | None => false end.

  (* the free list, starting at index i: a duplicate-free chain of vacant slots ending at the length *)
  Inductive chain (sl : list (slot V)) : nat -> list nat -> Prop :=
  | chain_nil : chain sl (length sl) []
  | chain_cons : forall i s l,
      nth_error sl i = Some s -> occ s = false ->
      chain sl (N.to_nat (snext s)) l -> ~ In i l -> chain sl i (i :: l).

  Fixpoint count_occ_slots (sl : list (slot V)) : nat :=
    match sl with [] => O | s :: r => ((if occ s then 1 else 0) + count_occ_slots r)%nat end.

  Record wf (m : smap V) : Prop := mkWf {
    wf_par : forall i s, nth_error (slots m) i = Some s -> N.odd (sver s) = occ s;
    wf_chain : exists l, chain (slots m) (N.to_nat (free_head m)) l;
    wf_len : num_elems m = N.of_nat (count_occ_slots (slots m))
  }.

  Lemma wf_new : wf (@sm_new V).
  Proof.
    constructor.
    - intros [|[|i]] s H; cbn in H; inversion H; reflexivity.
    - exists []. change (N.to_nat (free_head (@sm_new V))) with (length (slots (@sm_new V))). constructor.
    - reflexivity.
  Qed.

  Lemma count_occ_slots_app : forall (a b : list (slot V)),
    count_occ_slots (a ++ b) = (count_occ_slots a + count_occ_slots b)%nat.
  Proof. induction a as [|x r IH]; intros b; cbn; auto. rewrite IH; lia. Qed.

  Lemma count_occ_slots_set_nth : forall (l : list (slot V)) n s x,
    nth_error l n = Some s ->
    (count_occ_slots (set_nth l n x) + (if occ s then 1 else 0)
     = count_occ_slots l + (if occ x then 1 else 0))%nat.
  Proof.
    induction l as [|y r IH]; intros [|n] s x H; cbn in *; try discriminate.
    - inversion H; subst; lia.
    - specialize (IH _ _ x H). lia.
  Qed.

  Lemma chain_members_vacant : forall sl i l, chain sl i l ->
    forall j, In j l -> exists s, nth_error sl j = Some s /\ occ s = false.
  Proof.
    induction 1 as [|i s l Hn Ho Hc IH Hni]; intros j Hj; [destruct Hj|].
    destruct Hj as [<-|Hj]; eauto.
  Qed.

  Lemma chain_set_nth_other : forall sl i l n x, chain sl i l -> ~ In n l -> chain (set_nth sl n x) i l.
  Proof.
    induction 1 as [|i s l Hn Ho Hc IH Hni]; intros Hnot.
    - rewrite <- (set_nth_length sl n x). constructor.
    - econstructor; eauto.
      + rewrite nth_error_set_nth_neq; eauto. intros ->; apply Hnot; left; reflexivity.
      + apply IH. intros H; apply Hnot; right; assumption.
  Qed.

  Lemma chain_head_none : forall sl i l, chain sl i l -> nth_error sl i = None -> i = length sl /\ l = [].
  Proof. intros sl i l H Hn; inversion H; subst; auto. congruence. Qed.

  Lemma chain_head_some : forall sl i l s, chain sl i l -> nth_error sl i = Some s ->
    exists l', l = i :: l' /\ occ s = false /\ chain sl (N.to_nat (snext s)) l' /\ ~ In i l'.
  Proof.
    intros sl i l s H Hn; inversion H; subst.
    - assert (nth_error sl (length sl) = None) by (apply nth_error_None; lia). congruence.
    - rewrite Hn in H0; inversion H0; subst. eauto.
  Qed.

  (* ---- lookups ---- *)
  Lemma get_contains : forall (m : smap V) k v, sm_get m k = Some v -> sm_contains m k = true.
  Proof.
    unfold sm_get, sm_contains; intros m k v. destruct (slot_at m (kidx k)); [|discriminate].
    destruct (sver s =? kver k); [auto|discriminate].
  Qed.

  Lemma get_occupied : forall (m : smap V) k v, sm_get m k = Some v ->
    exists s, slot_at m (kidx k) = Some s /\ sver s = kver k /\ sval s = Some v.
  Proof.
    unfold sm_get; intros m k v. destruct (slot_at m (kidx k)) as [s|]; [|discriminate].
    destruct (sver s =? kver k) eqn:E; [|discriminate]. apply N.eqb_eq in E. eauto.
  Qed.

  (* ---- insert ---- *)
  Lemma insert_wf : forall (m : smap V) v, wf m -> wf (fst (sm_insert m v)).
  Proof.
    intros m v [Hpar [l Hch] Hlen]. unfold sm_insert in *; rewrite ?slot_at_eq in *.
    destruct (nth_error (slots m) (N.to_nat (free_head m))) as [s|] eqn:Hs; cbn [fst].
    - destruct (chain_head_some _ _ _ _ Hch Hs) as (l' & -> & Hocc & Hch' & Hni).
      assert (Hlt : (N.to_nat (free_head m) < length (slots m))%nat) by (apply nth_error_Some; congruence).
      constructor; cbn [slots free_head num_elems].
      + intros i s' Hi. destruct (Nat.eq_dec (N.to_nat (free_head m)) i) as [<-|Hne].
        * rewrite nth_error_set_nth_eq in Hi by assumption. inversion Hi; subst; cbn. apply lor1_odd.
        * rewrite nth_error_set_nth_neq in Hi by assumption. eauto.
      + exists l'. apply chain_set_nth_other; assumption.
      + pose proof (count_occ_slots_set_nth _ _ _ (mkSlot (N.lor (sver s) 1) (Some v) 0) Hs) as Hc.
        rewrite Hocc in Hc. cbn [occ sval] in Hc. rewrite Hlen. lia.
    - destruct (chain_head_none _ _ _ Hch Hs) as [Hfh ->].
      constructor; cbn [slots free_head num_elems].
      + intros i s' Hi. destruct (Nat.lt_ge_cases i (length (slots m))) as [Hlt|Hge].
        * rewrite nth_error_app1 in Hi by assumption. eauto.
        * rewrite nth_error_app2 in Hi by assumption.
          destruct (i - length (slots m))%nat as [|[|?]]; cbn in Hi; inversion Hi; subst; reflexivity.
      + exists []. replace (N.to_nat (N.of_nat (length (slots m)) + 1)) with (length (slots m ++ [mkSlot 1 (Some v) 0])).
        * constructor.
        * rewrite app_length; cbn. lia.
      + rewrite count_occ_slots_app; cbn. rewrite Hlen. lia.
  Qed.

  Lemma insert_key_odd : forall (m : smap V) v, N.odd (kver (snd (sm_insert m v))) = true.
  Proof.
    intros m v; unfold sm_insert. destruct (slot_at m (free_head m)); cbn; [apply lor1_odd|reflexivity].
  Qed.

  Lemma insert_get_same : forall (m : smap V) v, wf m -> sm_get (fst (sm_insert m v)) (snd (sm_insert m v)) = Some v.
  Proof.
    intros m v [Hpar [l Hch] Hlen]. unfold sm_insert, sm_get in *; rewrite ?slot_at_eq in *.
    destruct (nth_error (slots m) (N.to_nat (free_head m))) as [s|] eqn:Hs; cbn [fst snd kidx kver slots].
    - assert (Hlt : (N.to_nat (free_head m) < length (slots m))%nat) by (apply nth_error_Some; congruence).
      rewrite nth_error_set_nth_eq by assumption. cbn. rewrite N.eqb_refl; reflexivity.
    - rewrite Nat2N.id, nth_error_app_last. cbn. reflexivity.
  Qed.

  Lemma insert_get_other : forall (m : smap V) v k, wf m -> k <> snd (sm_insert m v) ->
    sm_get (fst (sm_insert m v)) k = sm_get m k.
  Proof.
    intros m v k [Hpar [l Hch] Hlen] Hne. unfold sm_insert, sm_get in *; rewrite ?slot_at_eq in *.
    destruct (nth_error (slots m) (N.to_nat (free_head m))) as [s|] eqn:Hs; cbn [fst snd kidx kver slots] in *.
    - destruct (chain_head_some _ _ _ _ Hch Hs) as (l' & -> & Hocc & Hch' & Hni).
      assert (Hlt : (N.to_nat (free_head m) < length (slots m))%nat) by (apply nth_error_Some; congruence).
      destruct (Nat.eq_dec (N.to_nat (free_head m)) (N.to_nat (kidx k))) as [He|Hn].
      + rewrite <- He, nth_error_set_nth_eq, Hs by assumption. cbn.
        assert (Hsv : sval s = None) by (unfold occ in Hocc; destruct (sval s); [discriminate|reflexivity]).
        rewrite Hsv. destruct (N.lor (sver s) 1 =? kver k) eqn:E.
        * exfalso; apply Hne. apply N.eqb_eq in E. apply N2Nat.inj in He.
          destruct k; cbn in *; subst; reflexivity.
        * destruct (sver s =? kver k); reflexivity.
      + rewrite nth_error_set_nth_neq by assumption. reflexivity.
    - destruct (chain_head_none _ _ _ Hch Hs) as [Hfh _].
      destruct (Nat.lt_ge_cases (N.to_nat (kidx k)) (length (slots m))) as [Hlt|Hge].
      + rewrite nth_error_app1 by assumption. reflexivity.
      + rewrite nth_error_app2 by assumption.
        assert (Hnone : nth_error (slots m) (N.to_nat (kidx k)) = None) by (apply nth_error_None; lia).
        rewrite Hnone.
        destruct (N.to_nat (kidx k) - length (slots m))%nat as [|n] eqn:Hd.
        * cbn [nth_error sver sval]. destruct (1 =? kver k) eqn:E; auto.
          exfalso; apply Hne. apply N.eqb_eq in E.
          assert (kidx k = N.of_nat (length (slots m))) by lia.
          destruct k; cbn in *; subst; reflexivity.
        * destruct n; reflexivity.
  Qed.

  Lemma insert_fresh : forall (m : smap V) v, wf m -> sm_get m (snd (sm_insert m v)) = None.
  Proof.
    intros m v [Hpar [l Hch] Hlen]. unfold sm_insert, sm_get in *; rewrite ?slot_at_eq in *.
    destruct (nth_error (slots m) (N.to_nat (free_head m))) as [s|] eqn:Hs; cbn [snd kidx kver].
    - rewrite Hs. destruct (chain_head_some _ _ _ _ Hch Hs) as (l' & -> & Hocc & _).
      unfold occ in Hocc. destruct (sval s); [discriminate|]. destruct (sver s =? N.lor (sver s) 1); reflexivity.
    - rewrite Nat2N.id. assert (H : nth_error (slots m) (length (slots m)) = None) by (apply nth_error_None; lia).
      rewrite H; reflexivity.
  Qed.

  Lemma insert_len : forall (m : smap V) v, sm_len (fst (sm_insert m v)) = sm_len m + 1.
  Proof. intros m v; unfold sm_insert, sm_len. destruct (slot_at m (free_head m)); reflexivity. Qed.

  (* ---- versions only grow: [bound m k] = "k could have been issued by m's history" ---- *)
  Definition bound (m : smap V) (k : key) : Prop :=
    match slot_at m (kidx k) with Some s => kver k <= sver s | None => False end.

  Lemma insert_new_unbound : forall (m : smap V) v, wf m -> ~ bound m (snd (sm_insert m v)).
  Proof.
    intros m v [Hpar [l Hch] Hlen]. unfold sm_insert, bound in *; rewrite ?slot_at_eq in *.
    destruct (nth_error (slots m) (N.to_nat (free_head m))) as [s|] eqn:Hs; cbn [snd kidx kver].
    - rewrite Hs. destruct (chain_head_some _ _ _ _ Hch Hs) as (l' & -> & Hocc & _).
      rewrite <- (Hpar _ _ Hs) in Hocc. rewrite lor1_even by assumption. lia.
    - rewrite Nat2N.id. assert (H : nth_error (slots m) (length (slots m)) = None) by (apply nth_error_None; lia).
      rewrite H; auto.
  Qed.

  Lemma insert_new_bound : forall (m : smap V) v, bound (fst (sm_insert m v)) (snd (sm_insert m v)).
  Proof.
    intros m v. unfold sm_insert, bound; rewrite ?slot_at_eq.
    destruct (nth_error (slots m) (N.to_nat (free_head m))) as [s|] eqn:Hs; cbn [fst snd kidx kver slots].
    - assert (Hlt : (N.to_nat (free_head m) < length (slots m))%nat) by (apply nth_error_Some; congruence).
      rewrite nth_error_set_nth_eq by assumption. cbn; lia.
    - rewrite Nat2N.id, nth_error_app_last. cbn; lia.
  Qed.

  Lemma insert_bound_mono : forall (m : smap V) v k, bound m k -> bound (fst (sm_insert m v)) k.
  Proof.
    intros m v k. unfold sm_insert, bound; rewrite ?slot_at_eq.
    destruct (nth_error (slots m) (N.to_nat (kidx k))) as [sk|] eqn:Hk; [|tauto]. intros Hb.
    destruct (nth_error (slots m) (N.to_nat (free_head m))) as [s|] eqn:Hs; cbn [fst slots].
    - assert (Hlt : (N.to_nat (free_head m) < length (slots m))%nat) by (apply nth_error_Some; congruence).
      destruct (Nat.eq_dec (N.to_nat (free_head m)) (N.to_nat (kidx k))) as [He|Hn].
      + rewrite <- He, nth_error_set_nth_eq by assumption. cbn. rewrite <- He, Hs in Hk. inversion Hk; subst.
        pose proof (lor1_ge (sver sk)); lia.
      + rewrite nth_error_set_nth_neq, Hk by assumption. assumption.
    - rewrite nth_error_app1, Hk; [assumption|]. apply nth_error_Some; congruence.
  Qed.

  (* ---- remove ---- *)
  Lemma remove_wf : forall (m : smap V) k v, wf m -> sm_get m k = Some v -> wf (fst (sm_remove m k)).
  Proof.
    intros m k v [Hpar [l Hch] Hlen] Hg. unfold sm_remove. rewrite (get_contains _ _ _ Hg).
    destruct (get_occupied _ _ _ Hg) as (s & Hs & Hv & Hsv). rewrite Hs. cbn [fst].
    rewrite ?slot_at_eq in Hs.
    assert (Hlt : (N.to_nat (kidx k) < length (slots m))%nat) by (apply nth_error_Some; congruence).
    assert (Hocc : occ s = true) by (unfold occ; rewrite Hsv; reflexivity).
    assert (Hnl : ~ In (N.to_nat (kidx k)) l).
    { intros Hin. destruct (chain_members_vacant _ _ _ Hch _ Hin) as (s' & Hs' & Ho'). congruence. }
    constructor; cbn [slots free_head num_elems].
    - intros i s' Hi. destruct (Nat.eq_dec (N.to_nat (kidx k)) i) as [<-|Hne].
      + rewrite nth_error_set_nth_eq in Hi by assumption. inversion Hi; subst; cbn.
        pose proof (Hpar _ _ Hs) as Hp. rewrite Hocc in Hp.
        rewrite N.add_1_r, N.odd_succ, <- N.negb_odd, Hp. reflexivity.
      + rewrite nth_error_set_nth_neq in Hi by assumption. eauto.
    - exists (N.to_nat (kidx k) :: l). econstructor.
      + apply nth_error_set_nth_eq; assumption.
      + reflexivity.
      + cbn [snext]. apply chain_set_nth_other; assumption.
      + assumption.
    - pose proof (count_occ_slots_set_nth _ _ _ (mkSlot (sver s + 1) None (free_head m)) Hs) as Hc.
      rewrite Hocc in Hc. cbn [occ sval] in Hc. rewrite Hlen. lia.
  Qed.

  Lemma remove_get_same : forall (m : smap V) k v, sm_get m k = Some v -> sm_get (fst (sm_remove m k)) k = None.
  Proof.
    intros m k v Hg. unfold sm_remove. rewrite (get_contains _ _ _ Hg).
    destruct (get_occupied _ _ _ Hg) as (s & Hs & Hv & Hsv). rewrite Hs. cbn [fst].
    unfold sm_get in *; rewrite ?slot_at_eq in *. cbn [slots].
    assert (Hlt : (N.to_nat (kidx k) < length (slots m))%nat) by (apply nth_error_Some; congruence).
    rewrite nth_error_set_nth_eq by assumption. cbn. destruct (sver s + 1 =? kver k); reflexivity.
  Qed.

  Lemma remove_get_other : forall (m : smap V) k k' v, sm_get m k = Some v -> k' <> k ->
    sm_get (fst (sm_remove m k)) k' = sm_get m k'.
  Proof.
    intros m k k' v Hg Hne. unfold sm_remove. rewrite (get_contains _ _ _ Hg).
    destruct (get_occupied _ _ _ Hg) as (s & Hs & Hv & Hsv). rewrite Hs. cbn [fst].
    unfold sm_get in *; rewrite ?slot_at_eq in *. cbn [slots].
    assert (Hlt : (N.to_nat (kidx k) < length (slots m))%nat) by (apply nth_error_Some; congruence).
    destruct (Nat.eq_dec (N.to_nat (kidx k)) (N.to_nat (kidx k'))) as [He|Hn].
    - rewrite <- He, nth_error_set_nth_eq, Hs by assumption. cbn.
      destruct (sver s =? kver k') eqn:E.
      + exfalso; apply Hne. apply N.eqb_eq in E. apply N2Nat.inj in He. destruct k, k'; cbn in *; subst; reflexivity.
      + destruct (sver s + 1 =? kver k'); reflexivity.
    - rewrite nth_error_set_nth_neq by assumption. reflexivity.
  Qed.

  Lemma remove_len : forall (m : smap V) k v, wf m -> sm_get m k = Some v -> sm_len (fst (sm_remove m k)) + 1 = sm_len m.
  Proof.
    intros m k v [Hpar _ Hlen] Hg. unfold sm_remove, sm_len. rewrite (get_contains _ _ _ Hg).
    destruct (get_occupied _ _ _ Hg) as (s & Hs & Hv & Hsv). rewrite Hs. cbn [fst num_elems].
    rewrite ?slot_at_eq in Hs. rewrite Hlen.
    assert (Hocc : occ s = true) by (unfold occ; rewrite Hsv; reflexivity).
    assert (Hpos : (1 <= count_occ_slots (slots m))%nat).
    { pose proof (count_occ_slots_set_nth _ _ _ (mkSlot (sver s + 1) None (free_head m)) Hs) as Hc.
      rewrite Hocc in Hc. cbn [occ sval] in Hc. lia. }
    lia.
  Qed.

  Lemma remove_bound_mono : forall (m : smap V) k k', bound m k' -> bound (fst (sm_remove m k)) k'.
  Proof.
    intros m k k'. unfold sm_remove, bound.
    destruct (sm_contains m k); [|auto]. destruct (slot_at m (kidx k)) as [s|] eqn:Hs; [|auto]. cbn [fst].
    rewrite ?slot_at_eq in *. cbn [slots].
    assert (Hlt : (N.to_nat (kidx k) < length (slots m))%nat) by (apply nth_error_Some; congruence).
    destruct (Nat.eq_dec (N.to_nat (kidx k)) (N.to_nat (kidx k'))) as [He|Hn].
    - rewrite <- He, nth_error_set_nth_eq, Hs by assumption. cbn. lia.
    - rewrite nth_error_set_nth_neq by assumption. auto.
  Qed.

  (* ---- set ---- *)
  Lemma set_wf : forall (m : smap V) k v v', wf m -> sm_get m k = Some v -> wf (sm_set m k v').
  Proof.
    intros m k v v' [Hpar [l Hch] Hlen] Hg. unfold sm_set.
    destruct (get_occupied _ _ _ Hg) as (s & Hs & Hv & Hsv). rewrite Hs, Hv, N.eqb_refl.
    rewrite ?slot_at_eq in Hs.
    assert (Hlt : (N.to_nat (kidx k) < length (slots m))%nat) by (apply nth_error_Some; congruence).
    assert (Hocc : occ s = true) by (unfold occ; rewrite Hsv; reflexivity).
    assert (Hnl : ~ In (N.to_nat (kidx k)) l).
    { intros Hin. destruct (chain_members_vacant _ _ _ Hch _ Hin) as (s' & Hs' & Ho'). congruence. }
    constructor; cbn [slots free_head num_elems].
    - intros i s' Hi. destruct (Nat.eq_dec (N.to_nat (kidx k)) i) as [<-|Hne].
      + rewrite nth_error_set_nth_eq in Hi by assumption. inversion Hi; subst; cbn.
        rewrite <- Hv. rewrite (Hpar _ _ Hs). assumption.
      + rewrite nth_error_set_nth_neq in Hi by assumption. eauto.
    - exists l. apply chain_set_nth_other; assumption.
    - pose proof (count_occ_slots_set_nth _ _ _ (mkSlot (kver k) (Some v') (snext s)) Hs) as Hc.
      rewrite Hocc in Hc. cbn [occ sval] in Hc. rewrite Hlen. f_equal. lia.
  Qed.

  Lemma set_get_same : forall (m : smap V) k v v', sm_get m k = Some v -> sm_get (sm_set m k v') k = Some v'.
  Proof.
    intros m k v v' Hg. unfold sm_set.
    destruct (get_occupied _ _ _ Hg) as (s & Hs & Hv & Hsv). rewrite Hs, Hv, N.eqb_refl.
    unfold sm_get in *; rewrite ?slot_at_eq in *. cbn [slots].
    assert (Hlt : (N.to_nat (kidx k) < length (slots m))%nat) by (apply nth_error_Some; congruence).
    rewrite nth_error_set_nth_eq by assumption. cbn. rewrite N.eqb_refl; reflexivity.
  Qed.

  Lemma set_get_other : forall (m : smap V) k k' v', k' <> k -> sm_get (sm_set m k v') k' = sm_get m k'.
  Proof.
    intros m k k' v' Hne. unfold sm_set.
    destruct (slot_at m (kidx k)) as [s|] eqn:Hs; [|reflexivity].
    destruct (sver s =? kver k) eqn:Hv; [|reflexivity]. apply N.eqb_eq in Hv.
    unfold sm_get in *; rewrite ?slot_at_eq in *. cbn [slots].
    assert (Hlt : (N.to_nat (kidx k) < length (slots m))%nat) by (apply nth_error_Some; congruence).
    destruct (Nat.eq_dec (N.to_nat (kidx k)) (N.to_nat (kidx k'))) as [He|Hn].
    - rewrite <- He, nth_error_set_nth_eq, Hs by assumption. cbn.
      destruct (sver s =? kver k') eqn:E; [|reflexivity].
      exfalso; apply Hne. apply N.eqb_eq in E. apply N2Nat.inj in He. destruct k, k'; cbn in *; subst; reflexivity.
    - rewrite nth_error_set_nth_neq by assumption. reflexivity.
  Qed.

  Lemma set_len : forall (m : smap V) k v', sm_len (sm_set m k v') = sm_len m.
  Proof.
    intros m k v'. unfold sm_set, sm_len. destruct (slot_at m (kidx k)); [|reflexivity].
    destruct (sver s =? kver k); reflexivity.
  Qed.

  Lemma set_bound_mono : forall (m : smap V) k v' k', bound m k' -> bound (sm_set m k v') k'.
  Proof.
    intros m k v' k'. unfold sm_set, bound.
    destruct (slot_at m (kidx k)) as [s|] eqn:Hs; [|auto].
    destruct (sver s =? kver k) eqn:Hv; [|auto].
    rewrite ?slot_at_eq in *. cbn [slots].
    assert (Hlt : (N.to_nat (kidx k) < length (slots m))%nat) by (apply nth_error_Some; congruence).
    destruct (Nat.eq_dec (N.to_nat (kidx k)) (N.to_nat (kidx k'))) as [He|Hn].
    - rewrite <- He, nth_error_set_nth_eq, Hs by assumption. cbn. auto.
    - rewrite nth_error_set_nth_neq by assumption. auto.
  Qed.

  (* a present key is bound *)
  Lemma get_bound : forall (m : smap V) k v, sm_get m k = Some v -> bound m k.
  Proof.
    intros m k v Hg. destruct (get_occupied _ _ _ Hg) as (s & Hs & Hv & _).
    unfold bound. rewrite Hs. lia.
  Qed.
  (* ---- a removed key stays stale for ever ---- *)
  Lemma insert_stale_mono : forall (m : smap V) v k, stale m k = true -> stale (fst (sm_insert m v)) k = true.
  Proof.
    intros m v k. unfold sm_insert, stale; rewrite ?slot_at_eq.
    destruct (nth_error (slots m) (N.to_nat (kidx k))) as [sk|] eqn:Hk; [|discriminate]. intros Hb.
    destruct (nth_error (slots m) (N.to_nat (free_head m))) as [s|] eqn:Hs; cbn [fst slots].
    - assert (Hlt : (N.to_nat (free_head m) < length (slots m))%nat) by (apply nth_error_Some; congruence).
      destruct (Nat.eq_dec (N.to_nat (free_head m)) (N.to_nat (kidx k))) as [He|Hn].
      + rewrite <- He, nth_error_set_nth_eq by assumption. cbn [sver]. rewrite <- He, Hs in Hk. inversion Hk; subst.
        apply N.ltb_lt in Hb. apply N.ltb_lt. pose proof (lor1_ge (sver sk)); lia.
      + rewrite nth_error_set_nth_neq, Hk by assumption. assumption.
    - rewrite nth_error_app1, Hk; [assumption|]. apply nth_error_Some; congruence.
  Qed.

  Lemma remove_stale_mono : forall (m : smap V) k k', stale m k' = true -> stale (fst (sm_remove m k)) k' = true.
  Proof.
    intros m k k'. unfold sm_remove.
    destruct (sm_contains m k); [|auto]. destruct (slot_at m (kidx k)) as [s|] eqn:Hs; [|auto]. cbn [fst].
    unfold stale. rewrite ?slot_at_eq in *. cbn [slots].
    assert (Hlt : (N.to_nat (kidx k) < length (slots m))%nat) by (apply nth_error_Some; congruence).
    destruct (Nat.eq_dec (N.to_nat (kidx k)) (N.to_nat (kidx k'))) as [He|Hn].
    - rewrite <- He, nth_error_set_nth_eq, Hs by assumption. cbn [sver]. intros Hb.
      apply N.ltb_lt in Hb. apply N.ltb_lt. lia.
    - rewrite nth_error_set_nth_neq by assumption. auto.
  Qed.

  Lemma remove_stale_self : forall (m : smap V) k v, sm_get m k = Some v -> stale (fst (sm_remove m k)) k = true.
  Proof.
    intros m k v Hg. unfold sm_remove. rewrite (get_contains _ _ _ Hg).
    destruct (get_occupied _ _ _ Hg) as (s & Hs & Hv & Hsv). rewrite Hs. cbn [fst].
    unfold stale. rewrite ?slot_at_eq in *. cbn [slots].
    assert (Hlt : (N.to_nat (kidx k) < length (slots m))%nat) by (apply nth_error_Some; congruence).
    rewrite nth_error_set_nth_eq by assumption. cbn [sver]. apply N.ltb_lt. lia.
  Qed.

  Lemma set_stale_mono : forall (m : smap V) k v' k', stale m k' = true -> stale (sm_set m k v') k' = true.
  Proof.
    intros m k v' k'. unfold sm_set.
    destruct (slot_at m (kidx k)) as [s|] eqn:Hs; [|auto].
    destruct (sver s =? kver k) eqn:Hv; [|auto].
    unfold stale. rewrite ?slot_at_eq in *. cbn [slots].
    assert (Hlt : (N.to_nat (kidx k) < length (slots m))%nat) by (apply nth_error_Some; congruence).
    destruct (Nat.eq_dec (N.to_nat (kidx k)) (N.to_nat (kidx k'))) as [He|Hn].
    - rewrite <- He, nth_error_set_nth_eq, Hs by assumption. cbn [sver]. auto.
    - rewrite nth_error_set_nth_neq by assumption. auto.
  Qed.
End SM.
