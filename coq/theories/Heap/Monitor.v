(* Heap/Monitor.v — the discipline checker [balanced] (Heap/Model.v mstep/mrun) is sound:
   along an accepted H2 event trace no dereferencing event refers to a freed key, releases never exceed
   allocations + retains, the objects present at the end are exactly the keys with a positive count, and
   (live objects) + (free events) = (alloc events) for each store — hence steady state for net-zero periods. *)
From Coq Require Import List NArith Bool Lia Arith.
From Mimium Require Import Heap.Model Heap.SlotMap Heap.Lemmas.
Import ListNotations.
Local Open Scope N_scope.

(* ---- counting ---- *)
Definition cnt (w : sid) (o : eop) (k : key) (e : event) : N := if is_op_key w o k e then 1 else 0.
Definition cnt_op (w : sid) (o : eop) (e : event) : N := if is_op w o e then 1 else 0.

Lemma count_key_app : forall w o k a b, count_key w o k (a ++ b) = count_key w o k a + count_key w o k b.
Proof. intros; unfold count_key. rewrite filter_app, app_length, Nat2N.inj_add; reflexivity. Qed.

Lemma count_op_app : forall w o a b, count_op w o (a ++ b) = count_op w o a + count_op w o b.
Proof. intros; unfold count_op. rewrite filter_app, app_length, Nat2N.inj_add; reflexivity. Qed.

Lemma count_key_one : forall w o k e, count_key w o k [e] = cnt w o k e.
Proof. intros; unfold count_key, cnt; cbn. destruct (is_op_key w o k e); reflexivity. Qed.

Lemma count_op_one : forall w o e, count_op w o [e] = cnt_op w o e.
Proof. intros; unfold count_op, cnt_op; cbn. destruct (is_op w o e); reflexivity. Qed.

Lemma count_key_snoc : forall w o k tr e, count_key w o k (tr ++ [e]) = count_key w o k tr + cnt w o k e.
Proof. intros; rewrite count_key_app, count_key_one; reflexivity. Qed.

Lemma count_op_snoc : forall w o tr e, count_op w o (tr ++ [e]) = count_op w o tr + cnt_op w o e.
Proof. intros; rewrite count_op_app, count_op_one; reflexivity. Qed.

Lemma count_op_concat : forall w o ps,
  count_op w o (concat ps) = fold_right (fun p acc => count_op w o p + acc) 0 ps.
Proof. induction ps as [|p r IH]; cbn [concat fold_right]; [reflexivity|]. rewrite count_op_app, IH; reflexivity. Qed.

Lemma sid_eqb_refl : forall w, sid_eqb w w = true.
Proof. destruct w; reflexivity. Qed.

Lemma sid_eqb_eq : forall a b, sid_eqb a b = true <-> a = b.
Proof. destruct a, b; cbn; split; congruence. Qed.

Lemma cnt_other_store : forall w o k e, sid_eqb w (e_store e) = false -> cnt w o k e = 0.
Proof. intros w o k e H; unfold cnt, is_op_key, is_op. rewrite H; reflexivity. Qed.

Lemma cnt_op_other_store : forall w o e, sid_eqb w (e_store e) = false -> cnt_op w o e = 0.
Proof. intros w o e H; unfold cnt_op, is_op. rewrite H; reflexivity. Qed.

Lemma cnt_other_key : forall w o k e, k <> e_key e -> cnt w o k e = 0.
Proof.
  intros w o k e H; unfold cnt, is_op_key. apply key_eqb_neq in H. rewrite H, andb_false_r; reflexivity.
Qed.

(* ---- the invariant of one store along an accepted trace ---- *)
Record SInv (w : sid) (s : store) (tr : list event) : Prop := mkSInv {
  si_wf : wf s;
  si_some : forall k o, sm_get s k = Some o ->
      orc o + count_key w ERelease k tr = count_key w EAlloc k tr + count_key w ERetain k tr
      /\ count_key w EAlloc k tr = 1 /\ count_key w EFree k tr = 0;
  si_none : forall k, sm_get s k = None ->
      count_key w ERelease k tr = count_key w EAlloc k tr + count_key w ERetain k tr
      /\ count_key w EFree k tr = count_key w EAlloc k tr /\ count_key w EAlloc k tr <= 1;
  si_bound : forall k, 1 <= count_key w EAlloc k tr -> bound s k;
  si_freed : forall k, 1 <= count_key w EFree k tr -> stale s k = true;
  si_len : sm_len s + count_op w EFree tr = count_op w EAlloc tr
}.

Definition MInv (m : mach) (tr : list event) : Prop := SInv SH (m_hp m) tr /\ SInv SC (m_cl m) tr.

Lemma minv_store : forall m tr w, MInv m tr -> SInv w (get_store m w) tr.
Proof. intros m tr [|] [H1 H2]; assumption. Qed.

Lemma sinv_new : forall w, SInv w sm_new [].
Proof.
  intros w; constructor; cbn; auto using wf_new.
  - intros k o H; rewrite sm_new_get in H; discriminate.
  - intros k _. unfold count_key; cbn. lia.
  - intros k H. unfold count_key in H; cbn in H. lia.
Qed.

Lemma minv_new : MInv mach_new [].
Proof. split; apply sinv_new. Qed.

(* an event that leaves store w and all its counts alone *)
Lemma sinv_keep : forall w s tr e,
  SInv w s tr -> (forall o k, cnt w o k e = 0) -> (forall o, cnt_op w o e = 0) -> SInv w s (tr ++ [e]).
Proof.
  intros w s tr e [Hwf Hs Hn Hb Hfr Hl] Hc Hco. constructor; auto.
  - intros k o Hg. rewrite !count_key_snoc, !Hc, !N.add_0_r. auto.
  - intros k Hg. rewrite !count_key_snoc, !Hc, !N.add_0_r. auto.
  - intros k. rewrite count_key_snoc, Hc, N.add_0_r. auto.
  - intros k. rewrite count_key_snoc, Hc, N.add_0_r. auto.
  - rewrite !count_op_snoc, !Hco, !N.add_0_r. assumption.
Qed.

Lemma get_set_store_same : forall m w s, get_store (set_store m w s) w = s.
Proof. intros m [|] s; reflexivity. Qed.

Lemma get_set_store_other : forall m w w' s, w' <> w -> get_store (set_store m w s) w' = get_store m w'.
Proof. intros m [|] [|] s H; try reflexivity; congruence. Qed.

(* the object at a present key k0 is replaced; counts of (k0) move by dT retains and dR releases *)
Lemma sinv_set : forall w s tr e k0 ob ob' dT dR,
  SInv w s tr -> sm_get s k0 = Some ob ->
  e_store e = w -> e_key e = k0 ->
  cnt w EAlloc k0 e = 0 -> cnt w EFree k0 e = 0 -> cnt w ERetain k0 e = dT -> cnt w ERelease k0 e = dR ->
  cnt_op w EAlloc e = 0 -> cnt_op w EFree e = 0 ->
  orc ob' + dR = orc ob + dT ->
  SInv w (sm_set s k0 ob') (tr ++ [e]).
Proof.
  intros w s tr e k0 ob ob' dT dR [Hwf Hs Hn Hb Hfr Hl] Hg Hst Hk HcA HcF HcT HcR HoA HoF Hrc.
  assert (Hoth : forall o k, k <> k0 -> cnt w o k e = 0) by (intros; apply cnt_other_key; congruence).
  constructor.
  - eapply set_wf; eauto.
  - intros k o Hg'. rewrite !count_key_snoc. destruct (key_eqb k k0) eqn:E.
    + apply key_eqb_eq in E; subst k. rewrite (set_get_same _ _ _ _ Hg) in Hg'. inversion Hg'; subst o.
      rewrite HcA, HcF, HcT, HcR. destruct (Hs _ _ Hg) as (H1 & H2 & H3). lia.
    + apply key_eqb_neq in E. rewrite set_get_other in Hg' by assumption.
      rewrite !Hoth by assumption. destruct (Hs _ _ Hg') as (H1 & H2 & H3). lia.
  - intros k Hg'. rewrite !count_key_snoc. destruct (key_eqb k k0) eqn:E.
    + apply key_eqb_eq in E; subst k. rewrite (set_get_same _ _ _ _ Hg) in Hg'. discriminate.
    + apply key_eqb_neq in E. rewrite set_get_other in Hg' by assumption.
      rewrite !Hoth by assumption. destruct (Hn _ Hg') as (H1 & H2 & H3). lia.
  - intros k Hk1. apply set_bound_mono. apply Hb. rewrite count_key_snoc in Hk1.
    destruct (key_eqb k k0) eqn:E.
    + apply key_eqb_eq in E; subst k. rewrite HcA in Hk1. lia.
    + apply key_eqb_neq in E. rewrite Hoth in Hk1 by assumption. lia.
  - intros k Hk1. apply set_stale_mono. apply Hfr. rewrite count_key_snoc in Hk1.
    destruct (key_eqb k k0) eqn:E.
    + apply key_eqb_eq in E; subst k. rewrite HcF in Hk1. lia.
    + apply key_eqb_neq in E. rewrite Hoth in Hk1 by assumption. lia.
  - rewrite set_len, !count_op_snoc, HoA, HoF. lia.
Qed.

Ltac ev_simpl :=
  unfold cnt, cnt_op, is_op_key, is_op; cbn [e_store e_op e_key e_rc];
  rewrite ?sid_eqb_refl, ?key_eqb_refl; cbn [andb]; try reflexivity.

(* one accepted event preserves the invariant *)
Lemma mstep_inv : forall m tr e m', MInv m tr -> mstep m e = Some m' -> MInv m' (tr ++ [e]).
Proof.
  intros m tr e m' HI Hstep.
  (* it suffices to treat the store of the event; the other one is untouched *)
  assert (Hgoal : forall w, SInv w (get_store m' w) (tr ++ [e])); [|split; [apply (Hgoal SH)|apply (Hgoal SC)]].
  intros w. pose proof (minv_store _ _ w HI) as HIw.
  destruct e as [st op k rc]. unfold mstep in Hstep. cbn [e_store e_op e_key e_rc] in Hstep.
  destruct (sid_eqb w st) eqn:Ew.
  2:{ (* other store *)
    assert (Hne : w <> st) by (intros ->; rewrite sid_eqb_refl in Ew; discriminate).
    assert (Hsame : get_store m' w = get_store m w).
    { destruct op; try (inversion Hstep; subst; reflexivity);
        repeat match type of Hstep with
               | context [st_alloc ?a ?b] => destruct (st_alloc a b)
               | context [sm_get ?a ?b] => destruct (sm_get a b)
               | context [if ?c then _ else _] => destruct c
               | context [match ?c with Some _ => _ | None => _ end] => destruct c
               end; inversion Hstep; subst; try reflexivity; apply get_set_store_other; assumption. }
    rewrite Hsame. apply sinv_keep; auto.
    - intros; apply cnt_other_store; assumption.
    - intros; apply cnt_op_other_store; assumption. }
  apply sid_eqb_eq in Ew; subst st.
  set (s := get_store m w) in *.
  destruct op.
  - (* alloc *)
    unfold st_alloc in Hstep. destruct (sm_insert s (mkObj 1 false [])) as [s1 k0] eqn:Hins.
    destruct (key_eqb k k0 && orc_eqb rc 1) eqn:Ec; [|discriminate]. inversion Hstep; subst m'; clear Hstep.
    apply andb_true_iff in Ec; destruct Ec as [Ek _]. apply key_eqb_eq in Ek; subst k0.
    rewrite get_set_store_same.
    destruct HIw as [Hwf Hs Hn Hb Hfr Hl].
    assert (Hs1 : s1 = fst (sm_insert s (mkObj 1 false []))) by (rewrite Hins; reflexivity).
    assert (Hk0 : k = snd (sm_insert s (mkObj 1 false []))) by (rewrite Hins; reflexivity).
    assert (Hfresh : sm_get s k = None) by (rewrite Hk0; apply insert_fresh; assumption).
    assert (Hsame : sm_get s1 k = Some (mkObj 1 false [])) by (rewrite Hs1, Hk0; apply insert_get_same; assumption).
    assert (Hother : forall k', k' <> k -> sm_get s1 k' = sm_get s k')
      by (intros k' Hk'; rewrite Hs1; apply insert_get_other; [assumption|rewrite <- Hk0; assumption]).
    assert (HA0 : count_key w EAlloc k tr = 0).
    { destruct (N.eq_dec (count_key w EAlloc k tr) 0) as [|Hnz]; [assumption|].
      exfalso. assert (Hb1 : bound s k) by (apply Hb; lia). rewrite Hk0 in Hb1.
      eapply insert_new_unbound; eauto. }
    set (e := {| e_store := w; e_op := EAlloc; e_key := k; e_rc := rc |}).
    assert (Hoth : forall o k', k' <> k -> cnt w o k' e = 0) by (intros; apply cnt_other_key; assumption).
    assert (HcA : cnt w EAlloc k e = 1) by (subst e; ev_simpl).
    assert (HcT : cnt w ERetain k e = 0) by (subst e; ev_simpl).
    assert (HcR : cnt w ERelease k e = 0) by (subst e; ev_simpl).
    assert (HcF : cnt w EFree k e = 0) by (subst e; ev_simpl).
    constructor.
    + rewrite Hs1; apply insert_wf; assumption.
    + intros k' o Hg. rewrite !count_key_snoc. destruct (key_eqb k' k) eqn:E.
      * apply key_eqb_eq in E; subst k'. rewrite Hsame in Hg; inversion Hg; subst o; cbn [orc].
        rewrite HcA, HcT, HcR, HcF. destruct (Hn _ Hfresh) as (H1 & H2 & H3). lia.
      * apply key_eqb_neq in E. rewrite Hother in Hg by assumption. rewrite !Hoth by assumption.
        destruct (Hs _ _ Hg) as (H1 & H2 & H3). lia.
    + intros k' Hg. rewrite !count_key_snoc. destruct (key_eqb k' k) eqn:E.
      * apply key_eqb_eq in E; subst k'. congruence.
      * apply key_eqb_neq in E. rewrite Hother in Hg by assumption. rewrite !Hoth by assumption.
        destruct (Hn _ Hg) as (H1 & H2 & H3). lia.
    + intros k' Hk1. rewrite count_key_snoc in Hk1. destruct (key_eqb k' k) eqn:E.
      * apply key_eqb_eq in E; subst k'. rewrite Hs1, Hk0. apply insert_new_bound.
      * apply key_eqb_neq in E. rewrite Hoth in Hk1 by assumption. rewrite Hs1. apply insert_bound_mono. apply Hb; lia.
    + intros k' Hk1. rewrite count_key_snoc in Hk1. rewrite Hs1. apply insert_stale_mono. apply Hfr.
      destruct (key_eqb k' k) eqn:E.
      * apply key_eqb_eq in E; subst k'. rewrite HcF in Hk1. lia.
      * apply key_eqb_neq in E. rewrite Hoth in Hk1 by assumption. lia.
    + rewrite Hs1, insert_len, !count_op_snoc.
      assert (H1 : cnt_op w EAlloc e = 1) by (subst e; ev_simpl).
      assert (H2 : cnt_op w EFree e = 0) by (subst e; ev_simpl).
      rewrite H1, H2. lia.
  - (* retain *)
    destruct (sm_get s k) as [ob|] eqn:Hg; [|discriminate].
    destruct ((1 <=? orc ob) && orc_eqb rc (orc ob + 1)) eqn:Ec; [|discriminate].
    inversion Hstep; subst m'; clear Hstep. rewrite get_set_store_same.
    eapply sinv_set with (dT := 1) (dR := 0); eauto; cbn [orc]; try lia; ev_simpl.
  - (* release *)
    destruct (sm_get s k) as [ob|] eqn:Hg; [|discriminate].
    destruct ((1 <=? orc ob) && orc_eqb rc (orc ob - 1)) eqn:Ec; [|discriminate].
    apply andb_true_iff in Ec; destruct Ec as [Ep _]. apply N.leb_le in Ep.
    inversion Hstep; subst m'; clear Hstep. rewrite get_set_store_same.
    eapply sinv_set with (dT := 0) (dR := 1); eauto; cbn [orc]; try lia; ev_simpl.
  - (* free *)
    destruct (sm_get s k) as [ob|] eqn:Hg; [|discriminate].
    destruct (orc ob =? 0) eqn:Ez; [|discriminate]. apply N.eqb_eq in Ez.
    inversion Hstep; subst m'; clear Hstep. rewrite get_set_store_same.
    destruct HIw as [Hwf Hs Hn Hb Hfr Hl].
    assert (Hother : forall k', k' <> k -> sm_get (fst (sm_remove s k)) k' = sm_get s k')
      by (intros; eapply remove_get_other; eauto).
    assert (Hgone : sm_get (fst (sm_remove s k)) k = None) by (eapply remove_get_same; eauto).
    set (e := {| e_store := w; e_op := EFree; e_key := k; e_rc := rc |}).
    assert (Hoth : forall o k', k' <> k -> cnt w o k' e = 0) by (intros; apply cnt_other_key; assumption).
    assert (HcA : cnt w EAlloc k e = 0) by (subst e; ev_simpl).
    assert (HcT : cnt w ERetain k e = 0) by (subst e; ev_simpl).
    assert (HcR : cnt w ERelease k e = 0) by (subst e; ev_simpl).
    assert (HcF : cnt w EFree k e = 1) by (subst e; ev_simpl).
    constructor.
    + eapply remove_wf; eauto.
    + intros k' o Hg'. rewrite !count_key_snoc. destruct (key_eqb k' k) eqn:E.
      * apply key_eqb_eq in E; subst k'. congruence.
      * apply key_eqb_neq in E. rewrite Hother in Hg' by assumption. rewrite !Hoth by assumption.
        destruct (Hs _ _ Hg') as (H1 & H2 & H3). lia.
    + intros k' Hg'. rewrite !count_key_snoc. destruct (key_eqb k' k) eqn:E.
      * apply key_eqb_eq in E; subst k'. rewrite HcA, HcT, HcR, HcF.
        destruct (Hs _ _ Hg) as (H1 & H2 & H3). lia.
      * apply key_eqb_neq in E. rewrite Hother in Hg' by assumption. rewrite !Hoth by assumption.
        destruct (Hn _ Hg') as (H1 & H2 & H3). lia.
    + intros k' Hk1. rewrite count_key_snoc in Hk1. apply remove_bound_mono. apply Hb.
      destruct (key_eqb k' k) eqn:E.
      * apply key_eqb_eq in E; subst k'. rewrite HcA in Hk1. lia.
      * apply key_eqb_neq in E. rewrite Hoth in Hk1 by assumption. lia.
    + intros k' Hk1. rewrite count_key_snoc in Hk1. destruct (key_eqb k' k) eqn:E.
      * apply key_eqb_eq in E; subst k'. eapply remove_stale_self; eauto.
      * apply key_eqb_neq in E. rewrite Hoth in Hk1 by assumption. apply remove_stale_mono. apply Hfr. lia.
    + rewrite !count_op_snoc.
      assert (H1 : cnt_op w EAlloc e = 0) by (subst e; ev_simpl).
      assert (H2 : cnt_op w EFree e = 1) by (subst e; ev_simpl).
      rewrite H1, H2. pose proof (remove_len _ _ _ Hwf Hg). lia.
  - (* use *)
    destruct (sm_get s k) as [ob|] eqn:Hg; [|discriminate].
    destruct ((1 <=? orc ob) && orc_eqb rc (orc ob)); [|discriminate]. inversion Hstep; subst m'.
    apply sinv_keep; auto; intros; ev_simpl; destruct o; ev_simpl.
  - (* probe *)
    destruct (sm_get s k) as [ob|] eqn:Hg; destruct rc as [r|]; try discriminate.
    + destruct (r =? orc ob); [|discriminate]. inversion Hstep; subst m'.
      apply sinv_keep; auto; intros; ev_simpl; destruct o; ev_simpl.
    + destruct (stale s k); [discriminate|]. inversion Hstep; subst m'.
      apply sinv_keep; auto; intros; ev_simpl; destruct o; ev_simpl.
  - (* close *)
    destruct (sm_get s k) as [ob|] eqn:Hg; [|discriminate].
    destruct ((1 <=? orc ob) && orc_eqb rc (orc ob)) eqn:Ec; [|discriminate].
    inversion Hstep; subst m'; clear Hstep. rewrite get_set_store_same.
    eapply sinv_set with (dT := 0) (dR := 0); eauto; cbn [orc]; try lia; ev_simpl.
  - (* ref *)
    inversion Hstep; subst m'. apply sinv_keep; auto; intros; ev_simpl; destruct o; ev_simpl.
  - (* mark *)
    inversion Hstep; subst m'. apply sinv_keep; auto; intros; ev_simpl; destruct o; ev_simpl.
Qed.

Lemma mrun_app : forall a b m, mrun m (a ++ b) = match mrun m a with Some m1 => mrun m1 b | None => None end.
Proof.
  induction a as [|e r IH]; intros b m; cbn [mrun app]; [reflexivity|].
  destruct (mstep m e); [apply IH|reflexivity].
Qed.

Lemma mrun_inv : forall tr m tr0 m', MInv m tr0 -> mrun m tr = Some m' -> MInv m' (tr0 ++ tr).
Proof.
  induction tr as [|e r IH]; intros m tr0 m' HI Hrun; cbn [mrun] in Hrun.
  - inversion Hrun; subst. rewrite app_nil_r; assumption.
  - destruct (mstep m e) as [m1|] eqn:Hst; [|discriminate].
    pose proof (mstep_inv _ _ _ _ HI Hst) as HI1. specialize (IH _ _ _ HI1 Hrun).
    rewrite <- app_assoc in IH. exact IH.
Qed.

(* a dereferencing event is only accepted on a present key *)
Lemma mstep_touch_present : forall m e m', mstep m e = Some m' -> touches e = true ->
  exists o, sm_get (get_store m (e_store e)) (e_key e) = Some o /\ (e_op e <> EFree -> 1 <= orc o)
            /\ (e_op e = EFree -> orc o = 0).
Proof.
  intros m [st op k rc] m' Hstep Ht. unfold touches in Ht. unfold mstep in Hstep.
  cbn [e_store e_op e_key e_rc] in *.
  destruct op; try discriminate;
    (destruct (sm_get (get_store m st) k) as [ob|] eqn:Hg; [|discriminate]); exists ob; split; auto.
  - destruct (1 <=? orc ob) eqn:E; [|discriminate]. apply N.leb_le in E. split; [auto|discriminate].
  - destruct (1 <=? orc ob) eqn:E; [|discriminate]. apply N.leb_le in E. split; [auto|discriminate].
  - destruct (orc ob =? 0) eqn:E; [|discriminate]. apply N.eqb_eq in E. split; [congruence|auto].
  - destruct (1 <=? orc ob) eqn:E; [|discriminate]. apply N.leb_le in E. split; [auto|discriminate].
  - destruct (1 <=? orc ob) eqn:E; [|discriminate]. apply N.leb_le in E. split; [auto|discriminate].
Qed.

Lemma settled_store : forall m w k o, settled m = true -> sm_get (get_store m w) k = Some o -> 1 <= orc o.
Proof.
  intros m w k o Hs Hg. unfold settled in Hs. apply andb_true_iff in Hs. destruct Hs as [Hc Hh].
  destruct (get_occupied _ _ _ Hg) as (sl & Hsl & _ & Hv).
  rewrite slot_at_eq in Hsl.
  assert (Hin : In sl (slots (get_store m w))) by (eapply nth_error_In; exact Hsl).
  assert (Hall : forallb slot_settled (slots (get_store m w)) = true) by (destruct w; assumption).
  rewrite forallb_forall in Hall. specialize (Hall _ Hin). unfold slot_settled in Hall. rewrite Hv in Hall.
  apply N.leb_le in Hall; assumption.
Qed.

(* ---- C12_no_uaf_balanced ---- *)
Theorem no_uaf_balanced : forall tr, balanced tr = true ->
  (forall tr1 e tr2, tr = tr1 ++ e :: tr2 -> touches e = true ->
     exists m1, mrun mach_new tr1 = Some m1
       /\ live m1 (e_store e) (e_key e) = true
       /\ count_key (e_store e) EFree (e_key e) tr1 = 0
       /\ (e_op e <> EFree ->
           count_key (e_store e) ERelease (e_key e) tr1
           < count_key (e_store e) EAlloc (e_key e) tr1 + count_key (e_store e) ERetain (e_key e) tr1))
  /\ (forall tr1 e tr2, tr = tr1 ++ e :: tr2 -> e_op e = EProbe ->
        count_key (e_store e) EFree (e_key e) tr1 = 0)
  /\ (forall tr1 tr2 w k, tr = tr1 ++ tr2 ->
        count_key w ERelease k tr1 <= count_key w EAlloc k tr1 + count_key w ERetain k tr1
        /\ count_key w EAlloc k tr1 <= 1)
  /\ exists m, mrun mach_new tr = Some m
       /\ (forall w k, live m w k = true <->
             count_key w ERelease k tr < count_key w EAlloc k tr + count_key w ERetain k tr)
       /\ (forall w, live_count m w + count_op w EFree tr = count_op w EAlloc tr).
Proof.
  intros tr Hb. unfold balanced, balanced_from in Hb.
  destruct (mrun mach_new tr) as [m|] eqn:Hrun; [|discriminate].
  split; [|split; [|split]].
  - intros tr1 e tr2 -> Ht. rewrite mrun_app in Hrun.
    destruct (mrun mach_new tr1) as [m1|] eqn:H1; [|discriminate]. cbn [mrun] in Hrun.
    destruct (mstep m1 e) as [m2|] eqn:H2; [|discriminate].
    exists m1. split; [reflexivity|].
    destruct (mstep_touch_present _ _ _ H2 Ht) as (o & Hg & Hpos & _).
    pose proof (mrun_inv _ _ _ _ minv_new H1) as HI. cbn [app] in HI.
    destruct (si_some _ _ _ (minv_store _ _ (e_store e) HI) _ _ Hg) as (Hc & HA & HF).
    unfold live. rewrite Hg. repeat split; auto.
    intros Hne. specialize (Hpos Hne). lia.
  - intros tr1 e tr2 -> Hp. rewrite mrun_app in Hrun.
    destruct (mrun mach_new tr1) as [m1|] eqn:H1; [|discriminate]. cbn [mrun] in Hrun.
    destruct (mstep m1 e) as [m2|] eqn:H2; [|discriminate].
    pose proof (mrun_inv _ _ _ _ minv_new H1) as HI. cbn [app] in HI.
    pose proof (minv_store _ _ (e_store e) HI) as HIw.
    destruct e as [st op k rc]. cbn [e_store e_op e_key] in *. subst op.
    unfold mstep in H2. cbn [e_store e_op e_key e_rc] in H2.
    destruct (sm_get (get_store m1 st) k) as [o|] eqn:Hg.
    + destruct (si_some _ _ _ HIw _ _ Hg) as (_ & _ & HF). exact HF.
    + destruct rc; [discriminate|]. destruct (stale (get_store m1 st) k) eqn:Est; [discriminate|].
      destruct (N.eq_dec (count_key st EFree k tr1) 0) as [|Hnz]; [assumption|].
      exfalso. assert (Hst : stale (get_store m1 st) k = true) by (apply (si_freed _ _ _ HIw); lia). congruence.
  - intros tr1 tr2 w k ->. rewrite mrun_app in Hrun.
    destruct (mrun mach_new tr1) as [m1|] eqn:H1; [|discriminate].
    pose proof (mrun_inv _ _ _ _ minv_new H1) as HI. cbn [app] in HI.
    pose proof (minv_store _ _ w HI) as HIw.
    destruct (sm_get (get_store m1 w) k) as [o|] eqn:Hg.
    + destruct (si_some _ _ _ HIw _ _ Hg) as (Hc & HA & _). lia.
    + destruct (si_none _ _ _ HIw _ Hg) as (Hc & _ & HA). lia.
  - exists m. split; [reflexivity|].
    pose proof (mrun_inv _ _ _ _ minv_new Hrun) as HI. cbn [app] in HI. split.
    + intros w k. pose proof (minv_store _ _ w HI) as HIw. unfold live.
      destruct (sm_get (get_store m w) k) as [o|] eqn:Hg.
      * destruct (si_some _ _ _ HIw _ _ Hg) as (Hc & _). pose proof (settled_store _ _ _ _ Hb Hg).
        split; [intros _; lia|reflexivity].
      * destruct (si_none _ _ _ HIw _ Hg) as (Hc & _). split; [discriminate|lia].
    + intros w. exact (si_len _ _ _ (minv_store _ _ w HI)).
Qed.

(* accounting identity for any accepted trace, from any accepted prefix *)
Lemma live_count_accounting : forall tr m, mrun mach_new tr = Some m ->
  forall w, live_count m w + count_op w EFree tr = count_op w EAlloc tr.
Proof.
  intros tr m Hrun w. pose proof (mrun_inv _ _ _ _ minv_new Hrun) as HI. cbn [app] in HI.
  exact (si_len _ _ _ (minv_store _ _ w HI)).
Qed.

Lemma mrun_prefix : forall a b m, mrun mach_new (a ++ b) = Some m -> exists m1, mrun mach_new a = Some m1.
Proof. intros a b m H. rewrite mrun_app in H. destruct (mrun mach_new a); [eauto|discriminate]. Qed.

Lemma firstn_concat_prefix : forall (A : Type) (ps : list (list A)) i,
  exists rest, concat ps = concat (firstn i ps) ++ rest.
Proof.
  intros A ps i. exists (concat (skipn i ps)). rewrite <- concat_app, firstn_skipn; reflexivity.
Qed.

(* ---- C12_steady_state_partial ---- *)
Theorem steady_state : forall (prefix : list event) (periods : list (list event)),
  balanced (prefix ++ concat periods) = true ->
  (forall p w, In p periods -> count_op w EAlloc p = count_op w EFree p) ->
  forall i w, exists m0 mi,
    mrun mach_new prefix = Some m0
    /\ mrun mach_new (prefix ++ concat (firstn i periods)) = Some mi
    /\ live_count mi w = live_count m0 w.
Proof.
  intros prefix periods Hb Hnet i w. unfold balanced, balanced_from in Hb.
  destruct (mrun mach_new (prefix ++ concat periods)) as [m|] eqn:Hrun; [|discriminate].
  destruct (firstn_concat_prefix _ periods i) as [rest Hrest].
  rewrite Hrest, app_assoc in Hrun.
  destruct (mrun_prefix _ _ _ Hrun) as [mi Hmi].
  destruct (mrun_prefix _ _ _ Hmi) as [m0 Hm0].
  exists m0, mi. repeat split; auto.
  pose proof (live_count_accounting _ _ Hmi w) as Hi.
  pose proof (live_count_accounting _ _ Hm0 w) as H0.
  rewrite !count_op_app in Hi.
  assert (Hper : count_op w EAlloc (concat (firstn i periods)) = count_op w EFree (concat (firstn i periods))).
  { assert (Hsub : forall p, In p (firstn i periods) -> In p periods).
    { intros p Hin. rewrite <- (firstn_skipn i periods). apply in_or_app; left; assumption. }
    clear - Hnet Hsub. induction (firstn i periods) as [|p r IH]; cbn [concat]; [reflexivity|].
    rewrite !count_op_app. rewrite IH by (intros; apply Hsub; right; assumption).
    rewrite (Hnet p w) by (apply Hsub; left; reflexivity). reflexivity. }
  lia.
Qed.
