(* RustRt/Agree.v — the template's state primitives (RustRt/Model.v) compute what the cursor machine's primitives
   (Lmmm/Machine.v: do_push do_pop get1 set1 mem1 delay1) compute: same result word, same storage words, same cursor. *)
From Coq Require Import List ZArith NArith Bool Lia.
From Mimium Require Import Tables.RustrtTemplate Lmmm.Machine RustRt.Model.
Import ListNotations.

(* the template's view of a machine state (the access trace is the machine's own bookkeeping) *)
Definition ss_of (m : mstate) : sstorage := mkSS (m_pos m) (m_words m).

(* the same operation on the cursor machine *)
Definition m_step (d : disc) (op : sop) (m : mstate) : option (Z * mstate) :=
  match op with
  | OpPush o => Some (0%Z, do_push o m)
  | OpPop o => match do_pop d o m with Some m' => Some (0%Z, m') | None => None end
  | OpGet => get1 d m
  | OpSet v => match set1 d v m with Some m' => Some (0%Z, m') | None => None end
  | OpMem v => mem1 d v m
  | OpDelay n x t => delay1 d n x t m
  end.

(* words the operation may touch beyond the cursor: no usize wrap-around (2^64 words of state do not exist) *)
Definition op_extent (op : sop) : N :=
  match op with
  | OpPush o => o
  | OpPop _ => 0
  | OpGet | OpSet _ | OpMem _ => 1
  | OpDelay n _ _ => n + 2
  end.
Definition fits (op : sop) (m : mstate) : Prop := (m_pos m + op_extent op <= USIZE_MAX)%N.
Definition fitsb (op : sop) (m : mstate) : bool := (m_pos m + op_extent op <=? USIZE_MAX)%N.

Fixpoint m_run (d : disc) (ops : list sop) (m : mstate) : option (list Z * mstate) :=
  match ops with
  | [] => Some ([], m)
  | op :: rest =>
      if fitsb op m then
        match m_step d op m with
        | Some (v, m1) =>
            match m_run d rest m1 with
            | Some (vs, m2) => Some (v :: vs, m2)
            | None => None
            end
        | None => None
        end
      else None
  end.

(* ---------------------------------------------------------------------------------------------- *)
Lemma upd_set_nth : forall l i v, upd l i v = set_nth l i v.
Proof. induction l as [|x l IH]; intros [|i] v; cbn; try reflexivity; now rewrite IH. Qed.

Lemma hd_firstn1_skipn : forall (l : list Z) n d, hd d (firstn 1 (skipn n l)) = nth n l d.
Proof.
  intros l n; revert l; induction n as [|n IH]; intros [|x l] d; cbn; try reflexivity.
  apply IH.
Qed.

Lemma firstn1_skipn_nth : forall (l : list Z) k, (k < length l)%nat -> firstn 1 (skipn k l) = [nth k l 0%Z].
Proof.
  induction l as [|x l IH]; intros [|k] Hk; cbn in *; try lia; try reflexivity.
  apply IH. lia.
Qed.

Lemma sat_add_small : forall a b, (a + b <= USIZE_MAX)%N -> sat_add a b = (a + b)%N.
Proof. intros a b H. unfold sat_add. now apply N.min_l. Qed.

Lemma ss_of_tr : forall k p s m, ss_of (tr k p s m) = ss_of m.
Proof. reflexivity. Qed.

Lemma ss_of_wr : forall m i v, ss_of (wr m i v) = ss_wr (ss_of m) i v.
Proof. reflexivity. Qed.

Lemma ss_rd_of : forall m i, ss_rd (ss_of m) i = rd m i.
Proof. reflexivity. Qed.

(* ensure: the VM discipline succeeds only when the template's ensure is the identity *)
Lemma ensure_vm_some : forall need m m', ensure VmD need m = Some m' -> m' = m /\ (need <= N.of_nat (length (m_words m)))%N.
Proof.
  intros need m m' H. unfold ensure in H.
  destruct (need <=? N.of_nat (length (m_words m)))%N eqn:E; [|discriminate].
  inversion H; subst. split; [reflexivity|]. now apply N.leb_le.
Qed.

Lemma ss_ensure_id : forall size s,
  (ss_pos s + size <= USIZE_MAX)%N -> (ss_pos s + size <= N.of_nat (length (ss_raw s)))%N -> ss_ensure size s = s.
Proof.
  intros size s Hb Hl. unfold ss_ensure. rewrite sat_add_small by exact Hb.
  destruct (N.of_nat (length (ss_raw s)) <? ss_pos s + size)%N eqn:E; [|reflexivity].
  apply N.ltb_lt in E. lia.
Qed.

(* ensure: the grow-on-demand discipline is the template's ensure *)
Lemma ensure_wasm : forall size m,
  (m_pos m + size <= USIZE_MAX)%N ->
  exists m', ensure WasmD (m_pos m + size) m = Some m' /\ ss_of m' = ss_ensure size (ss_of m) /\
             m_pos m' = m_pos m /\ (m_pos m + size <= N.of_nat (length (m_words m')))%N.
Proof.
  intros size m Hb. unfold ensure, ss_ensure, ss_of; cbn [ss_pos ss_raw].
  rewrite sat_add_small by exact Hb.
  destruct (m_pos m + size <=? N.of_nat (length (m_words m)))%N eqn:E.
  - apply N.leb_le in E.
    destruct (N.of_nat (length (m_words m)) <? m_pos m + size)%N eqn:E2; [apply N.ltb_lt in E2; lia|].
    eexists; repeat split. exact E.
  - apply N.leb_gt in E.
    destruct (N.of_nat (length (m_words m)) <? m_pos m + size)%N eqn:E2; [|apply N.ltb_ge in E2; lia].
    eexists; repeat split. cbn [m_words]. rewrite app_length, repeat_length. lia.
Qed.

(* ---------------------------------------------------------------------------------------------- *)
(* per primitive, VM discipline *)
Lemma push_agree : forall o m, fits (OpPush o) m -> ss_push_pos o (ss_of m) = ss_of (do_push o m).
Proof.
  intros o m H. unfold fits, op_extent in H. unfold ss_push_pos, do_push, ss_of; cbn.
  now rewrite sat_add_small.
Qed.

Lemma pop_agree_vm : forall k m m', do_pop VmD k m = Some m' -> ss_pop_pos k (ss_of m) = ss_of m'.
Proof.
  intros k m m' H. unfold do_pop in H; cbn in H.
  destruct (k <=? m_pos m)%N; [|discriminate]. inversion H; subst. reflexivity.
Qed.

Lemma get_agree_vm : forall m v m', fits OpGet m -> get1 VmD m = Some (v, m') ->
  ss_get_state 1 (ss_of m) = ([v], ss_of m').
Proof.
  intros m v m' Hf H. unfold get1 in H.
  destruct (ensure VmD (m_pos (tr 0 (m_pos m) 1 m) + 1) (tr 0 (m_pos m) 1 m)) as [m1|] eqn:E; [|discriminate].
  apply ensure_vm_some in E. destruct E as [-> Hl]. inversion H; subst; clear H.
  unfold ss_get_state. rewrite ss_of_tr. cbn [m_pos tr m_words] in Hl.
  rewrite ss_ensure_id; [| exact Hf | exact Hl].
  f_equal. unfold ss_of, rd; cbn [ss_pos ss_raw m_pos m_words tr].
  apply firstn1_skipn_nth. lia.
Qed.

Lemma set_agree_vm : forall m v m', fits (OpSet v) m -> set1 VmD v m = Some m' ->
  ss_set_state [v] 1 (ss_of m) = Some (ss_of m').
Proof.
  intros m v m' Hf H. unfold set1 in H.
  destruct (ensure VmD (m_pos (tr 1 (m_pos m) 1 m) + 1) (tr 1 (m_pos m) 1 m)) as [m1|] eqn:E; [|discriminate].
  apply ensure_vm_some in E. destruct E as [-> Hl]. inversion H; subst; clear H.
  unfold ss_set_state. cbn [m_pos tr m_words] in Hl.
  rewrite ss_ensure_id; [| exact Hf | exact Hl].
  cbn. reflexivity.
Qed.

Lemma mem_agree_vm : forall m v r m', fits (OpMem v) m -> mem1 VmD v m = Some (r, m') ->
  ss_mem v (ss_of m) = (r, ss_of m').
Proof.
  intros m v r m' Hf H. unfold mem1 in H.
  set (m0 := tr 1 (m_pos m) 1 (tr 1 (m_pos m) 1 m)) in *.
  destruct (ensure VmD (m_pos m0 + 1) m0) as [m1|] eqn:E; [|discriminate].
  apply ensure_vm_some in E. destruct E as [-> Hl]. inversion H; subst; clear H.
  unfold ss_mem. cbn [m_pos tr m_words m0] in Hl.
  rewrite ss_ensure_id; [| exact Hf | exact Hl].
  rewrite ss_of_wr. reflexivity.
Qed.

Lemma clamp_time_clampZ : forall t n, (n <> 0)%N -> clamp_time t n = clampZ t 0 (Z.of_N n - 1).
Proof.
  intros t n Hn. unfold clamp_time, clampZ, sat_sub.
  rewrite N2Z.inj_sub by lia. reflexivity.
Qed.

(* the ring-buffer step on a storage that already holds the cell *)
Lemma delay_body_agree : forall n x t m,
  (n <> 0)%N ->
  let p := m_pos m in
  let len := Z.of_N n in
  let dl := clampZ t 0 (len - 1) in
  let w := ((rd m (p + 1)) mod len)%Z in
  let r := ((w + len - dl) mod len)%Z in
  ss_of (wr (wr (wr m (p + 2 + Z.to_N w) x) p r) (p + 1) ((w + 1) mod len)%Z)
  = ss_wr (ss_wr (ss_wr (ss_of m) (p + TPL_DATA_START + Z.to_N w) x) (p + TPL_READ_SLOT) r) (p + TPL_WRITE_SLOT) ((w + 1) mod len)%Z.
Proof.
  intros. rewrite !ss_of_wr. unfold TPL_DATA_START, TPL_READ_SLOT, TPL_WRITE_SLOT.
  now rewrite N.add_0_r.
Qed.

Lemma delay_agree_vm : forall n x t m r m', fits (OpDelay n x t) m -> delay1 VmD n x t m = Some (r, m') ->
  ss_delay x t n (ss_of m) = (r, ss_of m').
Proof.
  intros n x t m r m' Hf H. unfold fits, op_extent in Hf. unfold delay1 in H.
  set (m0 := tr 2 (m_pos m) (n + 2) m) in *.
  assert (Hm0 : ss_of m0 = ss_of m) by reflexivity.
  unfold ss_delay. unfold TPL_DELAY_HEADER.
  destruct (N.eqb n 0) eqn:En.
  - apply N.eqb_eq in En; subst n.
    destruct (ensure VmD (m_pos m0 + 2) m0) as [m1|] eqn:E; [|discriminate].
    apply ensure_vm_some in E. destruct E as [-> Hl]. inversion H; subst; clear H.
    rewrite sat_add_small by (cbn; lia). cbn [N.add].
    rewrite ss_ensure_id; [reflexivity | cbn [ss_of ss_pos]; lia | exact Hl].
  - apply N.eqb_neq in En.
    destruct (ensure VmD (m_pos m0 + 2 + n) m0) as [m1|] eqn:E; [|discriminate].
    apply ensure_vm_some in E. destruct E as [-> Hl]. inversion H; subst; clear H.
    rewrite sat_add_small by lia.
    rewrite ss_ensure_id; [| cbn [ss_of ss_pos]; lia | cbn [ss_of ss_pos ss_raw]; cbn [m_pos m_words m0 tr] in Hl; lia].
    rewrite clamp_time_clampZ by exact En.
    rewrite <- Hm0.
    cbn [ss_pos ss_of].
    rewrite !ss_rd_of.
    unfold TPL_DATA_START, TPL_READ_SLOT, TPL_WRITE_SLOT. rewrite N.add_0_r.
    reflexivity.
Qed.

(* one primitive, VM discipline: wherever the VM's access is defined, the template computes the same *)
Lemma step_agree_vm : forall op m r m',
  fits op m -> m_step VmD op m = Some (r, m') -> ss_step op (ss_of m) = Some (r, ss_of m').
Proof.
  intros op m r m' Hf H. destruct op as [o|o| |v|v|n x t]; cbn [m_step ss_step] in *.
  - inversion H; subst. now rewrite push_agree.
  - destruct (do_pop VmD o m) as [m1|] eqn:E; [|discriminate]. inversion H; subst.
    now rewrite (pop_agree_vm _ _ _ E).
  - rewrite (get_agree_vm _ _ _ Hf H). reflexivity.
  - destruct (set1 VmD v m) as [m1|] eqn:E; [|discriminate]. inversion H; subst.
    now rewrite (set_agree_vm _ _ _ Hf E).
  - now rewrite (mem_agree_vm _ _ _ _ Hf H).
  - now rewrite (delay_agree_vm _ _ _ _ _ _ Hf H).
Qed.

(* whole operation sequences *)
Lemma run_agree_vm : forall ops m rs m',
  m_run VmD ops m = Some (rs, m') -> ss_run ops (ss_of m) = (rs, ss_of m').
Proof.
  induction ops as [|op ops IH]; intros m rs m' H; cbn [m_run ss_run] in *.
  - inversion H; subst. reflexivity.
  - destruct (fitsb op m) eqn:Ef; [|discriminate].
    assert (Hf : fits op m) by (now apply N.leb_le in Ef).
    destruct (m_step VmD op m) as [[v m1]|] eqn:Es; [|discriminate].
    destruct (m_run VmD ops m1) as [[vs m2]|] eqn:Er; [|discriminate].
    inversion H; subst; clear H.
    rewrite (step_agree_vm _ _ _ _ Hf Es). rewrite (IH _ _ _ Er). reflexivity.
Qed.

(* ---------------------------------------------------------------------------------------------- *)
(* grow-on-demand discipline (the WASM host's): defined everywhere, and equal to the template *)
Definition nonzero_delay (op : sop) : Prop := match op with OpDelay n _ _ => n <> 0%N | _ => True end.

Lemma pop_agree_wasm : forall k m, exists m', do_pop WasmD k m = Some m' /\ ss_pop_pos k (ss_of m) = ss_of m'.
Proof.
  intros k m. unfold do_pop; cbn. destruct (k <=? m_pos m)%N eqn:E.
  - eexists; split; reflexivity.
  - apply N.leb_gt in E. eexists; split; [reflexivity|].
    unfold ss_pop_pos, sat_sub, ss_of; cbn. f_equal. lia.
Qed.

Lemma step_agree_wasm : forall op m,
  fits op m -> nonzero_delay op ->
  exists r m', m_step WasmD op m = Some (r, m') /\ ss_step op (ss_of m) = Some (r, ss_of m').
Proof.
  intros op m Hf Hnz. destruct op as [o|o| |v|v|n x t]; cbn [m_step ss_step].
  - do 2 eexists; split; [reflexivity|]. now rewrite push_agree.
  - destruct (pop_agree_wasm o m) as [m' [E1 E2]]. rewrite E1. do 2 eexists; split; [reflexivity|]. now rewrite E2.
  - unfold get1. set (m0 := tr 0 (m_pos m) 1 m).
    destruct (ensure_wasm 1 m0 Hf) as [m1 [E1 [E2 [Hp Hl]]]]. rewrite E1.
    do 2 eexists; split; [reflexivity|].
    unfold ss_get_state. change (ss_of m) with (ss_of m0). rewrite <- E2.
    cbn [ss_of ss_pos ss_raw]. unfold rd.
    rewrite firstn1_skipn_nth by (rewrite Hp; lia). reflexivity.
  - unfold set1. set (m0 := tr 1 (m_pos m) 1 m).
    destruct (ensure_wasm 1 m0 Hf) as [m1 [E1 [E2 _]]]. rewrite E1.
    do 2 eexists; split; [reflexivity|].
    unfold ss_set_state. change (ss_of m) with (ss_of m0). rewrite <- E2.
    cbn. reflexivity.
  - unfold mem1. set (m0 := tr 1 (m_pos m) 1 (tr 1 (m_pos m) 1 m)).
    destruct (ensure_wasm 1 m0 Hf) as [m1 [E1 [E2 _]]]. rewrite E1.
    do 2 eexists; split; [reflexivity|].
    unfold ss_mem. change (ss_of m) with (ss_of m0). rewrite <- E2.
    reflexivity.
  - cbn in Hnz. unfold fits, op_extent in Hf. unfold delay1. set (m0 := tr 2 (m_pos m) (n + 2) m).
    destruct (N.eqb n 0) eqn:En; [apply N.eqb_eq in En; contradiction|].
    assert (Hf' : (m_pos m0 + (2 + n) <= USIZE_MAX)%N) by (cbn [m_pos m0 tr]; lia).
    destruct (ensure_wasm (2 + n) m0 Hf') as [m1 [E1 [E2 _]]].
    rewrite N.add_assoc in E1. rewrite E1.
    do 2 eexists; split; [reflexivity|].
    unfold ss_delay, TPL_DELAY_HEADER. rewrite sat_add_small by lia.
    change (ss_of m) with (ss_of m0). rewrite (N.add_comm n 2). rewrite <- E2. rewrite En.
    rewrite clamp_time_clampZ by exact Hnz.
    cbn [ss_pos ss_of]. rewrite !ss_rd_of.
    unfold TPL_DATA_START, TPL_READ_SLOT, TPL_WRITE_SLOT. rewrite N.add_0_r.
    reflexivity.
Qed.

(* satisfiability: a run that pushes, reads/writes a feed cell, a mem cell and a 3-sample ring buffer *)
Definition ex_ops : list sop :=
  [OpGet; OpPush 1; OpMem 5; OpPush 1; OpDelay 3 7 1; OpDelay 3 8 1; OpPop 2; OpSet 9; OpGet].
Definition ex_m : mstate := mkM (repeat 0%Z 7) 0%N [].

Lemma ex_run_vm : option_map fst (m_run VmD ex_ops ex_m) = Some [0; 0; 0; 0; 0; 7; 0; 0; 9]%Z.
Proof. vm_compute. reflexivity. Qed.

Lemma ex_run_tpl : fst (ss_run ex_ops (ss_of ex_m)) = [0; 0; 0; 0; 0; 7; 0; 0; 9]%Z
                   /\ ss_raw (snd (ss_run ex_ops (ss_of ex_m))) = [9; 5; 0; 2; 7; 8; 0]%Z.
Proof. vm_compute. split; reflexivity. Qed.
