(* RustRt/Model.v — executable transcription of the state primitives of the runtime scaffold that rustgen embeds in every
   generated program: compiler/mimium_placeholder.rs.template, `struct StateStorage` and `impl StateStorage`.
   Definitions only. translators/rustrt_template.py pins the template text this file was transcribed from (any edit of a
   primitive makes the translator raise) and supplies the ring-buffer layout numbers (Tables/RustrtTemplate.v).

   Abstraction (the same one Lmmm/Machine.v uses for the VM): a state word is a Z — data words stand for the
   integer-valued f64 they hold, the two ring-buffer index words are raw integers; `usize` is N with saturation at 2^64-1. *)
From Coq Require Import List ZArith NArith Bool.
From Mimium Require Import Tables.RustrtTemplate.
Import ListNotations.

Definition USIZE_MAX : N := 18446744073709551615%N.

(* usize::saturating_add / saturating_sub *)
Definition sat_add (a b : N) : N := N.min (a + b) USIZE_MAX.
Definition sat_sub (a b : N) : N := (a - b)%N.

(* struct StateStorage { pos: usize, rawdata: Vec<Word> } *)
Record sstorage := mkSS { ss_pos : N; ss_raw : list Z }.

(* fn new(size) -> Self { pos: 0, rawdata: vec![0; size] } *)
Definition ss_new (size : N) : sstorage := mkSS 0%N (repeat 0%Z (N.to_nat size)).

(* self.rawdata[i] / self.rawdata[i] = v  (in-range by construction after `ensure`; out of range reads 0 / writes nothing
   here, where Rust would panic — the theorems only use in-range indices) *)
Definition ss_rd (s : sstorage) (i : N) : Z := nth (N.to_nat i) (ss_raw s) 0%Z.
Fixpoint upd (l : list Z) (i : nat) (v : Z) : list Z :=
  match l, i with
  | [], _ => []
  | _ :: l', O => v :: l'
  | x :: l', S i' => x :: upd l' i' v
  end.
Definition ss_wr (s : sstorage) (i : N) (v : Z) : sstorage := mkSS (ss_pos s) (upd (ss_raw s) (N.to_nat i) v).

(* fn ensure(&mut self, size): let needed = self.pos.saturating_add(size);
   if self.rawdata.len() < needed { self.rawdata.resize(needed, 0) } *)
Definition ss_ensure (size : N) (s : sstorage) : sstorage :=
  let needed := sat_add (ss_pos s) size in
  if (N.of_nat (length (ss_raw s)) <? needed)%N
  then mkSS (ss_pos s) (ss_raw s ++ repeat 0%Z (N.to_nat needed - length (ss_raw s)))
  else s.

(* fn push_pos(&mut self, offset) { self.pos = self.pos.saturating_add(offset) } *)
Definition ss_push_pos (offset : N) (s : sstorage) : sstorage := mkSS (sat_add (ss_pos s) offset) (ss_raw s).

(* fn pop_pos(&mut self, offset) { self.pos = self.pos.saturating_sub(offset) } *)
Definition ss_pop_pos (offset : N) (s : sstorage) : sstorage := mkSS (sat_sub (ss_pos s) offset) (ss_raw s).

(* fn get_state(&mut self, size) -> Vec<Word> { self.ensure(size); self.rawdata[self.pos..self.pos + size].to_vec() } *)
Definition ss_get_state (size : N) (s : sstorage) : list Z * sstorage :=
  let s := ss_ensure size s in
  (firstn (N.to_nat size) (skipn (N.to_nat (ss_pos s)) (ss_raw s)), s).

(* fn set_state(&mut self, src: &[Word], size) { self.ensure(size);
   self.rawdata[self.pos..self.pos + size].copy_from_slice(&src[..size]) }     (&src[..size] panics when src is shorter: None) *)
Fixpoint write_at (l : list Z) (i : nat) (src : list Z) : list Z :=
  match src with
  | [] => l
  | v :: src' => write_at (upd l i v) (S i) src'
  end.
Definition ss_set_state (src : list Z) (size : N) (s : sstorage) : option sstorage :=
  let s := ss_ensure size s in
  if (N.of_nat (length src) <? size)%N then None
  else Some (mkSS (ss_pos s) (write_at (ss_raw s) (N.to_nat (ss_pos s)) (firstn (N.to_nat size) src))).

(* fn mem(&mut self, src: Word) -> Word { self.ensure(1); let prev = self.rawdata[self.pos];
   self.rawdata[self.pos] = src; prev } *)
Definition ss_mem (src : Z) (s : sstorage) : Z * sstorage :=
  let s := ss_ensure 1 s in
  let prev := ss_rd s (ss_pos s) in
  (prev, ss_wr s (ss_pos s) src).

(* word_to_f64(time_raw).clamp(0.0, max_len.saturating_sub(1) as f64) as usize, on an integer-valued time *)
Definition clamp_time (t : Z) (max_len : N) : Z := Z.max 0 (Z.min t (Z.of_N (sat_sub max_len 1))).

(* fn delay(&mut self, input: Word, time_raw: Word, max_len: usize) -> Word *)
Definition ss_delay (input t : Z) (max_len : N) (s : sstorage) : Z * sstorage :=
  let total_words := sat_add max_len TPL_DELAY_HEADER in
  let s := ss_ensure total_words s in
  if N.eqb max_len 0 then (0%Z, s)
  else
    let delay_samples := clamp_time t max_len in
    let read_slot := (ss_pos s + TPL_READ_SLOT)%N in
    let write_slot := (ss_pos s + TPL_WRITE_SLOT)%N in
    let data_start := (ss_pos s + TPL_DATA_START)%N in
    let len := Z.of_N max_len in
    let write_idx := ((ss_rd s write_slot) mod len)%Z in
    let read_idx := ((write_idx + len - delay_samples) mod len)%Z in
    let result := ss_rd s (data_start + Z.to_N read_idx) in
    let s := ss_wr s (data_start + Z.to_N write_idx) input in
    let s := ss_wr s read_slot read_idx in
    let s := ss_wr s write_slot ((write_idx + 1) mod len)%Z in
    (result, s).

(* one primitive operation of a generated program on its state storage, and its observable result *)
Inductive sop :=
| OpPush (o : N) | OpPop (o : N) | OpGet | OpSet (v : Z) | OpMem (v : Z) | OpDelay (n : N) (x t : Z).

Definition ss_step (op : sop) (s : sstorage) : option (Z * sstorage) :=
  match op with
  | OpPush o => Some (0%Z, ss_push_pos o s)
  | OpPop o => Some (0%Z, ss_pop_pos o s)
  | OpGet => let '(v, s') := ss_get_state 1 s in Some (hd 0%Z v, s')
  | OpSet v => match ss_set_state [v] 1 s with Some s' => Some (0%Z, s') | None => None end
  | OpMem v => Some (ss_mem v s)
  | OpDelay n x t => Some (ss_delay x t n s)
  end.

Fixpoint ss_run (ops : list sop) (s : sstorage) : list Z * sstorage :=
  match ops with
  | [] => ([], s)
  | op :: rest =>
      match ss_step op s with
      | Some (v, s') => let '(vs, s'') := ss_run rest s' in (v :: vs, s'')
      | None => ([], s)
      end
  end.
