use std::panic::{AssertUnwindSafe, catch_unwind};

/// Run `f`, mapping a panic to Err(message).
pub fn guarded<T>(f: impl FnOnce() -> T) -> Result<T, String> {
    match catch_unwind(AssertUnwindSafe(f)) {
        Ok(v) => Ok(v),
        Err(e) => {
            let msg = if let Some(s) = e.downcast_ref::<&str>() {
                s.to_string()
            } else if let Some(s) = e.downcast_ref::<String>() {
                s.clone()
            } else {
                "panic".to_string()
            };
            Err(msg)
        }
    }
}

pub fn quiet_panics() {
    std::panic::set_hook(Box::new(|_| {}));
}

/// f64 as 16 hex digits of its bit pattern; all NaNs folded to one token.
pub fn fbits(x: f64) -> String {
    if x.is_nan() { "NaN".to_string() } else { format!("{:016x}", x.to_bits()) }
}
