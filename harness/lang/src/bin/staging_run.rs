//! Rust side of the C09 / C10 correspondence (see /verif/DESIGN.md, C09 and C10).
//!
//! Line protocol: one JSON object per stdin line, one JSON object per stdout line.
//!
//!  {"m":"ast","prog":"<sexpr>"}
//!      `prog` is a stage-0 program P over the full `Expr` language (Bracket/Escape included), built
//!      node by node from the s-expression (no parser involved).  Answer:
//!      {"st0": sexpr of translate_staging::translate(P), "st1": sexpr of the code value obtained by
//!       compiling st0 and executing it on a fresh VM with the registered combinators | "err": kind}
//!  {"m":"src","src":"...","times":n,"wasm":bool,"expand":bool}
//!      real pipeline on source text: typed input of translate, translate output, expanded AST (all as
//!      s-expressions), the `simple_print` strings logged by the real `compile_with_module_info`
//!      (trace log; cross-check that the replicated stage-0 driver below sees the same ASTs), and the
//!      outputs of `dsp` on the VM (and WASM).
//!  {"m":"lift","bits":["<hex>",...]}
//!      for each f64 bit pattern: the registered `code_lit_f` / `lift_f` / `lift` closures are called on a
//!      real Machine; the produced `Literal::Float(sym)` is parsed back the way mirgen does
//!      (`sym.parse::<f64>()`); answer: bits after the round trip (per route).
use mimium_lang::ast::program::QualifiedPath;
use mimium_lang::ast::{Expr, Literal, MatchArm, MatchPattern, RecordField};
use mimium_lang::compiler::{bytecodegen, mirgen, parser, translate_staging, typing};
use mimium_lang::interner::{ExprNodeId, Symbol, ToSymbol, TypeNodeId};
use mimium_lang::pattern::{Pattern, TypedId, TypedPattern};
use mimium_lang::plugin::{self, MachineFunction};
use mimium_lang::runtime::vm;
use mimium_lang::types::{PType, RecordTypeField, Type};
use mimium_lang::utils::miniprint::MiniPrint;
use mimium_lang::{Config, ExecContext};
use serde_json::{Value as J, json};
use std::cell::RefCell;
use std::io::{BufRead, Write};
use verif_lang::common::fbits;
use verif_lang::common::{guarded, quiet_panics};

// ---------------------------------------------------------------------------------------------
// s-expressions
// ---------------------------------------------------------------------------------------------
#[derive(Debug, Clone)]
enum S {
    A(String),  // atom
    Q(String),  // quoted string
    L(Vec<S>),  // list
}

fn q(s: &str) -> String {
    let mut o = String::with_capacity(s.len() + 2);
    o.push('"');
    for c in s.chars() {
        match c {
            '"' => o.push_str("\\\""),
            '\\' => o.push_str("\\\\"),
            '\n' => o.push_str("\\n"),
            c => o.push(c),
        }
    }
    o.push('"');
    o
}

fn parse_s(src: &str) -> Result<S, String> {
    let cs: Vec<char> = src.chars().collect();
    let mut pos = 0usize;
    fn skip(cs: &[char], pos: &mut usize) {
        while *pos < cs.len() && cs[*pos].is_whitespace() {
            *pos += 1;
        }
    }
    fn go(cs: &[char], pos: &mut usize) -> Result<S, String> {
        skip(cs, pos);
        if *pos >= cs.len() {
            return Err("eof".into());
        }
        match cs[*pos] {
            '(' => {
                *pos += 1;
                let mut v = vec![];
                loop {
                    skip(cs, pos);
                    if *pos >= cs.len() {
                        return Err("eof in list".into());
                    }
                    if cs[*pos] == ')' {
                        *pos += 1;
                        return Ok(S::L(v));
                    }
                    v.push(go(cs, pos)?);
                }
            }
            ')' => Err("unexpected )".into()),
            '"' => {
                *pos += 1;
                let mut s = String::new();
                while *pos < cs.len() && cs[*pos] != '"' {
                    if cs[*pos] == '\\' && *pos + 1 < cs.len() {
                        *pos += 1;
                        s.push(match cs[*pos] {
                            'n' => '\n',
                            c => c,
                        });
                    } else {
                        s.push(cs[*pos]);
                    }
                    *pos += 1;
                }
                *pos += 1;
                Ok(S::Q(s))
            }
            _ => {
                let st = *pos;
                while *pos < cs.len() && !cs[*pos].is_whitespace() && cs[*pos] != '(' && cs[*pos] != ')' {
                    *pos += 1;
                }
                Ok(S::A(cs[st..*pos].iter().collect()))
            }
        }
    }
    let r = go(&cs, &mut pos)?;
    Ok(r)
}

// ---------------------------------------------------------------------------------------------
// types  <->  s-expressions   (structural for the constructors strip_code_type looks at; opaque otherwise)
// ---------------------------------------------------------------------------------------------
fn ser_ty(t: TypeNodeId, o: &mut String) {
    match t.to_type() {
        Type::Code(i) => {
            o.push_str("(tcode ");
            ser_ty(i, o);
            o.push(')');
        }
        Type::Function { arg, ret } => {
            o.push_str("(tfun ");
            ser_ty(arg, o);
            o.push(' ');
            ser_ty(ret, o);
            o.push(')');
        }
        Type::Tuple(es) => {
            o.push_str("(ttuple");
            for e in es {
                o.push(' ');
                ser_ty(e, o);
            }
            o.push(')');
        }
        Type::Record(fs) => {
            o.push_str("(trecord");
            for f in fs {
                o.push_str(" (");
                o.push_str(&q(f.key.as_str()));
                o.push(' ');
                ser_ty(f.ty, o);
                o.push_str(if f.has_default { " #t)" } else { " #f)" });
            }
            o.push(')');
        }
        Type::Array(i) => {
            o.push_str("(tarray ");
            ser_ty(i, o);
            o.push(')');
        }
        Type::Ref(i) => {
            o.push_str("(tref ");
            ser_ty(i, o);
            o.push(')');
        }
        Type::Primitive(PType::Numeric) => o.push_str("(topq \"number\")"),
        Type::Primitive(PType::Int) => o.push_str("(topq \"int\")"),
        Type::Primitive(PType::String) => o.push_str("(topq \"string\")"),
        Type::Primitive(PType::Unit) => o.push_str("(topq \"unit\")"),
        Type::Unknown => o.push_str("(topq \"unknown\")"),
        other => {
            o.push_str("(topq ");
            o.push_str(&q(&format!("{other}")));
            o.push(')');
        }
    }
}

fn build_ty(s: &S) -> Result<TypeNodeId, String> {
    let l = match s {
        S::L(l) if !l.is_empty() => l,
        _ => return Err("bad type".into()),
    };
    let head = match &l[0] {
        S::A(a) => a.as_str(),
        _ => return Err("bad type head".into()),
    };
    Ok(match head {
        "tcode" => Type::Code(build_ty(&l[1])?).into_id(),
        "tfun" => Type::Function { arg: build_ty(&l[1])?, ret: build_ty(&l[2])? }.into_id(),
        "ttuple" => Type::Tuple(l[1..].iter().map(build_ty).collect::<Result<_, _>>()?).into_id(),
        "tarray" => Type::Array(build_ty(&l[1])?).into_id(),
        "tref" => Type::Ref(build_ty(&l[1])?).into_id(),
        "trecord" => {
            let mut fs = vec![];
            for f in &l[1..] {
                if let S::L(f) = f {
                    let key = name_of(&f[0])?;
                    let ty = build_ty(&f[1])?;
                    let has_default = matches!(&f[2], S::A(a) if a == "#t");
                    fs.push(RecordTypeField { key, ty, has_default });
                } else {
                    return Err("bad record type field".into());
                }
            }
            Type::Record(fs).into_id()
        }
        "topq" => match &l[1] {
            S::Q(n) => match n.as_str() {
                "number" => Type::Primitive(PType::Numeric).into_id(),
                "int" => Type::Primitive(PType::Int).into_id(),
                "string" => Type::Primitive(PType::String).into_id(),
                "unit" => Type::Primitive(PType::Unit).into_id(),
                _ => Type::Unknown.into_id(),
            },
            _ => return Err("bad topq".into()),
        },
        _ => return Err(format!("bad type head {head}")),
    })
}

// ---------------------------------------------------------------------------------------------
// Expr -> s-expression
// ---------------------------------------------------------------------------------------------
/// decode a type-id integer literal (translate_staging::type_id_to_int_literal) back to the type
fn ser_tyid_lit(e: ExprNodeId, o: &mut String) {
    match e.to_expr() {
        Expr::Literal(Literal::Int(i)) => {
            // slotmap KeyData::as_ffi = (version << 32) | idx ; TypeNodeId is serde-transparent over the key
            let ffi = i as u64;
            let t: TypeNodeId = match serde_json::from_value(json!({"idx": (ffi & 0xffff_ffff) as u32, "version": (ffi >> 32) as u32})) {
                Ok(t) => t,
                Err(_) => {
                    o.push_str("(lit-ty-invalid)");
                    return;
                }
            };
            match guarded(|| {
                let mut s = String::new();
                ser_ty(t, &mut s);
                s
            }) {
                Ok(s) => {
                    o.push_str("(lit-ty ");
                    o.push_str(&s);
                    o.push(')');
                }
                Err(_) => o.push_str("(lit-ty-invalid)"),
            }
        }
        _ => ser_expr(e, o),
    }
}

fn ser_tyid_arr(e: ExprNodeId, o: &mut String) {
    match e.to_expr() {
        Expr::ArrayLiteral(es) => {
            o.push_str("(arr");
            for x in es {
                o.push(' ');
                ser_tyid_lit(x, o);
            }
            o.push(')');
        }
        _ => ser_expr(e, o),
    }
}

/// positions of type-id arguments of the `_typed` combinators: (scalar positions, array positions)
fn typed_positions(name: &str) -> Option<(&'static [usize], &'static [usize])> {
    match name {
        "code_lam1_finish_typed" => Some((&[1, 2], &[])),
        "code_lam_finish_typed" => Some((&[2], &[1])),
        "code_lam_finish_defaults_typed" => Some((&[4], &[1])),
        "code_letrec_typed" => Some((&[1], &[])),
        _ => None,
    }
}

fn ser_lit(l: &Literal, o: &mut String) {
    match l {
        Literal::Float(s) => match s.as_str().parse::<f64>() {
            Ok(v) => {
                o.push_str("(lit-f ");
                o.push_str(&fbits(v));
                o.push(')');
            }
            Err(_) => {
                o.push_str("(lit-f-bad ");
                o.push_str(&q(s.as_str()));
                o.push(')');
            }
        },
        Literal::Int(i) => {
            o.push_str(&format!("(lit-i {i})"));
        }
        Literal::String(s) => {
            o.push_str("(lit-s ");
            o.push_str(&q(s.as_str()));
            o.push(')');
        }
        Literal::SelfLit => o.push_str("(self)"),
        Literal::Now => o.push_str("(now)"),
        Literal::SampleRate => o.push_str("(sr)"),
        Literal::PlaceHolder => o.push_str("(ph)"),
    }
}

fn ser_opt(e: Option<ExprNodeId>, o: &mut String) {
    match e {
        Some(e) => ser_expr(e, o),
        None => o.push_str("#n"),
    }
}

fn ser_pat(p: &Pattern, o: &mut String) {
    match p {
        Pattern::Single(s) => {
            o.push_str("(p1 ");
            o.push_str(&q(s.as_str()));
            o.push(')');
        }
        Pattern::Placeholder => o.push_str("(p_)"),
        Pattern::Tuple(ps) => {
            o.push_str("(ptuple");
            for p in ps {
                o.push(' ');
                ser_pat(p, o);
            }
            o.push(')');
        }
        Pattern::Record(fs) => {
            o.push_str("(precord");
            for (n, p) in fs {
                o.push_str(" (");
                o.push_str(&q(n.as_str()));
                o.push(' ');
                ser_pat(p, o);
                o.push(')');
            }
            o.push(')');
        }
        Pattern::Error => o.push_str("(perr)"),
    }
}

fn ser_mpat(p: &MatchPattern, o: &mut String) {
    match p {
        MatchPattern::Literal(l) => {
            o.push_str("(mlit ");
            ser_lit(l, o);
            o.push(')');
        }
        MatchPattern::Wildcard => o.push_str("(mwild)"),
        MatchPattern::Variable(s) => {
            o.push_str("(mvar ");
            o.push_str(&q(s.as_str()));
            o.push(')');
        }
        MatchPattern::Constructor(n, inner) => {
            o.push_str("(mctor ");
            o.push_str(&q(n.as_str()));
            if let Some(i) = inner {
                o.push(' ');
                ser_mpat(i, o);
            }
            o.push(')');
        }
        MatchPattern::Tuple(ps) => {
            o.push_str("(mtuple");
            for p in ps {
                o.push(' ');
                ser_mpat(p, o);
            }
            o.push(')');
        }
    }
}

fn ser_fields(fs: &[RecordField], o: &mut String) {
    for f in fs {
        o.push_str(" (");
        o.push_str(&q(f.name.as_str()));
        o.push(' ');
        ser_expr(f.expr, o);
        o.push(')');
    }
}

fn ser_list(es: &[ExprNodeId], o: &mut String) {
    for e in es {
        o.push(' ');
        ser_expr(*e, o);
    }
}

fn ser_expr(e: ExprNodeId, o: &mut String) {
    match e.to_expr() {
        Expr::Literal(l) => ser_lit(&l, o),
        Expr::Var(v) => {
            o.push_str("(var ");
            o.push_str(&q(v.as_str()));
            o.push(')');
        }
        Expr::QualifiedVar(p) => {
            o.push_str("(qvar");
            for s in &p.segments {
                o.push(' ');
                o.push_str(&q(s.as_str()));
            }
            o.push(')');
        }
        Expr::Block(b) => {
            o.push_str("(block ");
            ser_opt(b, o);
            o.push(')');
        }
        Expr::Tuple(es) => {
            o.push_str("(tuple");
            ser_list(&es, o);
            o.push(')');
        }
        Expr::Proj(x, i) => {
            o.push_str("(proj ");
            ser_expr(x, o);
            o.push_str(&format!(" {i})"));
        }
        Expr::ArrayAccess(a, i) => {
            o.push_str("(aacc ");
            ser_expr(a, o);
            o.push(' ');
            ser_expr(i, o);
            o.push(')');
        }
        Expr::ArrayLiteral(es) => {
            o.push_str("(arr");
            ser_list(&es, o);
            o.push(')');
        }
        Expr::RecordLiteral(fs) => {
            o.push_str("(rec");
            ser_fields(&fs, o);
            o.push(')');
        }
        Expr::ImcompleteRecord(fs) => {
            o.push_str("(irec");
            ser_fields(&fs, o);
            o.push(')');
        }
        Expr::RecordUpdate(r, fs) => {
            o.push_str("(recupd ");
            ser_expr(r, o);
            ser_fields(&fs, o);
            o.push(')');
        }
        Expr::FieldAccess(r, n) => {
            o.push_str("(facc ");
            ser_expr(r, o);
            o.push(' ');
            o.push_str(&q(n.as_str()));
            o.push(')');
        }
        Expr::Apply(f, args) => {
            o.push_str("(app ");
            ser_expr(f, o);
            let tp = match f.to_expr() {
                Expr::Var(n) => typed_positions(n.as_str()),
                _ => None,
            };
            for (i, a) in args.iter().enumerate() {
                o.push(' ');
                match tp {
                    Some((sc, _)) if sc.contains(&i) => ser_tyid_lit(*a, o),
                    Some((_, ar)) if ar.contains(&i) => ser_tyid_arr(*a, o),
                    _ => ser_expr(*a, o),
                }
            }
            o.push(')');
        }
        Expr::MacroExpand(f, args) => {
            o.push_str("(mexp ");
            ser_expr(f, o);
            ser_list(&args, o);
            o.push(')');
        }
        Expr::BinOp(l, (op, _), r) => {
            o.push_str("(binop ");
            o.push_str(&q(&format!("{op}")));
            o.push(' ');
            ser_expr(l, o);
            o.push(' ');
            ser_expr(r, o);
            o.push(')');
        }
        Expr::UniOp((op, _), x) => {
            o.push_str("(uniop ");
            o.push_str(&q(&format!("{op}")));
            o.push(' ');
            ser_expr(x, o);
            o.push(')');
        }
        Expr::Paren(x) => {
            o.push_str("(paren ");
            ser_expr(x, o);
            o.push(')');
        }
        Expr::Lambda(ps, rt, body) => {
            o.push_str("(lam (");
            for (i, p) in ps.iter().enumerate() {
                if i > 0 {
                    o.push(' ');
                }
                o.push_str("(p ");
                o.push_str(&q(p.id.as_str()));
                o.push(' ');
                ser_ty(p.ty, o);
                o.push(' ');
                ser_opt(p.default_value, o);
                o.push(')');
            }
            o.push_str(") ");
            match rt {
                Some(t) => ser_ty(t, o),
                None => o.push_str("#n"),
            }
            o.push(' ');
            ser_expr(body, o);
            o.push(')');
        }
        Expr::Assign(l, r) => {
            o.push_str("(assign ");
            ser_expr(l, o);
            o.push(' ');
            ser_expr(r, o);
            o.push(')');
        }
        Expr::Then(a, b) => {
            o.push_str("(then ");
            ser_expr(a, o);
            o.push(' ');
            ser_opt(b, o);
            o.push(')');
        }
        Expr::Feed(n, b) => {
            o.push_str("(feed ");
            o.push_str(&q(n.as_str()));
            o.push(' ');
            ser_expr(b, o);
            o.push(')');
        }
        Expr::Let(tp, v, b) => {
            o.push_str("(let ");
            ser_pat(&tp.pat, o);
            o.push(' ');
            ser_ty(tp.ty, o);
            o.push(' ');
            ser_expr(v, o);
            o.push(' ');
            ser_opt(b, o);
            o.push(')');
        }
        Expr::LetRec(id, v, b) => {
            o.push_str("(letrec ");
            o.push_str(&q(id.id.as_str()));
            o.push(' ');
            ser_ty(id.ty, o);
            o.push(' ');
            ser_expr(v, o);
            o.push(' ');
            ser_opt(b, o);
            o.push(')');
        }
        Expr::If(c, t, e2) => {
            o.push_str("(if ");
            ser_expr(c, o);
            o.push(' ');
            ser_expr(t, o);
            o.push(' ');
            ser_opt(e2, o);
            o.push(')');
        }
        Expr::Match(s, arms) => {
            o.push_str("(match ");
            ser_expr(s, o);
            for a in arms {
                o.push_str(" (arm ");
                ser_mpat(&a.pattern, o);
                o.push(' ');
                ser_expr(a.body, o);
                o.push(')');
            }
            o.push(')');
        }
        Expr::Bracket(x) => {
            o.push_str("(bracket ");
            ser_expr(x, o);
            o.push(')');
        }
        Expr::Escape(x) => {
            o.push_str("(escape ");
            ser_expr(x, o);
            o.push(')');
        }
        Expr::Error => o.push_str("(error)"),
    }
}

fn ser(e: ExprNodeId) -> String {
    let mut s = String::new();
    ser_expr(e, &mut s);
    s
}

// ---------------------------------------------------------------------------------------------
// s-expression -> Expr   (into_id_without_span everywhere)
// ---------------------------------------------------------------------------------------------
fn name_of(s: &S) -> Result<Symbol, String> {
    match s {
        S::Q(n) => Ok(n.as_str().to_symbol()),
        _ => Err(format!("expected a quoted name, got {s:?}")),
    }
}

fn build_opt(s: &S) -> Result<Option<ExprNodeId>, String> {
    match s {
        S::A(a) if a == "#n" => Ok(None),
        _ => Ok(Some(build(s)?)),
    }
}

fn build_pat(s: &S) -> Result<Pattern, String> {
    let l = match s {
        S::L(l) if !l.is_empty() => l,
        _ => return Err("bad pattern".into()),
    };
    let head = match &l[0] {
        S::A(a) => a.as_str(),
        _ => return Err("bad pattern head".into()),
    };
    Ok(match head {
        "p1" => Pattern::Single(name_of(&l[1])?),
        "p_" => Pattern::Placeholder,
        "ptuple" => Pattern::Tuple(l[1..].iter().map(build_pat).collect::<Result<_, _>>()?),
        "precord" => {
            let mut fs = vec![];
            for f in &l[1..] {
                if let S::L(f) = f {
                    fs.push((name_of(&f[0])?, build_pat(&f[1])?));
                } else {
                    return Err("bad record pattern".into());
                }
            }
            Pattern::Record(fs)
        }
        "perr" => Pattern::Error,
        _ => return Err(format!("bad pattern head {head}")),
    })
}

fn build_lit(head: &str, l: &[S]) -> Result<Option<Literal>, String> {
    Ok(Some(match head {
        "lit-f" => match &l[1] {
            S::A(h) => {
                let v = if h == "NaN" { f64::NAN } else { f64::from_bits(u64::from_str_radix(h, 16).map_err(|e| e.to_string())?) };
                // the text a programmer would write for this value: Rust's shortest round-trip form
                Literal::Float(format!("{v}").to_symbol())
            }
            _ => return Err("bad lit-f".into()),
        },
        "lit-f-text" => match &l[1] {
            S::Q(t) => Literal::Float(t.as_str().to_symbol()),
            _ => return Err("bad lit-f-text".into()),
        },
        "lit-i" => match &l[1] {
            S::A(i) => Literal::Int(i.parse::<i64>().map_err(|e| e.to_string())?),
            _ => return Err("bad lit-i".into()),
        },
        "lit-s" => Literal::String(name_of(&l[1])?),
        "self" => Literal::SelfLit,
        "now" => Literal::Now,
        "sr" => Literal::SampleRate,
        "ph" => Literal::PlaceHolder,
        _ => return Ok(None),
    }))
}

fn build_mpat(s: &S) -> Result<MatchPattern, String> {
    let l = match s {
        S::L(l) if !l.is_empty() => l,
        _ => return Err("bad match pattern".into()),
    };
    let head = match &l[0] {
        S::A(a) => a.as_str(),
        _ => return Err("bad match pattern head".into()),
    };
    Ok(match head {
        "mwild" => MatchPattern::Wildcard,
        "mvar" => MatchPattern::Variable(name_of(&l[1])?),
        "mlit" => {
            let il = match &l[1] {
                S::L(il) if !il.is_empty() => il,
                _ => return Err("bad mlit".into()),
            };
            let ih = match &il[0] {
                S::A(a) => a.as_str(),
                _ => return Err("bad mlit".into()),
            };
            MatchPattern::Literal(build_lit(ih, il)?.ok_or("bad mlit literal")?)
        }
        "mctor" => MatchPattern::Constructor(
            name_of(&l[1])?,
            if l.len() > 2 { Some(Box::new(build_mpat(&l[2])?)) } else { None },
        ),
        "mtuple" => MatchPattern::Tuple(l[1..].iter().map(build_mpat).collect::<Result<_, _>>()?),
        _ => return Err(format!("bad match pattern head {head}")),
    })
}

fn op_of(o: &str) -> mimium_lang::ast::operators::Op {
    use mimium_lang::ast::operators::Op;
    match o {
        "+" => Op::Sum,
        "-" => Op::Minus,
        "*" => Op::Product,
        "/" => Op::Divide,
        other => Op::Unknown(other.to_string()),
    }
}

fn build_fields(l: &[S]) -> Result<Vec<RecordField>, String> {
    let mut fs = vec![];
    for f in l {
        if let S::L(f) = f {
            fs.push(RecordField { name: name_of(&f[0])?, expr: build(&f[1])? });
        } else {
            return Err("bad field".into());
        }
    }
    Ok(fs)
}

fn build_list(l: &[S]) -> Result<Vec<ExprNodeId>, String> {
    l.iter().map(build).collect()
}

fn build(s: &S) -> Result<ExprNodeId, String> {
    let l = match s {
        S::L(l) if !l.is_empty() => l,
        _ => return Err(format!("bad expr {s:?}")),
    };
    let head = match &l[0] {
        S::A(a) => a.as_str(),
        _ => return Err("bad expr head".into()),
    };
    if let Some(lit) = build_lit(head, l)? {
        return Ok(Expr::Literal(lit).into_id_without_span());
    }
    let e = match head {
        "var" => Expr::Var(name_of(&l[1])?),
        "qvar" => Expr::QualifiedVar(QualifiedPath::new(l[1..].iter().map(name_of).collect::<Result<_, _>>()?)),
        "block" => Expr::Block(build_opt(&l[1])?),
        "tuple" => Expr::Tuple(build_list(&l[1..])?),
        "proj" => Expr::Proj(
            build(&l[1])?,
            match &l[2] {
                S::A(i) => i.parse::<i64>().map_err(|e| e.to_string())?,
                _ => return Err("bad proj".into()),
            },
        ),
        "aacc" => Expr::ArrayAccess(build(&l[1])?, build(&l[2])?),
        "arr" => Expr::ArrayLiteral(build_list(&l[1..])?),
        "rec" => Expr::RecordLiteral(build_fields(&l[1..])?),
        "irec" => Expr::ImcompleteRecord(build_fields(&l[1..])?),
        "recupd" => Expr::RecordUpdate(build(&l[1])?, build_fields(&l[2..])?),
        "facc" => Expr::FieldAccess(build(&l[1])?, name_of(&l[2])?),
        "app" => Expr::Apply(build(&l[1])?, build_list(&l[2..])?),
        "mexp" => Expr::MacroExpand(build(&l[1])?, build_list(&l[2..])?),
        "binop" => {
            let op = match &l[1] {
                S::Q(o) => op_of(o),
                _ => return Err("bad binop".into()),
            };
            Expr::BinOp(build(&l[2])?, (op, 0..0), build(&l[3])?)
        }
        "uniop" => {
            let op = match &l[1] {
                S::Q(o) => op_of(o),
                _ => return Err("bad uniop".into()),
            };
            Expr::UniOp((op, 0..0), build(&l[2])?)
        }
        "paren" => Expr::Paren(build(&l[1])?),
        "lam" => {
            let ps = match &l[1] {
                S::L(ps) => ps,
                _ => return Err("bad lambda params".into()),
            };
            let mut params = vec![];
            for p in ps {
                if let S::L(p) = p {
                    let mut id = TypedId::new(name_of(&p[1])?, build_ty(&p[2])?);
                    id.default_value = build_opt(&p[3])?;
                    params.push(id);
                } else {
                    return Err("bad param".into());
                }
            }
            let rt = match &l[2] {
                S::A(a) if a == "#n" => None,
                t => Some(build_ty(t)?),
            };
            Expr::Lambda(params, rt, build(&l[3])?)
        }
        "assign" => Expr::Assign(build(&l[1])?, build(&l[2])?),
        "then" => Expr::Then(build(&l[1])?, build_opt(&l[2])?),
        "feed" => Expr::Feed(name_of(&l[1])?, build(&l[2])?),
        "let" => Expr::Let(TypedPattern::new(build_pat(&l[1])?, build_ty(&l[2])?), build(&l[3])?, build_opt(&l[4])?),
        "letrec" => Expr::LetRec(TypedId::new(name_of(&l[1])?, build_ty(&l[2])?), build(&l[3])?, build_opt(&l[4])?),
        "if" => Expr::If(build(&l[1])?, build(&l[2])?, build_opt(&l[3])?),
        "match" => {
            let mut arms = vec![];
            for a in &l[2..] {
                if let S::L(a) = a {
                    arms.push(MatchArm { pattern: build_mpat(&a[1])?, body: build(&a[2])? });
                } else {
                    return Err("bad arm".into());
                }
            }
            Expr::Match(build(&l[1])?, arms)
        }
        "bracket" => Expr::Bracket(build(&l[1])?),
        "escape" => Expr::Escape(build(&l[1])?),
        "error" => Expr::Error,
        _ => return Err(format!("bad expr head {head}")),
    };
    Ok(e.into_id_without_span())
}

// ---------------------------------------------------------------------------------------------
// stage-0 driver: the steps of mirgen::compile_and_execute_stage0 through public APIs (no plugin
// macro bridge closures; the programs we feed do not call plugin macros).
// ---------------------------------------------------------------------------------------------
fn errkind(msg: &str) -> String {
    // small enum of error kinds
    let m = msg.to_lowercase();
    if m.contains("unreachable") {
        "panic-unreachable".into()
    } else {
        format!("panic:{}", msg.chars().take(160).collect::<String>())
    }
}

fn execute_stage0(stage0_expr: ExprNodeId, builtin_types: &[(Symbol, TypeNodeId)]) -> Result<ExprNodeId, String> {
    use mimium_lang::plugin::codegen_combinators::codegen_combinator_signatures;
    let combinator_sigs = codegen_combinator_signatures();
    let names: std::collections::HashSet<Symbol> = combinator_sigs.iter().map(|c| c.name).collect();
    let all_types: Vec<(Symbol, TypeNodeId)> = builtin_types
        .iter()
        .filter(|(n, _)| !names.contains(n))
        .cloned()
        .chain(combinator_sigs.iter().map(|c| (c.name, c.ty)))
        .collect();
    // mirgen::Context is private: the stage-0 expression (no staging constructs left) goes through the
    // public mirgen::compile (type check, add_global_context, MIR generation)
    let mir = mirgen::compile(stage0_expr, &all_types, &[], None).map_err(|e| format!("stage0-compile-error:{}", e.len()))?;
    let program = bytecodegen::gen_bytecode(mir, bytecodegen::Config::default());
    let builtin_plugin = plugin::get_builtin_fns_as_plugins();
    let ext = combinator_sigs
        .into_iter()
        .map(|c| Box::new(c) as Box<dyn MachineFunction>)
        .chain(builtin_plugin.get_ext_closures());
    let mut machine = vm::Machine::new(program, [].into_iter(), ext);
    let rc = machine.execute_main();
    if rc <= 0 {
        return Err(format!("stage0-vm-retcode:{rc}"));
    }
    let raw = machine.get_top_n(1)[0];
    machine.try_get_code(raw).ok_or_else(|| "stage0-result-not-code".to_string())
}

fn builtin_types() -> (Vec<(Symbol, TypeNodeId)>, Vec<Box<dyn plugin::MacroFunction>>) {
    let plugins = vec![plugin::get_builtin_fns_as_plugins()];
    let ext: Vec<_> = plugin::get_extfun_types(&plugins).collect();
    let macros: Vec<_> = plugin::get_macro_functions(&plugins).collect();
    let tys = ext
        .into_iter()
        .map(|i| (i.name, i.ty))
        .chain(macros.iter().map(|m| (m.get_name(), m.get_type())))
        .collect();
    (tys, macros)
}

// ---------------------------------------------------------------------------------------------
// trace-log capture of the real pipeline
// ---------------------------------------------------------------------------------------------
thread_local! { static LOGBUF: RefCell<Vec<String>> = const { RefCell::new(Vec::new()) }; }
struct Cap;
impl mimium_lang::log::Log for Cap {
    fn enabled(&self, m: &mimium_lang::log::Metadata) -> bool {
        m.target().ends_with("compiler::mirgen")
    }
    fn log(&self, r: &mimium_lang::log::Record) {
        if !self.enabled(r.metadata()) {
            return;
        }
        let s = format!("{}", r.args());
        if s.starts_with("ast after") {
            LOGBUF.with(|b| b.borrow_mut().push(s));
        }
    }
    fn flush(&self) {}
}
static CAP: Cap = Cap;

// ---------------------------------------------------------------------------------------------
// modes
// ---------------------------------------------------------------------------------------------
fn mode_ast(req: &J) -> J {
    let prog = req["prog"].as_str().unwrap_or("");
    let s = match parse_s(prog) {
        Ok(s) => s,
        Err(e) => return json!({"err": format!("harness-parse:{e}")}),
    };
    let p = match build(&s) {
        Ok(p) => p,
        Err(e) => return json!({"err": format!("harness-build:{e}")}),
    };
    let st0 = match guarded(|| translate_staging::translate(p)) {
        Ok(x) => x,
        Err(m) => return json!({"err": errkind(&m), "where": "translate"}),
    };
    let st0s = ser(st0);
    if req["notrun"].as_bool().unwrap_or(false) {
        return json!({"st0": st0s});
    }
    let (tys, _) = builtin_types();
    match guarded(|| execute_stage0(st0, &tys)) {
        Ok(Ok(c)) => json!({"st0": st0s, "st1": ser(c)}),
        Ok(Err(e)) => json!({"st0": st0s, "err": e}),
        Err(m) => json!({"st0": st0s, "err": errkind(&m), "where": "stage0"}),
    }
}

fn run_vm(src: &str, times: u64) -> Result<Vec<String>, String> {
    let mut ctx = ExecContext::new([].into_iter(), None, Config::default());
    ctx.prepare_machine(src).map_err(|e| format!("compile-error:{}", e.len()))?;
    let bytecode = ctx.take_vm().ok_or("no-vm")?.prog;
    let mut ctx2 = ExecContext::new([].into_iter(), None, Config::default());
    ctx2.prepare_machine_with_bytecode(bytecode);
    let machine = ctx2.get_vm_mut().ok_or("no-vm")?;
    let _ = machine.execute_main();
    let mut out = vec![];
    for _ in 0..times {
        let rc = machine.execute_entry("dsp");
        if rc < 0 {
            return Err("vm-runtime-error".into());
        }
        let v = vm::Machine::get_as_array::<f64>(machine.get_top_n(1))[0];
        out.push(fbits(v));
    }
    Ok(out)
}

fn run_wasm(src: &str, times: u64) -> Result<Vec<String>, String> {
    use mimium_lang::compiler::wasmgen::WasmGenerator;
    use mimium_lang::runtime::wasm::WasmRuntime;
    use std::sync::Arc;
    let mut ctx = ExecContext::new([].into_iter(), None, Config::default());
    ctx.prepare_compiler();
    let ext_fns = ctx.get_extfun_types();
    let mir = ctx.get_compiler().ok_or("no-compiler")?.emit_mir(src).map_err(|e| format!("compile-error:{}", e.len()))?;
    let mut g = WasmGenerator::new(Arc::new(mir), &ext_fns);
    let bytes = g.generate().map_err(|_| "wasm-codegen-error".to_string())?;
    let mut rt = WasmRuntime::new(&ext_fns, None).map_err(|_| "wasm-runtime-error".to_string())?;
    let mut module = rt.load_module(&bytes).map_err(|_| "wasm-load-error".to_string())?;
    let _ = module.call_function("main", &[]);
    let mut out = vec![];
    for _ in 0..times {
        let r = module.call_function("dsp", &[]).map_err(|_| "wasm-dsp-error".to_string())?;
        if let Some(v) = r.first() {
            out.push(fbits(f64::from_bits(*v)));
        }
    }
    Ok(out)
}

fn mode_src(req: &J) -> J {
    let src = req["src"].as_str().unwrap_or("").to_string();
    let times = req["times"].as_u64().unwrap_or(1);
    let mut ans = serde_json::Map::new();
    if req["expand"].as_bool().unwrap_or(true) {
        // (1) replicated front half of compile_with_module_info through public APIs
        let r = guarded(|| {
            let (tys, _macros) = builtin_types();
            let (ast, module_info, errs) = parser::parse_to_expr(&src, None);
            if !errs.is_empty() {
                return Err(format!("parse-error:{}", errs.len()));
            }
            let needs = ast.has_staging_constructs();
            let expr = if needs { ast.wrap_to_staged_expr() } else { ast };
            let (expr, mut ictx, errors) = mirgen::typecheck_with_module_info(expr, &tys, None, module_info);
            if !errors.is_empty() {
                return Err(format!("type-error:{}", errors.len()));
            }
            let top = ictx.infer_type(expr).map_err(|_| "top-type-error".to_string())?;
            if !matches!(top.to_type(), Type::Code(_)) {
                return Err("not-staged".to_string());
            }
            let sin = ser(expr);
            let st0 = translate_staging::translate(expr);
            let sst0 = ser(st0);
            let sp0 = st0.to_expr().simple_print();
            let st1 = execute_stage0(st0, &tys)?;
            Ok((sin, sst0, sp0, ser(st1), st1.to_expr().simple_print()))
        });
        match r {
            Ok(Ok((sin, sst0, sp0, sst1, sp1))) => {
                ans.insert("in".into(), json!(sin));
                ans.insert("st0".into(), json!(sst0));
                ans.insert("st1".into(), json!(sst1));
                ans.insert("sp_st0".into(), json!(sp0));
                ans.insert("sp_st1".into(), json!(sp1));
            }
            Ok(Err(e)) => {
                ans.insert("expand_err".into(), json!(e));
            }
            Err(m) => {
                ans.insert("expand_err".into(), json!(errkind(&m)));
            }
        }
        // (2) the real pipeline, its trace log
        LOGBUF.with(|b| b.borrow_mut().clear());
        let r = guarded(|| {
            let mut ctx = ExecContext::new([].into_iter(), None, Config::default());
            ctx.prepare_compiler();
            ctx.get_compiler().unwrap().emit_mir(&src).map(|_| ()).map_err(|e| e.len())
        });
        let logs: Vec<String> = LOGBUF.with(|b| b.borrow().clone());
        for l in logs {
            if let Some(rest) = l.strip_prefix("ast after translate_staging: ") {
                ans.insert("log_st0".into(), json!(rest));
            } else if let Some(rest) = l.strip_prefix("ast after stage-0 execution: ") {
                ans.insert("log_st1".into(), json!(rest));
            }
        }
        match r {
            Ok(Ok(())) => {}
            Ok(Err(n)) => {
                ans.insert("real_err".into(), json!(format!("compile-error:{n}")));
            }
            Err(m) => {
                ans.insert("real_err".into(), json!(errkind(&m)));
            }
        }
    }
    if times > 0 {
        match guarded(|| run_vm(&src, times)) {
            Ok(Ok(v)) => {
                ans.insert("vm".into(), json!(v));
            }
            Ok(Err(e)) => {
                ans.insert("vm_err".into(), json!(e));
            }
            Err(m) => {
                ans.insert("vm_err".into(), json!(errkind(&m)));
            }
        }
        if req["wasm"].as_bool().unwrap_or(false) {
            match guarded(|| run_wasm(&src, times)) {
                Ok(Ok(v)) => {
                    ans.insert("wasm".into(), json!(v));
                }
                Ok(Err(e)) => {
                    ans.insert("wasm_err".into(), json!(e));
                }
                Err(m) => {
                    ans.insert("wasm_err".into(), json!(errkind(&m)));
                }
            }
        }
    }
    J::Object(ans)
}

/// call a registered combinator closure on a scratch machine with one numeric argument
fn mode_lift(req: &J) -> J {
    use mimium_lang::plugin::codegen_combinators::codegen_combinator_signatures;
    let bits: Vec<u64> = req["bits"]
        .as_array()
        .map(|a| a.iter().filter_map(|x| x.as_str()).filter_map(|h| u64::from_str_radix(h, 16).ok()).collect())
        .unwrap_or_default();
    let sigs = codegen_combinator_signatures();
    let routes = ["code_lit_f", "lift_f", "code_lift_f"];
    let mut res = serde_json::Map::new();
    // a machine over a trivial program
    let r = guarded(|| {
        let mut ctx = ExecContext::new([].into_iter(), None, Config::default());
        ctx.prepare_machine("fn dsp(){ 0.0 }").map_err(|e| format!("compile-error:{}", e.len()))?;
        let mut machine = ctx.take_vm().ok_or("no-vm")?;
        let mut per_route = vec![];
        for name in routes {
            let cls = sigs.iter().find(|c| c.name.as_str() == name).ok_or(format!("not-registered:{name}"))?;
            let mut outs = vec![];
            for b in &bits {
                machine.set_stack(0, *b);
                let f = cls.fun.clone();
                let _rc = (f.borrow_mut())(&mut machine);
                let code = machine.get_code(machine.get_stack(0));
                let o = match code.to_expr() {
                    Expr::Literal(Literal::Float(sym)) => match sym.as_str().parse::<f64>() {
                        Ok(v) => fbits(v),
                        Err(_) => format!("unparsable:{}", sym.as_str()),
                    },
                    other => format!("not-a-float-literal:{}", other.simple_print()),
                };
                outs.push(o);
            }
            per_route.push((name, outs));
        }
        // interpreter route (builtin_functins.rs lift_value_to_code -> Value::try_into)
        let mut outs = vec![];
        for b in &bits {
            let v = mimium_lang::interpreter::Value::Number(f64::from_bits(*b));
            let e: Result<ExprNodeId, _> = v.try_into();
            outs.push(match e.map(|e| e.to_expr()) {
                Ok(Expr::Literal(Literal::Float(sym))) => match sym.as_str().parse::<f64>() {
                    Ok(v) => fbits(v),
                    Err(_) => format!("unparsable:{}", sym.as_str()),
                },
                _ => "not-a-float-literal".to_string(),
            });
        }
        per_route.push(("interpreter_value_to_code", outs));
        Ok::<_, String>(per_route)
    });
    match r {
        Ok(Ok(pr)) => {
            for (n, o) in pr {
                res.insert(n.to_string(), json!(o));
            }
        }
        Ok(Err(e)) => {
            res.insert("err".into(), json!(e));
        }
        Err(m) => {
            res.insert("err".into(), json!(errkind(&m)));
        }
    }
    J::Object(res)
}

fn main() {
    quiet_panics();
    let _ = mimium_lang::log::set_logger(&CAP);
    mimium_lang::log::set_max_level(mimium_lang::log::LevelFilter::Trace);
    let stdin = std::io::stdin();
    let stdout = std::io::stdout();
    let mut out = stdout.lock();
    for line in stdin.lock().lines() {
        let line = match line {
            Ok(l) => l,
            Err(_) => break,
        };
        if line.trim().is_empty() {
            continue;
        }
        let req: J = match serde_json::from_str(&line) {
            Ok(j) => j,
            Err(e) => {
                let _ = writeln!(out, "{}", json!({"err": format!("harness-json:{e}")}));
                continue;
            }
        };
        let ans = match req["m"].as_str().unwrap_or("") {
            "ast" => mode_ast(&req),
            "src" => mode_src(&req),
            "lift" => mode_lift(&req),
            _ => json!({"err": "harness-mode"}),
        };
        let _ = writeln!(out, "{}", ans);
        let _ = out.flush();
    }
}
