//! C04/C03 (type unifier) — implementation side of the correspondence with coq/theories/Typing/Model.v.
//!
//! One case per input line, one answer line per case (stdout is flushed after the operations and after every variable so
//! that a crash of the process pinpoints the case and the phase):
//!
//!   case   := nvars ';' item (';' item)*
//!   nvars  := levels of the type variables 0..n-1, comma separated        e.g. `0,0,1`
//!   item   := 'p' k '=' ty            initial parent pointer of variable k (set before any operation)
//!           | 'u' ty '~' ty           unify_types(t1, t2)
//!           | 'a' ty '~' ty           unify_types_args(t1, t2)
//!   ty     := 'U' | 'I' | 'N' | 'S'   (primitive unit / int / numeric / string)   | 'K' (Type::Unknown)
//!           | 'A(' ty ')' | 'T(' ty,* ')' | 'F(' ty ',' ty ')' | 'R(' ty ')' | 'C(' ty ')' | 'B(' ty ')' | 'v' k
//!
//! answer := '#' id ' ' res* '|' var*                         (id = 0-based index of the input line)
//!   res  := 'ok' rel | 'err' kind* | 'panic'
//!   var  := k ':L' level ':P' (ty | '-') ':R' (ty | '!cycle') ':S' (ty | '!skipped') ';'
//!           P = parent pointer as stored, R = resolution by this harness (bounded chase that keeps unbound variables),
//!           S = the type checker's own `InferContext::substitute_type`. When R found a cycle S is not evaluated unless
//!           the process was started with `--force-subst` (it would recurse until the stack overflows).
//!
//! The hook H3 (`mimium_lang::compiler::typing::verif_unify`, cfg(mimium_verif)) is the only non-public item used.
use mimium_lang::compiler::typing::InferContext;
use mimium_lang::interner::TypeNodeId;
use mimium_lang::types::{IntermediateId, PType, Type, TypeVar};
use std::io::{BufRead, Write};
use std::sync::{Arc, RwLock};
use verif_lang::common::*;

struct P<'a> {
    s: &'a [u8],
    i: usize,
    vars: &'a [TypeNodeId],
}
impl<'a> P<'a> {
    fn peek(&self) -> u8 {
        if self.i < self.s.len() { self.s[self.i] } else { 0 }
    }
    fn eat(&mut self, c: u8) -> Result<(), String> {
        if self.peek() == c {
            self.i += 1;
            Ok(())
        } else {
            Err(format!("expected {} at {}", c as char, self.i))
        }
    }
    fn num(&mut self) -> Result<usize, String> {
        let st = self.i;
        while self.peek().is_ascii_digit() {
            self.i += 1;
        }
        std::str::from_utf8(&self.s[st..self.i]).unwrap().parse::<usize>().map_err(|e| format!("{e} at {st}"))
    }
    fn ty(&mut self) -> Result<TypeNodeId, String> {
        let c = self.peek();
        self.i += 1;
        let one = |p: &mut Self| -> Result<TypeNodeId, String> {
            p.eat(b'(')?;
            let t = p.ty()?;
            p.eat(b')')?;
            Ok(t)
        };
        Ok(match c {
            b'U' => Type::Primitive(PType::Unit).into_id(),
            b'I' => Type::Primitive(PType::Int).into_id(),
            b'N' => Type::Primitive(PType::Numeric).into_id(),
            b'S' => Type::Primitive(PType::String).into_id(),
            b'K' => Type::Unknown.into_id(),
            b'A' => Type::Array(one(self)?).into_id(),
            b'R' => Type::Ref(one(self)?).into_id(),
            b'C' => Type::Code(one(self)?).into_id(),
            b'B' => Type::Boxed(one(self)?).into_id(),
            b'F' => {
                self.eat(b'(')?;
                let a = self.ty()?;
                self.eat(b',')?;
                let r = self.ty()?;
                self.eat(b')')?;
                Type::Function { arg: a, ret: r }.into_id()
            }
            b'T' => {
                self.eat(b'(')?;
                let mut v = vec![];
                if self.peek() != b')' {
                    loop {
                        v.push(self.ty()?);
                        if self.peek() == b',' {
                            self.i += 1;
                        } else {
                            break;
                        }
                    }
                }
                self.eat(b')')?;
                Type::Tuple(v).into_id()
            }
            b'v' => {
                let k = self.num()?;
                *self.vars.get(k).ok_or_else(|| format!("variable {k} out of range"))?
            }
            _ => return Err(format!("bad type character at {}", self.i - 1)),
        })
    }
}

/// the parent pointer / level of a variable cell
fn cell_of(t: TypeNodeId) -> Option<(Option<TypeNodeId>, u64, u64)> {
    match t.to_type() {
        Type::Intermediate(c) => {
            let tv = c.read().unwrap();
            Some((tv.parent, tv.level, tv.var.0))
        }
        _ => None,
    }
}

/// print a type without following parent pointers; None when the budget is exhausted
fn show_raw(t: TypeNodeId, out: &mut String, budget: &mut i64) -> bool {
    *budget -= 1;
    if *budget < 0 {
        return false;
    }
    match t.to_type() {
        Type::Primitive(PType::Unit) => out.push('U'),
        Type::Primitive(PType::Int) => out.push('I'),
        Type::Primitive(PType::Numeric) => out.push('N'),
        Type::Primitive(PType::String) => out.push('S'),
        Type::Unknown => out.push('K'),
        Type::Intermediate(c) => {
            out.push('v');
            out.push_str(&c.read().unwrap().var.0.to_string());
        }
        Type::Array(a) => return wrap1('A', a, out, budget, false),
        Type::Ref(a) => return wrap1('R', a, out, budget, false),
        Type::Code(a) => return wrap1('C', a, out, budget, false),
        Type::Boxed(a) => return wrap1('B', a, out, budget, false),
        Type::Function { arg, ret } => return wrapn('F', &[arg, ret], out, budget, false),
        Type::Tuple(v) => return wrapn('T', &v, out, budget, false),
        _ => out.push('?'),
    }
    true
}
fn wrap1(c: char, a: TypeNodeId, out: &mut String, budget: &mut i64, chase: bool) -> bool {
    wrapn(c, &[a], out, budget, chase)
}
/// `budget` is a node budget for show_raw (chase = false) and the remaining DEPTH for show_resolved (chase = true)
fn wrapn(c: char, v: &[TypeNodeId], out: &mut String, budget: &mut i64, chase: bool) -> bool {
    out.push(c);
    out.push('(');
    for (i, a) in v.iter().enumerate() {
        if i > 0 {
            out.push(',');
        }
        let ok = if chase { show_resolved(*a, out, &mut (*budget).clone()) } else { show_raw(*a, out, budget) };
        if !ok {
            return false;
        }
    }
    out.push(')');
    true
}
/// resolution by bounded chase: follows parent pointers, keeps unbound variables; false = deeper than CHASE_DEPTH (a
/// cycle: the bound is far above the depth of any finite resolution of the generated cases)
fn show_resolved(t: TypeNodeId, out: &mut String, budget: &mut i64) -> bool {
    *budget -= 1;
    if *budget < 0 {
        return false;
    }
    match t.to_type() {
        Type::Intermediate(c) => {
            let (parent, var) = {
                let tv = c.read().unwrap();
                (tv.parent, tv.var.0)
            };
            match parent {
                Some(p) => show_resolved(p, out, budget),
                None => {
                    out.push('v');
                    out.push_str(&var.to_string());
                    true
                }
            }
        }
        Type::Array(a) => wrap1('A', a, out, budget, true),
        Type::Ref(a) => wrap1('R', a, out, budget, true),
        Type::Code(a) => wrap1('C', a, out, budget, true),
        Type::Boxed(a) => wrap1('B', a, out, budget, true),
        Type::Function { arg, ret } => wrapn('F', &[arg, ret], out, budget, true),
        Type::Tuple(v) => wrapn('T', &v, out, budget, true),
        _ => show_raw(t, out, &mut 4),
    }
}

const CHASE_DEPTH: i64 = 2_000;
const RAW_BUDGET: i64 = 2_000_000;

fn run_case(id: usize, line: &str, force: bool, o: &mut impl Write) -> Result<(), String> {
    let mut items = line.split(';');
    let levels = items.next().unwrap_or("");
    let vars: Vec<TypeNodeId> = levels
        .split(',')
        .filter(|s| !s.trim().is_empty())
        .enumerate()
        .map(|(k, l)| {
            let level = l.trim().parse::<u64>().map_err(|e| e.to_string())?;
            Ok(Type::Intermediate(Arc::new(RwLock::new(TypeVar::new(IntermediateId(k as u64), level)))).into_id())
        })
        .collect::<Result<_, String>>()?;
    write!(o, "#{id} ").unwrap();
    for it in items {
        let it = it.trim();
        if it.is_empty() {
            continue;
        }
        let b = it.as_bytes();
        let mut p = P { s: b, i: 1, vars: &vars };
        match b[0] {
            b'p' => {
                let k = p.num()?;
                p.eat(b'=')?;
                let t = p.ty()?;
                let v = *vars.get(k).ok_or("variable out of range")?;
                if let Type::Intermediate(c) = v.to_type() {
                    c.write().unwrap().parent = Some(t);
                }
            }
            b'u' | b'a' => {
                let t1 = p.ty()?;
                p.eat(b'~')?;
                let t2 = p.ty()?;
                let args = b[0] == b'a';
                let r = guarded(|| mimium_lang::compiler::typing::verif_unify(args, t1, t2));
                match r {
                    Ok(Ok(rel)) => write!(o, "ok{rel} ").unwrap(),
                    Ok(Err(ks)) => {
                        write!(o, "err{} ", ks.iter().map(|k| k.to_string()).collect::<String>()).unwrap()
                    }
                    Err(_) => write!(o, "panic ").unwrap(),
                }
                o.flush().unwrap();
            }
            _ => return Err(format!("bad item {it}")),
        }
        if p.i != b.len() {
            return Err(format!("trailing input in item {it}"));
        }
    }
    write!(o, "|").unwrap();
    o.flush().unwrap();
    for (k, v) in vars.iter().enumerate() {
        let (parent, level, _) = cell_of(*v).unwrap();
        let mut ps = String::new();
        match parent {
            Some(p) => {
                if !show_raw(p, &mut ps, &mut RAW_BUDGET.clone()) {
                    ps = "!big".into();
                }
            }
            None => ps.push('-'),
        }
        let mut rs = String::new();
        let finite = show_resolved(*v, &mut rs, &mut CHASE_DEPTH.clone());
        if !finite {
            rs = "!cycle".into();
        }
        write!(o, "{k}:L{level}:P{ps}:R{rs}:S").unwrap();
        o.flush().unwrap();
        if finite || force {
            // the property itself, on the implementation: the type checker's own resolution must return
            let st = InferContext::substitute_type(*v);
            let mut ss = String::new();
            if !show_raw(st, &mut ss, &mut RAW_BUDGET.clone()) {
                ss = "!big".into();
            }
            write!(o, "{ss};").unwrap();
        } else {
            write!(o, "!skipped;").unwrap();
        }
        o.flush().unwrap();
    }
    Ok(())
}

fn main() {
    quiet_panics();
    let force = std::env::args().any(|a| a == "--force-subst");
    let stdin = std::io::stdin();
    let stdout = std::io::stdout();
    let mut o = stdout.lock();
    for (id, line) in stdin.lock().lines().enumerate() {
        let line = line.unwrap();
        if let Err(e) = run_case(id, line.trim(), force, &mut o) {
            write!(o, " !input-error {e}").unwrap();
        }
        writeln!(o).unwrap();
        o.flush().unwrap();
    }
}
