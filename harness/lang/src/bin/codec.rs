//! C20 correspondence harness: the real plugin FFI codec of mimium-lang on a line protocol.
//!
//! stdin: one command per line, stdout: one answer per line `<common>\t<extras>`; the common part is byte-for-byte
//! what the extracted Coq model (ocaml/codec_drv.ml) prints for the same line, the extras are implementation-only
//! checks (symbol identity, bincode::serialize::<FfiValue> agreement, expression equality of real Code keys, ...).
//!
//! commands (grammar of terms: see `Parser`):
//!   V  <value>                  serialize_value, then deserialize_value of the bytes
//!   M  <value>;<key>|...        serialize_macro_args, then deserialize_macro_args
//!   F  <ffi>                    bincode::serialize::<FfiValue>, then bincode::deserialize::<FfiValue>
//!   X  <value with ids>         bincode::serialize::<Value> (interpreter/serde_impl.rs), then deserialize
//!   T  <type>                   bincode::serialize::<Type> (types/serde_impl.rs), then deserialize
//!   K  <key>                    bincode::serialize::<TypeNodeId> (plugin loader), then deserialize
//!   DV|DM|DF|DX|DT|DK <hex>     the decoder alone on arbitrary bytes (never allowed to panic)
//!   U  <hex>                    String::from_utf8 accepts?
//! `codec --pool` prints the keys of the real expressions / types created at start-up.
use mimium_lang::ast::{Expr, Literal};
use mimium_lang::interner::{ExprNodeId, Symbol, ToSymbol, TypeNodeId};
use mimium_lang::interpreter::{ExtFunction, Value};
use mimium_lang::runtime::ffi_serde::{
    FfiValue, deserialize_macro_args, deserialize_value, serialize_macro_args, serialize_value,
};
use mimium_lang::types::{IntermediateId, PType, RecordTypeField, Type, TypeSchemeId, TypeVar};
use mimium_lang::utils::environment::Environment;
use std::cell::RefCell;
use std::io::{BufRead, Write};
use std::rc::Rc;
use std::sync::{Arc, RwLock};
use verif_lang::common::{guarded, quiet_panics};

// ---------------------------------------------------------------- keys
fn mk_key_json(idx: u64, ver: u64) -> serde_json::Value {
    serde_json::json!({"idx": idx, "version": ver})
}
fn ekey(idx: u64, ver: u64) -> ExprNodeId {
    serde_json::from_value(mk_key_json(idx, ver)).expect("expr key")
}
fn tkey(idx: u64, ver: u64) -> TypeNodeId {
    serde_json::from_value(mk_key_json(idx, ver)).expect("type key")
}
/// slotmap's Debug for a key is `Name(<idx>v<version>)` — independent of its serde impl
fn key_parts(dbg: String) -> (u64, u64) {
    let inner = &dbg[dbg.find('(').unwrap() + 1..dbg.len() - 1];
    let (a, b) = inner.split_once('v').unwrap();
    (a.parse().unwrap(), b.parse().unwrap())
}
fn show_ekey(k: &ExprNodeId) -> String {
    let (i, v) = key_parts(format!("{:?}", k.0));
    format!("{i}.{v}")
}
fn show_tkey(k: &TypeNodeId) -> String {
    let (i, v) = key_parts(format!("{:?}", k.0));
    format!("{i}.{v}")
}

// ---------------------------------------------------------------- pool of real expressions / types
struct Pool {
    exprs: Vec<(ExprNodeId, Expr)>,
    types: Vec<(TypeNodeId, String)>,
}
fn build_pool() -> Pool {
    let mut exprs = vec![];
    let mut push = |e: Expr| {
        let id = e.clone().into_id_without_span();
        exprs.push((id, e));
        id
    };
    let a = push(Expr::Literal(Literal::Int(42)));
    let b = push(Expr::Literal(Literal::Float("1.5".to_symbol())));
    let c = push(Expr::Literal(Literal::String("h\u{e9}llo \u{1f3b5}".to_symbol())));
    let x = push(Expr::Var("x".to_symbol()));
    let f = push(Expr::Var("f".to_symbol()));
    let app = push(Expr::Apply(f, vec![a, x]));
    let _ = push(Expr::Apply(f, vec![]));
    let tup = push(Expr::Tuple(vec![a, b, c]));
    let _ = push(Expr::Tuple(vec![]));
    let _ = push(Expr::Apply(app, vec![tup, app]));
    let _ = push(Expr::Literal(Literal::Now));
    let _ = push(Expr::Literal(Literal::SelfLit));
    let _ = push(Expr::ArrayLiteral(vec![x, x, a]));
    let _ = push(Expr::Block(Some(app)));
    let _ = push(Expr::Bracket(app));
    let _ = push(Expr::Escape(x));
    let mut types = vec![];
    let mut pusht = |t: Type| {
        let id = t.clone().into_id();
        types.push((id, show_type(&t)));
        id
    };
    let n = pusht(Type::Primitive(PType::Numeric));
    let s = pusht(Type::Primitive(PType::String));
    let u = pusht(Type::Primitive(PType::Unit));
    let i = pusht(Type::Primitive(PType::Int));
    let arr = pusht(Type::Array(n));
    let tup = pusht(Type::Tuple(vec![n, s, arr]));
    let _ = pusht(Type::Tuple(vec![]));
    let rec = pusht(Type::Record(vec![
        RecordTypeField::new("freq".to_symbol(), n, false),
        RecordTypeField::new("n\u{e4}me".to_symbol(), s, true),
    ]));
    let _ = pusht(Type::Record(vec![]));
    let fun = pusht(Type::Function { arg: rec, ret: tup });
    let _ = pusht(Type::Ref(fun));
    let _ = pusht(Type::Code(fun));
    let _ = pusht(Type::Union(vec![n, s, u]));
    let _ = pusht(Type::UserSum {
        name: "Shape".to_symbol(),
        variants: vec![("Circle".to_symbol(), Some(n)), ("Empty".to_symbol(), None), ("Pair".to_symbol(), Some(tup))],
    });
    let _ = pusht(Type::UserSum { name: "Void".to_symbol(), variants: vec![] });
    let _ = pusht(Type::Boxed(i));
    let _ = pusht(Type::TypeAlias("Alias".to_symbol()));
    let _ = pusht(Type::Any);
    let _ = pusht(Type::Failure);
    let _ = pusht(Type::Unknown);
    Pool { exprs, types }
}

// ---------------------------------------------------------------- hex
fn hex(bs: &[u8]) -> String {
    let mut s = String::with_capacity(bs.len() * 2);
    for b in bs {
        s.push_str(&format!("{b:02x}"));
    }
    s
}
fn unhex(s: &str) -> Vec<u8> {
    let b = s.as_bytes();
    assert!(b.len() % 2 == 0, "odd hex");
    (0..b.len() / 2)
        .map(|i| u8::from_str_radix(std::str::from_utf8(&b[2 * i..2 * i + 2]).unwrap(), 16).unwrap())
        .collect()
}

// ---------------------------------------------------------------- term parser
/// value ::= u | n<16 hex> | s[<sym>] | a(<value>,..) | t(<value>,..) | r(<sym>=<value>,..) | c[<key>] | e[<key>]
///         | g[<dec>](<value>) | l[<key>](<sym>,..) | f[<sym>;<key>] | x[<sym>] | m(<value>) | k[<dec>;<sym>;<key>]
/// ffi   ::= e | u | n.. | s[..] | a(..) | t(..) | r(..) | c[<key>] | g[<dec>](<ffi>)
/// key   ::= <idx>.<version>          sym ::= <hex of the UTF-8 bytes>  (text mode)  |  <decimal id>  (id mode)
struct Parser<'a> {
    s: &'a [u8],
    p: usize,
    ids: bool,
}
impl<'a> Parser<'a> {
    fn new(s: &'a str, ids: bool) -> Self {
        Parser { s: s.as_bytes(), p: 0, ids }
    }
    fn peek(&self) -> u8 {
        if self.p < self.s.len() { self.s[self.p] } else { 0 }
    }
    fn eat(&mut self, c: u8) {
        assert!(self.peek() == c, "expected {} at {}", c as char, self.p);
        self.p += 1;
    }
    fn word(&mut self) -> &'a str {
        let st = self.p;
        while self.p < self.s.len() && (self.s[self.p].is_ascii_alphanumeric()) {
            self.p += 1;
        }
        std::str::from_utf8(&self.s[st..self.p]).unwrap()
    }
    fn dec(&mut self) -> u64 {
        self.word().parse().expect("decimal")
    }
    fn key(&mut self) -> (u64, u64) {
        let i = self.dec();
        self.eat(b'.');
        let v = self.dec();
        (i, v)
    }
    fn sym(&mut self) -> Symbol {
        if self.ids {
            Symbol(self.dec() as usize)
        } else {
            String::from_utf8(unhex(self.word())).expect("symbol text must be UTF-8").to_symbol()
        }
    }
    fn list<T>(&mut self, mut item: impl FnMut(&mut Self) -> T) -> Vec<T> {
        self.eat(b'(');
        let mut v = vec![];
        if self.peek() == b')' {
            self.p += 1;
            return v;
        }
        loop {
            v.push(item(self));
            if self.peek() == b',' {
                self.p += 1;
            } else {
                self.eat(b')');
                return v;
            }
        }
    }
    fn value(&mut self) -> Value {
        let c = self.peek();
        self.p += 1;
        match c {
            b'u' => Value::Unit,
            b'n' => {
                let w = self.word();
                Value::Number(f64::from_bits(u64::from_str_radix(w, 16).unwrap()))
            }
            b's' => {
                self.eat(b'[');
                let s = self.sym();
                self.eat(b']');
                Value::String(s)
            }
            b'a' => Value::Array(self.list(|p| p.value())),
            b't' => Value::Tuple(self.list(|p| p.value())),
            b'r' => Value::Record(self.list(|p| {
                let k = p.sym();
                p.eat(b'=');
                (k, p.value())
            })),
            b'c' | b'e' => {
                self.eat(b'[');
                let (i, v) = self.key();
                self.eat(b']');
                if c == b'c' { Value::Code(ekey(i, v)) } else { Value::ErrorV(ekey(i, v)) }
            }
            b'g' => {
                self.eat(b'[');
                let tag = self.dec();
                self.eat(b']');
                self.eat(b'(');
                let v = self.value();
                self.eat(b')');
                Value::TaggedUnion(tag, Box::new(v))
            }
            b'l' => {
                self.eat(b'[');
                let (i, v) = self.key();
                self.eat(b']');
                let names = self.list(|p| p.sym());
                Value::Closure(ekey(i, v), names, Environment::new())
            }
            b'f' => {
                self.eat(b'[');
                let s = self.sym();
                self.eat(b';');
                let (i, v) = self.key();
                self.eat(b']');
                Value::Fixpoint(s, ekey(i, v))
            }
            b'x' => {
                self.eat(b'[');
                let s = self.sym();
                self.eat(b']');
                Value::ExternalFn(ExtFunction::new(s, |_| Value::Unit))
            }
            b'm' => {
                self.eat(b'(');
                let v = self.value();
                self.eat(b')');
                Value::Store(Rc::new(RefCell::new(v)))
            }
            b'k' => {
                self.eat(b'[');
                let tag = self.dec();
                self.eat(b';');
                let s = self.sym();
                self.eat(b';');
                let (i, v) = self.key();
                self.eat(b']');
                Value::ConstructorFn(tag, s, tkey(i, v))
            }
            _ => panic!("bad value term at {}", self.p - 1),
        }
    }
    fn ffi(&mut self) -> FfiValue {
        let c = self.peek();
        self.p += 1;
        match c {
            b'e' => FfiValue::ErrorV,
            b'u' => FfiValue::Unit,
            b'n' => FfiValue::Number(f64::from_bits(u64::from_str_radix(self.word(), 16).unwrap())),
            b's' => {
                self.eat(b'[');
                let s = String::from_utf8(unhex(self.word())).unwrap();
                self.eat(b']');
                FfiValue::String(s)
            }
            b'a' => FfiValue::Array(self.list(|p| p.ffi())),
            b't' => FfiValue::Tuple(self.list(|p| p.ffi())),
            b'r' => FfiValue::Record(self.list(|p| {
                let k = String::from_utf8(unhex(p.word())).unwrap();
                p.eat(b'=');
                (k, p.ffi())
            })),
            b'c' => {
                self.eat(b'[');
                let (i, v) = self.key();
                self.eat(b']');
                FfiValue::Code(ekey(i, v))
            }
            b'g' => {
                self.eat(b'[');
                let tag = self.dec();
                self.eat(b']');
                self.eat(b'(');
                let v = self.ffi();
                self.eat(b')');
                FfiValue::TaggedUnion(tag, Box::new(v))
            }
            _ => panic!("bad ffi term at {}", self.p - 1),
        }
    }
}

// ---------------------------------------------------------------- printers (never dereference a key)
fn show_sym(s: &Symbol, ids: bool) -> String {
    if ids { format!("{}", s.0) } else { hex(s.as_str().as_bytes()) }
}
fn show_value(v: &Value, ids: bool) -> String {
    match v {
        Value::ErrorV(e) => format!("e[{}]", show_ekey(e)),
        Value::Unit => "u".into(),
        Value::Number(n) => format!("n{:016x}", n.to_bits()),
        Value::String(s) => format!("s[{}]", show_sym(s, ids)),
        Value::Array(l) => format!("a({})", l.iter().map(|x| show_value(x, ids)).collect::<Vec<_>>().join(",")),
        Value::Tuple(l) => format!("t({})", l.iter().map(|x| show_value(x, ids)).collect::<Vec<_>>().join(",")),
        Value::Record(l) => format!(
            "r({})",
            l.iter().map(|(k, x)| format!("{}={}", show_sym(k, ids), show_value(x, ids))).collect::<Vec<_>>().join(",")
        ),
        Value::Closure(e, names, _) => format!(
            "l[{}]({})",
            show_ekey(e),
            names.iter().map(|s| show_sym(s, ids)).collect::<Vec<_>>().join(",")
        ),
        Value::Fixpoint(s, e) => format!("f[{};{}]", show_sym(s, ids), show_ekey(e)),
        Value::Code(e) => format!("c[{}]", show_ekey(e)),
        Value::ExternalFn(_) => "x[?]".into(),
        Value::Store(x) => format!("m({})", show_value(&x.borrow(), ids)),
        Value::TaggedUnion(tag, x) => format!("g[{}]({})", tag, show_value(x, ids)),
        Value::ConstructorFn(tag, s, t) => format!("k[{};{};{}]", tag, show_sym(s, ids), show_tkey(t)),
    }
}
fn show_ffi(v: &FfiValue) -> String {
    match v {
        FfiValue::ErrorV => "e".into(),
        FfiValue::Unit => "u".into(),
        FfiValue::Number(n) => format!("n{:016x}", n.to_bits()),
        FfiValue::String(s) => format!("s[{}]", hex(s.as_bytes())),
        FfiValue::Array(l) => format!("a({})", l.iter().map(show_ffi).collect::<Vec<_>>().join(",")),
        FfiValue::Tuple(l) => format!("t({})", l.iter().map(show_ffi).collect::<Vec<_>>().join(",")),
        FfiValue::Record(l) => format!(
            "r({})",
            l.iter().map(|(k, x)| format!("{}={}", hex(k.as_bytes()), show_ffi(x))).collect::<Vec<_>>().join(",")
        ),
        FfiValue::Code(e) => format!("c[{}]", show_ekey(e)),
        FfiValue::TaggedUnion(tag, x) => format!("g[{}]({})", tag, show_ffi(x)),
    }
}
fn show_keys(l: &[TypeNodeId]) -> String {
    l.iter().map(show_tkey).collect::<Vec<_>>().join(",")
}
/// type ::= Primitive:<Unit|Int|Numeric|String> | Array:<key> | Tuple:<key>,.. | Record:<id>/<key>/<0|1>,.. | Function:<key>,<key>
///        | Ref:<key> | Code:<key> | Union:<key>,.. | UserSum:<id>;<id>/<key or ->,.. | Boxed:<key> | TypeAlias:<id>
///        | Any | Failure | Unknown | Intermediate:<n> | TypeScheme:<n>
fn show_type(t: &Type) -> String {
    match t {
        Type::Primitive(p) => format!("Primitive:{p:?}"),
        Type::Array(k) => format!("Array:{}", show_tkey(k)),
        Type::Tuple(l) => format!("Tuple:{}", show_keys(l)),
        Type::Record(l) => format!(
            "Record:{}",
            l.iter()
                .map(|f| format!("{}/{}/{}", f.key.0, show_tkey(&f.ty), f.has_default as u8))
                .collect::<Vec<_>>()
                .join(",")
        ),
        Type::Function { arg, ret } => format!("Function:{},{}", show_tkey(arg), show_tkey(ret)),
        Type::Ref(k) => format!("Ref:{}", show_tkey(k)),
        Type::Code(k) => format!("Code:{}", show_tkey(k)),
        Type::Union(l) => format!("Union:{}", show_keys(l)),
        Type::UserSum { name, variants } => format!(
            "UserSum:{};{}",
            name.0,
            variants
                .iter()
                .map(|(s, o)| format!("{}/{}", s.0, o.as_ref().map(show_tkey).unwrap_or("-".into())))
                .collect::<Vec<_>>()
                .join(",")
        ),
        Type::Boxed(k) => format!("Boxed:{}", show_tkey(k)),
        Type::Intermediate(tv) => format!("Intermediate:{}", tv.read().unwrap().var.0),
        Type::TypeScheme(id) => format!("TypeScheme:{}", id.0),
        Type::TypeAlias(s) => format!("TypeAlias:{}", s.0),
        Type::Any => "Any".into(),
        Type::Failure => "Failure".into(),
        Type::Unknown => "Unknown".into(),
    }
}
fn parse_key(s: &str) -> (u64, u64) {
    let (a, b) = s.split_once('.').expect("key");
    (a.parse().unwrap(), b.parse().unwrap())
}
fn parse_tkey(s: &str) -> TypeNodeId {
    let (i, v) = parse_key(s);
    tkey(i, v)
}
fn items(s: &str) -> Vec<&str> {
    if s.is_empty() { vec![] } else { s.split(',').collect() }
}
fn parse_type(s: &str) -> Type {
    let (head, rest) = s.split_once(':').unwrap_or((s, ""));
    match head {
        "Primitive" => Type::Primitive(match rest {
            "Unit" => PType::Unit,
            "Int" => PType::Int,
            "Numeric" => PType::Numeric,
            "String" => PType::String,
            _ => panic!("ptype"),
        }),
        "Array" => Type::Array(parse_tkey(rest)),
        "Tuple" => Type::Tuple(items(rest).into_iter().map(parse_tkey).collect()),
        "Record" => Type::Record(
            items(rest)
                .into_iter()
                .map(|f| {
                    let p: Vec<&str> = f.split('/').collect();
                    RecordTypeField::new(Symbol(p[0].parse().unwrap()), parse_tkey(p[1]), p[2] == "1")
                })
                .collect(),
        ),
        "Function" => {
            let p = items(rest);
            Type::Function { arg: parse_tkey(p[0]), ret: parse_tkey(p[1]) }
        }
        "Ref" => Type::Ref(parse_tkey(rest)),
        "Code" => Type::Code(parse_tkey(rest)),
        "Union" => Type::Union(items(rest).into_iter().map(parse_tkey).collect()),
        "UserSum" => {
            let (name, vs) = rest.split_once(';').unwrap();
            Type::UserSum {
                name: Symbol(name.parse().unwrap()),
                variants: items(vs)
                    .into_iter()
                    .map(|v| {
                        let (s, k) = v.split_once('/').unwrap();
                        (Symbol(s.parse().unwrap()), if k == "-" { None } else { Some(parse_tkey(k)) })
                    })
                    .collect(),
            }
        }
        "Boxed" => Type::Boxed(parse_tkey(rest)),
        "Intermediate" => Type::Intermediate(Arc::new(RwLock::new(TypeVar::new(IntermediateId(rest.parse().unwrap()), 0)))),
        "TypeScheme" => Type::TypeScheme(TypeSchemeId(rest.parse().unwrap())),
        "TypeAlias" => Type::TypeAlias(Symbol(rest.parse().unwrap())),
        "Any" => Type::Any,
        "Failure" => Type::Failure,
        "Unknown" => Type::Unknown,
        _ => panic!("bad type term {s}"),
    }
}

// ---------------------------------------------------------------- implementation-only checks
/// same Symbol ids at the same places (shapes already known equal by the printed form)
fn same_symbols(a: &Value, b: &Value) -> bool {
    match (a, b) {
        (Value::String(x), Value::String(y)) => x.0 == y.0,
        (Value::Array(x), Value::Array(y)) | (Value::Tuple(x), Value::Tuple(y)) => {
            x.len() == y.len() && x.iter().zip(y).all(|(p, q)| same_symbols(p, q))
        }
        (Value::Record(x), Value::Record(y)) => {
            x.len() == y.len() && x.iter().zip(y).all(|((k1, p), (k2, q))| k1.0 == k2.0 && same_symbols(p, q))
        }
        (Value::TaggedUnion(_, p), Value::TaggedUnion(_, q)) => same_symbols(p, q),
        _ => true,
    }
}
/// Code keys that denote real pool expressions still denote an equal expression
fn same_code(pool: &Pool, a: &Value, b: &Value) -> bool {
    match (a, b) {
        (Value::Code(x), Value::Code(y)) => {
            let kx = show_ekey(x);
            match pool.exprs.iter().find(|(id, _)| show_ekey(id) == kx) {
                Some((_, e)) => pool.exprs.iter().any(|(id, _)| show_ekey(id) == show_ekey(y)) && y.to_expr() == *e,
                None => true,
            }
        }
        (Value::Array(x), Value::Array(y)) | (Value::Tuple(x), Value::Tuple(y)) => {
            x.len() == y.len() && x.iter().zip(y).all(|(p, q)| same_code(pool, p, q))
        }
        (Value::Record(x), Value::Record(y)) => {
            x.len() == y.len() && x.iter().zip(y).all(|((_, p), (_, q))| same_code(pool, p, q))
        }
        (Value::TaggedUnion(_, p), Value::TaggedUnion(_, q)) => same_code(pool, p, q),
        _ => true,
    }
}
fn err_class(msg: &str) -> &'static str {
    if msg.contains("Closure") {
        "Closure"
    } else if msg.contains("Fixpoint") {
        "Fixpoint"
    } else if msg.contains("External function") {
        "ExternalFn"
    } else if msg.contains("Mutable store") {
        "Store"
    } else if msg.contains("Constructor function") {
        "ConstructorFn"
    } else {
        "Other"
    }
}
fn strict<'a, T: serde::Deserialize<'a>>(bytes: &'a [u8]) -> bool {
    use bincode::Options;
    bincode::DefaultOptions::new().with_fixint_encoding().reject_trailing_bytes().deserialize::<T>(bytes).is_ok()
}
fn show_args(l: &[(Value, TypeNodeId)]) -> String {
    l.iter().map(|(v, k)| format!("{};{}", show_value(v, false), show_tkey(k))).collect::<Vec<_>>().join("|")
}

fn handle(pool: &Pool, line: &str) -> String {
    let (cmd, arg) = line.split_once(' ').unwrap_or((line, ""));
    match cmd {
        "V" => {
            let v = Parser::new(arg, false).value();
            match serialize_value(&v) {
                Err(m) => format!("ERR {}\t", err_class(&m)),
                Ok(bytes) => {
                    let via_ffi = v.to_ffi_value().ok().and_then(|f| bincode::serialize(&f).ok());
                    let back = guarded(|| deserialize_value(&bytes));
                    match back {
                        Ok(Ok(w)) => format!(
                            "OK {} | {}\tffi={} sym={} code={} strict={}",
                            hex(&bytes),
                            show_value(&w, false),
                            (via_ffi.as_deref() == Some(&bytes[..])) as u8,
                            same_symbols(&v, &w) as u8,
                            same_code(pool, &v, &w) as u8,
                            strict::<FfiValue>(&bytes) as u8
                        ),
                        Ok(Err(_)) => format!("OK {} | REJECT\t", hex(&bytes)),
                        Err(p) => format!("OK {} | PANIC\t{}", hex(&bytes), p),
                    }
                }
            }
        }
        "M" => {
            let args: Vec<(Value, TypeNodeId)> = if arg.is_empty() {
                vec![]
            } else {
                arg.split('|')
                    .map(|a| {
                        let (v, k) = a.rsplit_once(';').expect("arg");
                        (Parser::new(v, false).value(), parse_tkey(k))
                    })
                    .collect()
            };
            match serialize_macro_args(&args) {
                Err(m) => format!("ERR {}\t", err_class(&m)),
                Ok(bytes) => match guarded(|| deserialize_macro_args(&bytes)) {
                    Ok(Ok(w)) => format!(
                        "OK {} | {}\tsym={} code={} strict={}",
                        hex(&bytes),
                        show_args(&w),
                        (w.len() == args.len() && args.iter().zip(&w).all(|(a, b)| same_symbols(&a.0, &b.0))) as u8,
                        (w.len() == args.len() && args.iter().zip(&w).all(|(a, b)| same_code(pool, &a.0, &b.0))) as u8,
                        strict::<Vec<(FfiValue, TypeNodeId)>>(&bytes) as u8
                    ),
                    Ok(Err(_)) => format!("OK {} | REJECT\t", hex(&bytes)),
                    Err(p) => format!("OK {} | PANIC\t{}", hex(&bytes), p),
                },
            }
        }
        "F" => {
            let f = Parser::new(arg, false).ffi();
            match bincode::serialize(&f) {
                Err(_) => "ERR\t".into(),
                Ok(bytes) => match guarded(|| bincode::deserialize::<FfiValue>(&bytes)) {
                    Ok(Ok(w)) => format!("OK {} | {}\tstrict={}", hex(&bytes), show_ffi(&w), strict::<FfiValue>(&bytes) as u8),
                    Ok(Err(_)) => format!("OK {} | REJECT\t", hex(&bytes)),
                    Err(p) => format!("OK {} | PANIC\t{}", hex(&bytes), p),
                },
            }
        }
        "X" => {
            let v = Parser::new(arg, true).value();
            match bincode::serialize(&v) {
                Err(_) => "ERR\t".into(),
                Ok(bytes) => match guarded(|| bincode::deserialize::<Value>(&bytes)) {
                    Ok(Ok(w)) => format!("OK {} | {}\tstrict={}", hex(&bytes), show_value(&w, true), strict::<Value>(&bytes) as u8),
                    Ok(Err(_)) => format!("OK {} | REJECT\t", hex(&bytes)),
                    Err(p) => format!("OK {} | PANIC\t{}", hex(&bytes), p),
                },
            }
        }
        "T" => {
            let t = parse_type(arg);
            match bincode::serialize(&t) {
                Err(_) => "ERR\t".into(),
                Ok(bytes) => match guarded(|| bincode::deserialize::<Type>(&bytes)) {
                    Ok(Ok(w)) => {
                        // a pool type is made of real keys only: the crate's own PartialEq may be used on it
                        let real = pool.types.iter().any(|(_, s)| s == arg);
                        format!(
                            "OK {} | {}\tstrict={} eq={}",
                            hex(&bytes),
                            show_type(&w),
                            strict::<Type>(&bytes) as u8,
                            if real { (w == t) as u8 } else { 1 }
                        )
                    }
                    Ok(Err(_)) => format!("OK {} | REJECT\t", hex(&bytes)),
                    Err(p) => format!("OK {} | PANIC\t{}", hex(&bytes), p),
                },
            }
        }
        "K" => {
            let k = parse_tkey(arg);
            match bincode::serialize(&k) {
                Err(_) => "ERR\t".into(),
                Ok(bytes) => match guarded(|| bincode::deserialize::<TypeNodeId>(&bytes)) {
                    Ok(Ok(w)) => {
                        let real = pool.types.iter().any(|(id, _)| show_tkey(id) == arg);
                        format!(
                            "OK {} | {}\tstrict={} eq={}",
                            hex(&bytes),
                            show_tkey(&w),
                            strict::<TypeNodeId>(&bytes) as u8,
                            if real { (w == k) as u8 } else { 1 }
                        )
                    }
                    Ok(Err(_)) => format!("OK {} | REJECT\t", hex(&bytes)),
                    Err(p) => format!("OK {} | PANIC\t{}", hex(&bytes), p),
                },
            }
        }
        "DV" => {
            let bytes = unhex(arg);
            match guarded(|| deserialize_value(&bytes)) {
                Ok(Ok(w)) => format!("OK {} strict={}\t", show_value(&w, false), strict::<FfiValue>(&bytes) as u8),
                Ok(Err(_)) => "REJECT\t".into(),
                Err(p) => format!("PANIC\t{p}"),
            }
        }
        "DM" => {
            let bytes = unhex(arg);
            match guarded(|| deserialize_macro_args(&bytes)) {
                Ok(Ok(w)) => format!("OK {} strict={}\t", show_args(&w), strict::<Vec<(FfiValue, TypeNodeId)>>(&bytes) as u8),
                Ok(Err(_)) => "REJECT\t".into(),
                Err(p) => format!("PANIC\t{p}"),
            }
        }
        "DF" => {
            let bytes = unhex(arg);
            match guarded(|| bincode::deserialize::<FfiValue>(&bytes)) {
                Ok(Ok(w)) => format!("OK {} strict={}\t", show_ffi(&w), strict::<FfiValue>(&bytes) as u8),
                Ok(Err(_)) => "REJECT\t".into(),
                Err(p) => format!("PANIC\t{p}"),
            }
        }
        "DX" => {
            let bytes = unhex(arg);
            match guarded(|| bincode::deserialize::<Value>(&bytes)) {
                Ok(Ok(w)) => format!("OK {} strict={}\t", show_value(&w, true), strict::<Value>(&bytes) as u8),
                Ok(Err(_)) => "REJECT\t".into(),
                Err(p) => format!("PANIC\t{p}"),
            }
        }
        "DT" => {
            let bytes = unhex(arg);
            match guarded(|| bincode::deserialize::<Type>(&bytes)) {
                Ok(Ok(w)) => format!("OK {} strict={}\t", show_type(&w), strict::<Type>(&bytes) as u8),
                Ok(Err(_)) => "REJECT\t".into(),
                Err(p) => format!("PANIC\t{p}"),
            }
        }
        "DK" => {
            let bytes = unhex(arg);
            match guarded(|| bincode::deserialize::<TypeNodeId>(&bytes)) {
                Ok(Ok(w)) => format!("OK {} strict={}\t", show_tkey(&w), strict::<TypeNodeId>(&bytes) as u8),
                Ok(Err(_)) => "REJECT\t".into(),
                Err(p) => format!("PANIC\t{p}"),
            }
        }
        "U" => {
            let bytes = unhex(arg);
            format!("{}\t", String::from_utf8(bytes).is_ok() as u8)
        }
        _ => format!("BADCMD {cmd}\t"),
    }
}

fn main() {
    quiet_panics();
    let pool = build_pool();
    if std::env::args().any(|a| a == "--pool") {
        println!("exprs {}", pool.exprs.iter().map(|(k, _)| show_ekey(k)).collect::<Vec<_>>().join(" "));
        println!("types {}", pool.types.iter().map(|(k, _)| show_tkey(k)).collect::<Vec<_>>().join(" "));
        for (_, s) in &pool.types {
            println!("type {s}");
        }
        return;
    }
    let stdin = std::io::stdin();
    let stdout = std::io::stdout();
    let mut out = std::io::BufWriter::new(stdout.lock());
    for line in stdin.lock().lines() {
        let line = line.unwrap();
        if line.is_empty() {
            continue;
        }
        let ans = match guarded(|| handle(&pool, &line)) {
            Ok(s) => s,
            Err(p) => format!("HARNESS-PANIC\t{p}"),
        };
        writeln!(out, "{ans}").unwrap();
    }
}
