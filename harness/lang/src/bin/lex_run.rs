//! C13/C04 correspondence harness: real `parser::tokenize`, `parser::preparse`, `parser::parse_cst`.
//!
//! stdin : one case per line = the UTF-8 bytes of a source text in hex (empty line = empty text)
//! stdout: one line per case, TAB separated fields
//!   C  cp.bits,cp.bits,...          every char of the text with the character-class answers the
//!                                   tokenizer gives for it (bits: 1 is_newline, 2 is_ident_start,
//!                                   4 is_ident_continue, 8 is_digit(10), 16 is_ascii_digit)
//!   T  Kind:start:len,...           tokens of tokenize()            | PANIC
//!   P  i,..|k=i.i,..|k=i.i,..       preparse(): token_indices | leading map | trailing map (keys ascending) | PANIC
//!   X  i,i,...                      token_index of the in-order Token leaves of parse_cst()'s tree | PANIC
//!   B  0/1 per token                str::is_char_boundary(start) && is_char_boundary(end) && end <= len
//!
//! The class bits of XID_Start/XID_Continue/newline are *observed through the real tokenizer* on
//! one- and two-character probes (the harness crate has no direct dependency on chumsky/unicode-ident):
//!   is_newline(c)        <=> tokenize("//" + c)[0].length == 2   (a line comment stops exactly at text::newline)
//!   is_ident_start(c)    <=> tokenize(c + "a")[0].length == len(c) + 1
//!   is_ident_continue(c) <=> tokenize("a" + c)[0].length == 1 + len(c)
use mimium_lang::compiler::parser::{self, GreenNodeArena, GreenNodeId, Token, green::GreenNode};
use std::collections::HashMap;
use std::fmt::Write as _;
use std::io::{self, BufRead, Write};
use verif_lang::common::{guarded, quiet_panics};

fn class_bits(c: char, cache: &mut HashMap<char, u8>) -> u8 {
    if let Some(b) = cache.get(&c) {
        return *b;
    }
    let n = c.len_utf8();
    let first_len = |s: &str| -> usize {
        guarded(|| parser::tokenize(s).first().map(|t| t.length).unwrap_or(0)).unwrap_or(usize::MAX)
    };
    let mut b = 0u8;
    if first_len(&format!("//{c}")) == 2 {
        b |= 1;
    }
    if first_len(&format!("{c}a")) == n + 1 {
        b |= 2;
    }
    if first_len(&format!("a{c}")) == 1 + n {
        b |= 4;
    }
    if c.is_digit(10) {
        b |= 8;
    }
    if c.is_ascii_digit() {
        b |= 16;
    }
    cache.insert(c, b);
    b
}

fn unhex(s: &str) -> Option<String> {
    let s = s.trim();
    if s.len() % 2 != 0 {
        return None;
    }
    let bytes: Option<Vec<u8>> = (0..s.len() / 2)
        .map(|i| u8::from_str_radix(&s[2 * i..2 * i + 2], 16).ok())
        .collect();
    String::from_utf8(bytes?).ok()
}

fn show_map(m: &HashMap<usize, Vec<usize>>, out: &mut String) {
    let mut keys: Vec<_> = m.keys().copied().collect();
    keys.sort();
    for (n, k) in keys.iter().enumerate() {
        if n > 0 {
            out.push(',');
        }
        let _ = write!(out, "{k}=");
        for (j, v) in m[k].iter().enumerate() {
            if j > 0 {
                out.push('.');
            }
            let _ = write!(out, "{v}");
        }
    }
}

fn leaves(arena: &GreenNodeArena, id: GreenNodeId, out: &mut Vec<usize>) {
    match arena.get(id) {
        GreenNode::Token { token_index, .. } => out.push(*token_index),
        GreenNode::Internal { children, .. } => {
            for c in children {
                leaves(arena, *c, out);
            }
        }
    }
}

fn run_case(src: &str, cache: &mut HashMap<char, u8>, line: &mut String) {
    for (i, c) in src.chars().enumerate() {
        if i > 0 {
            line.push(',');
        }
        let _ = write!(line, "{}.{}", c as u32, class_bits(c, cache));
    }
    line.push('\t');
    let tokens: Vec<Token> = match guarded(|| parser::tokenize(src)) {
        Ok(t) => t,
        Err(_) => {
            line.push_str("PANIC\tPANIC\tPANIC\t");
            return;
        }
    };
    for (i, t) in tokens.iter().enumerate() {
        if i > 0 {
            line.push(',');
        }
        let _ = write!(line, "{:?}:{}:{}", t.kind, t.start, t.length);
    }
    line.push('\t');
    let pre = match guarded(|| parser::preparse(&tokens)) {
        Ok(p) => p,
        Err(_) => {
            line.push_str("PANIC\tPANIC\t");
            return;
        }
    };
    for (i, t) in pre.token_indices.iter().enumerate() {
        if i > 0 {
            line.push(',');
        }
        let _ = write!(line, "{t}");
    }
    line.push('|');
    show_map(&pre.leading_trivia_map, line);
    line.push('|');
    show_map(&pre.trailing_trivia_map, line);
    line.push('\t');
    match guarded(|| {
        let (root, arena, _tokens, _errors) = parser::parse_cst(tokens.clone(), &pre);
        let mut out = Vec::new();
        leaves(&arena, root, &mut out);
        out
    }) {
        Ok(ls) => {
            for (i, l) in ls.iter().enumerate() {
                if i > 0 {
                    line.push(',');
                }
                let _ = write!(line, "{l}");
            }
        }
        Err(_) => line.push_str("PANIC"),
    }
    line.push('\t');
    for t in &tokens {
        let end = t.start.checked_add(t.length).unwrap_or(usize::MAX);
        let ok = end <= src.len() && src.is_char_boundary(t.start) && src.is_char_boundary(end);
        line.push(if ok { '1' } else { '0' });
    }
}

fn main() {
    quiet_panics();
    // the CST parser is recursive: give it room
    let h = std::thread::Builder::new()
        .stack_size(512 << 20)
        .spawn(|| {
            let stdin = io::stdin();
            let stdout = io::stdout();
            let mut w = io::BufWriter::with_capacity(1 << 16, stdout.lock());
            let mut cache: HashMap<char, u8> = HashMap::new();
            let mut line = String::new();
            for l in stdin.lock().lines() {
                let l = match l {
                    Ok(l) => l,
                    Err(_) => break,
                };
                line.clear();
                match unhex(&l) {
                    Some(src) => run_case(&src, &mut cache, &mut line),
                    None => line.push_str("BADINPUT\t\t\t\t"),
                }
                line.push('\n');
                if w.write_all(line.as_bytes()).is_err() {
                    break;
                }
            }
            let _ = w.flush();
        })
        .unwrap();
    let _ = h.join();
}
