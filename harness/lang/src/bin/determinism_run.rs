// C15 harness: compiles a mimium source with the real compiler and reports every artefact the property names
// (bytecode listing = Display of vm::Program, WASM bytes, Display of Mir, dsp state skeleton, io channels, output samples
// of both runtimes), as digests (and in full on request).  One process = one interner history and one set of
// RandomState seeds; the check (checks/C15.py) starts several processes and orders the requests differently in each.
//
// stdin, one JSON object per line:
//   {"op":"obs","id":..,"src":"..","path":".."|null,"sched":bool,"n":32,"full":bool}   observe all artefacts
//   {"op":"hist","id":..,"src":"..","path":..}                                       compile only (history), artefacts dropped
//   {"op":"intern","id":..,"names":["..",..]}                                        intern names (history)
// stdout: "@@RES {json}" per request.  obs answer:
//   {"id":..,"mir":D,"bc":D,"wasm":D,"skel":"..","io":[i,o],"vm_out":D,"wasm_out":D,"errs":{"mir":[..],..}}
//   D = {"h":"<128-bit fnv digest>","len":n[,"text":"..."]}   |  {"err":[messages]}  |  {"panic":"msg"}
use mimium_audiodriver::backends::local_buffer::LocalBufferDriver;
use mimium_audiodriver::driver::Driver;
use mimium_lang::plugin::Plugin;
use mimium_lang::utils::error::ReportableError;
use mimium_lang::{Config, ExecContext};
use serde_json::{Value, json};
use std::io::{BufRead, Write};
use verif_lang::common::*;
use verif_lang::runner::*;

fn digest(bytes: &[u8]) -> String {
    let mut a: u64 = 0xcbf29ce484222325;
    let mut b: u64 = 0x84222325cbf29ce4;
    for &x in bytes {
        a = (a ^ x as u64).wrapping_mul(0x100000001b3);
        b = (b.rotate_left(5) ^ x as u64).wrapping_mul(0x9E3779B97F4A7C15);
    }
    format!("{a:016x}{b:016x}")
}

fn d_text(s: &str, full: bool) -> Value {
    let mut v = json!({"h": digest(s.as_bytes()), "len": s.len()});
    if full {
        v["text"] = json!(s);
    }
    v
}

/// "arg 93: number" -> "arg _: number"
pub fn mask_arg_ids(s: &str) -> String {
    let b = s.as_bytes();
    let mut out = String::with_capacity(s.len());
    let mut i = 0;
    while i < b.len() {
        if s[i..].starts_with("arg ") && (i == 0 || !(b[i - 1].is_ascii_alphanumeric() || b[i - 1] == b'_')) {
            let mut j = i + 4;
            while j < b.len() && b[j].is_ascii_digit() {
                j += 1;
            }
            if j > i + 4 && j < b.len() && b[j] == b':' {
                out.push_str("arg _");
                i = j;
                continue;
            }
        }
        let ch = s[i..].chars().next().unwrap();
        out.push(ch);
        i += ch.len_utf8();
    }
    out
}

/// "g(12)" -> "g(_)"
pub fn mask_scheme_ids(s: &str) -> String {
    let b = s.as_bytes();
    let mut out = String::with_capacity(s.len());
    let mut i = 0;
    while i < b.len() {
        if s[i..].starts_with("g(") && (i == 0 || !(b[i - 1].is_ascii_alphanumeric() || b[i - 1] == b'_')) {
            let mut j = i + 2;
            while j < b.len() && b[j].is_ascii_digit() {
                j += 1;
            }
            if j > i + 2 && j < b.len() && b[j] == b')' {
                out.push_str("g(_");
                i = j;
                continue;
            }
        }
        let ch = s[i..].chars().next().unwrap();
        out.push(ch);
        i += ch.len_utf8();
    }
    out
}

fn d_bytes(b: &[u8], full: bool) -> Value {
    let mut v = json!({"h": digest(b), "len": b.len()});
    if full {
        v["text"] = json!(b.iter().map(|x| format!("{x:02x}")).collect::<Vec<_>>().chunks(32).map(|c| c.join("")).collect::<Vec<_>>().join("\n"));
    }
    v
}

fn new_ctx(path: Option<&str>, sched: bool) -> (LocalBufferDriver, ExecContext) {
    let mut driver = LocalBufferDriver::new(0);
    let plug: Box<dyn Plugin> = Box::new(driver.get_as_plugin());
    let mut ctx = ExecContext::new([plug].into_iter(), path.map(std::path::PathBuf::from), Config::default());
    if sched {
        ctx.add_system_plugin(mimium_scheduler::get_default_scheduler_plugin());
    }
    ctx.prepare_compiler();
    (driver, ctx)
}

fn errs(e: &[Box<dyn ReportableError>]) -> Value {
    // message, then every label with its file and span: "exactly the diagnostics" includes where they point
    json!({"err": e.iter().map(|x| {
        let labels = x.get_labels().iter()
            .map(|(loc, m)| format!(" @{}:{}..{} {}", loc.path.display(), loc.span.start, loc.span.end, m))
            .collect::<Vec<_>>().join("");
        format!("{}{}", x.get_message(), labels)
    }).collect::<Vec<_>>()})
}

fn pan(m: String) -> Value {
    json!({"panic": m})
}

pub fn observe(case: &Value) -> Value {
    let src = case["src"].as_str().unwrap_or("");
    let path = case.get("path").and_then(|p| p.as_str());
    let sched = case["sched"].as_bool().unwrap_or(false);
    let n = case["n"].as_u64().unwrap_or(32) as usize;
    let full = case["full"].as_bool().unwrap_or(false);
    set_src_path(path);
    let mut res = json!({"id": case["id"]});
    // Mir Display
    res["mir"] = match guarded(|| {
        let (_d, ctx) = new_ctx(path, sched);
        ctx.get_compiler().unwrap().emit_mir(src).map(|m| format!("{m}"))
    }) {
        Err(m) => pan(m),
        Ok(Err(e)) => errs(&e),
        Ok(Ok(s)) => {
            // second digest with the numeral after `arg` masked (mir/print.rs prints the raw Symbol id there: finding F22)
            let mut v = d_text(&s, full);
            let m = mask_arg_ids(&s);
            v["hm"] = json!(digest(m.as_bytes()));
            // third digest with the type-scheme numerals g(<n>) masked as well (finding F23)
            let g = mask_scheme_ids(&m);
            v["hg"] = json!(digest(g.as_bytes()));
            v["generic"] = json!(g != m);   // the Mir retains a function with type-scheme variables
            v
        }
    };
    // bytecode listing
    res["bc"] = match guarded(|| {
        let (_d, ctx) = new_ctx(path, sched);
        ctx.get_compiler().unwrap().emit_bytecode(src).map(|p| format!("{p}"))
    }) {
        Err(m) => pan(m),
        Ok(Err(e)) => errs(&e),
        Ok(Ok(s)) => d_text(&s, full),
    };
    // WASM bytes, skeleton, io
    match guarded(|| {
        let (_d, ctx) = new_ctx(path, sched);
        ctx.get_compiler().unwrap().emit_wasm(src)
    }) {
        Err(m) => res["wasm"] = pan(m),
        Ok(Err(e)) => res["wasm"] = errs(&e),
        Ok(Ok(o)) => {
            res["wasm"] = d_bytes(&o.bytes, full);
            res["skel"] = json!(o.dsp_state_skeleton.as_ref().map(skel_to_string));
            res["io"] = json!(o.io_channels.map(|io| vec![io.input, io.output]));
        }
    }
    if n > 0 {
        // outputs on the VM
        res["vm_out"] = match guarded(|| {
            VmRun::new(src, sched).map(|mut vm| {
                let nin = vm.io().map_or(0, |io| io.input as usize);
                let mut s = String::new();
                s.push_str(&format!("skel {:?}\n", vm.skeleton()));
                for t in 0..n {
                    let input: Vec<f64> = (0..nin).map(|c| ((t * 7 + c * 3) % 11) as f64 * 0.125 - 0.5).collect();
                    let (rc, out) = vm.step(t as u64, &input);
                    s.push_str(&format!("{t} rc={rc} {}\n", out.iter().map(|x| fbits(*x)).collect::<Vec<_>>().join(" ")));
                }
                s
            })
        }) {
            Err(m) => pan(m),
            Ok(Err(e)) => json!({"err": e}),
            Ok(Ok(s)) => d_text(&s, full),
        };
        // outputs on the WASM runtime
        res["wasm_out"] = match guarded(|| {
            WasmRun::new(src, sched).map(|mut w| {
                let nin = w.io.map_or(0, |io| io.input as usize);
                let mut s = String::new();
                s.push_str(&format!("skel {:?}\n", w.skeleton()));
                for t in 0..n {
                    let input: Vec<f64> = (0..nin).map(|c| ((t * 7 + c * 3) % 11) as f64 * 0.125 - 0.5).collect();
                    let (rc, out) = w.step(t as u64, &input);
                    s.push_str(&format!("{t} rc={rc} {}\n", out.iter().map(|x| fbits(*x)).collect::<Vec<_>>().join(" ")));
                }
                s
            })
        }) {
            Err(m) => pan(m),
            Ok(Err(e)) => json!({"err": e}),
            Ok(Ok(s)) => d_text(&s, full),
        };
    }
    res
}

fn main() {
    quiet_panics();
    let stdin = std::io::stdin();
    let stdout = std::io::stdout();
    for line in stdin.lock().lines() {
        let line = line.unwrap();
        if line.trim().is_empty() {
            continue;
        }
        let case: Value = serde_json::from_str(&line).expect("bad json");
        let res = match case["op"].as_str().unwrap_or("obs") {
            "hist" => {
                let src = case["src"].as_str().unwrap_or("");
                let path = case.get("path").and_then(|p| p.as_str());
                set_src_path(path);
                let r = guarded(|| {
                    let (_d, ctx) = new_ctx(path, case["sched"].as_bool().unwrap_or(false));
                    // a prior compilation; the bytecode path runs the whole front end (lexer, parser, module resolution, typing, MIR)
                    ctx.get_compiler().unwrap().emit_bytecode(src).is_ok()
                });
                json!({"id": case["id"], "hist": format!("{r:?}")})
            }
            "intern" => {
                use mimium_lang::interner::ToSymbol;
                let mut ids = vec![];
                for nm in case["names"].as_array().cloned().unwrap_or_default() {
                    ids.push(nm.as_str().unwrap_or("").to_symbol().0);
                }
                json!({"id": case["id"], "ids": ids})
            }
            _ => observe(&case),
        };
        let mut out = stdout.lock();
        writeln!(out, "\n@@RES {}", res).unwrap();
        out.flush().unwrap();
    }
}
