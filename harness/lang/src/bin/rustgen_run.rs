// C18 harness: mimium source -> Context::emit_rust -> rustc (offline, the recipe of
// crates/lib/mimium-test/tests/rust_codegen_test.rs: generated source + mimium_test_main.rs.template,
// `rustc --edition=2024`) -> run the binary for N samples -> outputs as f64 bit patterns.
// stdin: one JSON object per line
//   {"id":..,"src":"...","n":N,"inputs":[[f,..],..] (optional, one row per sample; or "input_bits":[["hex",..],..]),
//    "path":"/abs/file.mmm" (optional: for include/use), "plugins":"none"|"sched" (default none = what the repo's test uses),
//    "dir":"/verif/.cache/rustgen" (scratch), "keep":bool (keep .rs/.bin even on success),
//    "source_only":bool (emit only; answer carries the generated source)}
// stdout: "@@RES {json}" per request:
//   {"id":..,"emit":"ok"|{"refused":[msgs]}|{"panic":msg},"io":[in,out],"has_main":bool,"lines":N,
//    "rustc":{"ok":bool,"stderr":"first error lines","ms":..},
//    "run":{"rc":code|"timeout"|"signal","stderr":"..","err":"call_dsp Err message"},
//    "samples":[["bits",..],..], "file":"path of the .rs (kept when something failed)"}
// The host given to the generated program: current_time() = sample index (what the VM's `now` is under
// LocalBufferDriver), sample_rate() = 48000, every external call refused with Err.
use mimium_audiodriver::backends::local_buffer::LocalBufferDriver;
use mimium_audiodriver::driver::Driver;
use mimium_lang::plugin::Plugin;
use mimium_lang::{Config, ExecContext};
use serde_json::{Value, json};
use std::io::{BufRead, Read, Write};
use std::path::PathBuf;
use std::process::{Command, Stdio};
use std::time::{Duration, Instant};
use verif_lang::common::*;
use verif_lang::runner::errs_to_strings;

/// mimium_test_main.rs.template of the checkout under test (VERIF_REPO, default /repo), read at start-up
fn main_template() -> &'static str {
    static T: std::sync::OnceLock<String> = std::sync::OnceLock::new();
    T.get_or_init(|| {
        let repo = std::env::var("VERIF_REPO").unwrap_or_else(|_| "/repo".to_string());
        std::fs::read_to_string(format!("{repo}/crates/lib/mimium-lang/src/compiler/mimium_test_main.rs.template"))
            .expect("mimium_test_main.rs.template not readable")
    })
}

const HOST_DECLS: &str = r#"
struct VerifHost { now: f64 }
impl MimiumHost for VerifHost {
    fn call_ext(&mut self, name: &str, _args: &[Word], _ret_words: usize) -> Result<Vec<Word>, String> {
        Err(format!("unexpected external call: {}", name))
    }
    fn current_time(&mut self) -> f64 { self.now }
    fn sample_rate(&mut self) -> f64 { 48_000.0 }
}
fn verif_bits(w: Word) -> String {
    let x = word_to_f64(w);
    if x.is_nan() { "NaN".to_string() } else { format!("{:016x}", w) }
}
"#;

fn render_rust_test_main(decls: &str, program_init: &str, call_main: Option<&str>, run_body: &str) -> String {
    main_template()
        .replace("/*__DECLS__*/", decls)
        .replace("/*__PROGRAM_INIT__*/", program_init)
        .replace("/*__CALL_MAIN__*/", call_main.unwrap_or_default())
        .replace("/*__RUN_BODY__*/", run_body)
}

struct Emitted {
    source: String,
    io: Option<(u32, u32)>,
}

fn emit(src: &str, path: Option<&str>, plugins: &str) -> Result<Emitted, Vec<String>> {
    let mut driver = LocalBufferDriver::new(0);
    let mut ctx = if plugins == "sched" {
        let audiodriverplug: Box<dyn Plugin> = Box::new(driver.get_as_plugin());
        let mut ctx = ExecContext::new([audiodriverplug].into_iter(), path.map(PathBuf::from), Config::default());
        ctx.add_system_plugin(mimium_scheduler::get_default_scheduler_plugin());
        ctx
    } else {
        ExecContext::new([].into_iter(), path.map(PathBuf::from), Config::default())
    };
    ctx.prepare_compiler();
    let compiler = ctx.get_compiler().ok_or_else(|| vec!["no compiler".to_string()])?;
    let out = compiler.emit_rust(src).map_err(|e| errs_to_strings(&e))?;
    Ok(Emitted { source: out.source, io: out.io_channels.map(|io| (io.input, io.output)) })
}

fn input_words(case: &Value, t: usize) -> Vec<u64> {
    if let Some(r) = case.get("input_bits").and_then(|i| i.get(t)).and_then(|r| r.as_array()) {
        return r.iter().map(|v| u64::from_str_radix(v.as_str().unwrap_or("0"), 16).unwrap_or(0)).collect();
    }
    case.get("inputs")
        .and_then(|i| i.get(t))
        .and_then(|r| r.as_array())
        .map(|r| r.iter().map(|v| v.as_f64().unwrap_or(0.0).to_bits()).collect())
        .unwrap_or_default()
}

fn run_body(case: &Value, n: usize) -> String {
    let mut s = String::new();
    s.push_str("    let inputs: Vec<Vec<Word>> = vec![\n");
    for t in 0..n {
        let w = input_words(case, t);
        s.push_str("        vec![");
        for x in w {
            s.push_str(&format!("0x{:016x}u64, ", x));
        }
        s.push_str("],\n");
    }
    s.push_str("    ];\n");
    s.push_str(&format!("    for t in 0..{}usize {{\n", n));
    s.push_str("        program.host.now = t as f64;\n");
    s.push_str("        match program.call_dsp(&inputs[t]) {\n");
    s.push_str("            Ok(output) => { println!(\"@@S {}\", output.iter().map(|w| verif_bits(*w)).collect::<Vec<_>>().join(\" \")); }\n");
    s.push_str("            Err(e) => { println!(\"@@E {}\", e.replace('\\n', \" \")); break; }\n");
    s.push_str("        }\n");
    s.push_str("    }\n");
    s
}

fn wait_timeout(mut child: std::process::Child, limit: Duration) -> (Value, String, String) {
    // stdout/stderr are small (N lines); read them on threads so a full pipe cannot block the child
    let mut so = child.stdout.take().unwrap();
    let mut se = child.stderr.take().unwrap();
    let t1 = std::thread::spawn(move || {
        let mut b = String::new();
        let _ = so.read_to_string(&mut b);
        b
    });
    let t2 = std::thread::spawn(move || {
        let mut b = Vec::new();
        let _ = se.read_to_end(&mut b);
        String::from_utf8_lossy(&b).to_string()
    });
    let t0 = Instant::now();
    let rc = loop {
        match child.try_wait() {
            Ok(Some(st)) => break st.code().map(|c| json!(c)).unwrap_or(json!("signal")),
            Ok(None) => {
                if t0.elapsed() > limit {
                    let _ = child.kill();
                    let _ = child.wait();
                    break json!("timeout");
                }
                std::thread::sleep(Duration::from_millis(2));
            }
            Err(_) => break json!("wait-error"),
        }
    };
    (rc, t1.join().unwrap_or_default(), t2.join().unwrap_or_default())
}

fn first_errors(stderr: &str) -> String {
    // the first rustc error with a few lines of context
    let lines: Vec<&str> = stderr.lines().collect();
    let start = lines.iter().position(|l| l.starts_with("error")).unwrap_or(0);
    lines[start..lines.len().min(start + 14)].join("\n")
}

fn handle(case: &Value) -> Value {
    let src = case["src"].as_str().unwrap_or("");
    let n = case["n"].as_u64().unwrap_or(0) as usize;
    let plugins = case["plugins"].as_str().unwrap_or("none");
    let dir = case["dir"].as_str().unwrap_or("/verif/.cache/rustgen");
    let keep = case["keep"].as_bool().unwrap_or(false);
    let mut res = json!({"id": case["id"]});
    let e = match guarded(|| emit(src, case.get("path").and_then(|p| p.as_str()), plugins)) {
        Err(m) => {
            res["emit"] = json!({"panic": m});
            return res;
        }
        Ok(Err(errs)) => {
            res["emit"] = json!({"refused": errs});
            return res;
        }
        Ok(Ok(e)) => e,
    };
    res["emit"] = json!("ok");
    res["io"] = json!(e.io.map(|(i, o)| vec![i, o]));
    let has_main = e.source.contains("pub fn call_main");
    let has_dsp = e.source.contains("pub fn call_dsp");
    res["has_main"] = json!(has_main);
    res["has_dsp"] = json!(has_dsp);
    res["lines"] = json!(e.source.lines().count());
    if case["source_only"].as_bool().unwrap_or(false) {
        res["source"] = json!(e.source);
        return res;
    }
    let body = if has_dsp { run_body(case, n) } else { String::new() };
    let harness = render_rust_test_main(
        HOST_DECLS,
        "let host = VerifHost { now: 0.0 };\n    let mut program = MimiumProgram::with_host(host);",
        has_main.then_some("    program.call_main().unwrap();\n"),
        &body,
    );
    let _ = std::fs::create_dir_all(dir);
    let stem = format!("p{}_{}", std::process::id(), case["id"].as_u64().unwrap_or(0));
    let source_path = PathBuf::from(dir).join(format!("{stem}.rs"));
    let binary_path = PathBuf::from(dir).join(format!("{stem}.bin"));
    if let Err(err) = std::fs::write(&source_path, format!("{}{harness}", e.source)) {
        res["rustc"] = json!({"ok": false, "stderr": format!("cannot write source: {err}"), "io_error": true});
        return res;
    }
    res["file"] = json!(source_path.to_string_lossy());
    let rustc = std::env::var("RUSTC").unwrap_or_else(|_| "rustc".to_string());
    let t0 = Instant::now();
    // the repo's recipe (`rustc --edition=2024 src -o bin`) + no debug info / no warnings (neither changes semantics; faster)
    let compile = Command::new(&rustc)
        .arg("--edition=2024")
        .arg("-Awarnings")
        .arg("-Cdebuginfo=0")
        .arg(&source_path)
        .arg("-o")
        .arg(&binary_path)
        .stdin(Stdio::null())
        .stdout(Stdio::piped())
        .stderr(Stdio::piped())
        .spawn();
    let compile = match compile {
        Err(err) => {
            res["rustc"] = json!({"ok": false, "stderr": format!("cannot launch rustc: {err}"), "io_error": true});
            return res;
        }
        Ok(c) => c,
    };
    let (rc, _so, se) = wait_timeout(compile, Duration::from_secs(300));
    let ms = t0.elapsed().as_millis() as u64;
    if rc != json!(0) {
        res["rustc"] = json!({"ok": false, "rc": rc, "stderr": first_errors(&se), "ms": ms});
        return res;
    }
    res["rustc"] = json!({"ok": true, "ms": ms});
    let run = Command::new(&binary_path)
        .stdin(Stdio::null())
        .stdout(Stdio::piped())
        .stderr(Stdio::piped())
        .spawn();
    let run = match run {
        Err(err) => {
            res["run"] = json!({"rc": "spawn-error", "stderr": format!("{err}")});
            return res;
        }
        Ok(c) => c,
    };
    let (rc, so, se) = wait_timeout(run, Duration::from_secs(30));
    let mut samples = vec![];
    let mut err = Value::Null;
    for l in so.lines() {
        if let Some(rest) = l.strip_prefix("@@S") {
            samples.push(json!(rest.split_whitespace().collect::<Vec<_>>()));
        } else if let Some(rest) = l.strip_prefix("@@E ") {
            err = json!(rest);
        }
    }
    let ok = rc == json!(0) && err.is_null();
    let tail: String = se.chars().take(600).collect();
    res["run"] = json!({"rc": rc, "stderr": tail, "err": err});
    res["samples"] = json!(samples);
    if ok && !keep {
        let _ = std::fs::remove_file(&source_path);
        let _ = std::fs::remove_file(&binary_path);
    } else if !keep {
        let _ = std::fs::remove_file(&binary_path);
    }
    res
}

fn main() {
    quiet_panics();
    let stdin = std::io::stdin();
    let stdout = std::io::stdout();
    for line in stdin.lock().lines() {
        let line = line.unwrap();
        if line.trim().is_empty() {
            continue;
        }
        let case: Value = serde_json::from_str(&line).expect("bad json");
        let res = handle(&case);
        let mut out = stdout.lock();
        writeln!(out, "\n@@RES {}", res).unwrap();
        out.flush().unwrap();
    }
}
