//! C11 correspondence harness: run a mimium program with the scheduler plugin on the VM
//! (ExecContext + LocalBufferDriver, as mimium-test `run_source_with_plugins(.., with_scheduler=true)`)
//! and on the WASM backend (as mimium-test `run_source_with_scheduler_wasm`), sample by sample.
//!
//! stdin : one JSON object per line  {"src": "...", "n": <samples>, "backends": "vm"|"wasm"|"both"}
//! stdout: one JSON object per line  {"vm": R, "wasm": R}   with
//!   R = {"st": "ok"|"compile"|"panic", "at": <sample index of the panic, -1 = before sample 0>,
//!        "msg": <enum-like short tag>, "out": [[fbits per channel] per completed sample]}
use mimium_audiodriver::{
    backends::local_buffer::LocalBufferDriver,
    driver::{Driver, RuntimeData},
};
use mimium_lang::{Config, ExecContext, plugin::Plugin, runtime};
use serde_json::{Value, json};
use std::io::{BufRead, Write};
use verif_lang::common::{fbits, guarded, quiet_panics};

struct Res {
    st: &'static str,
    at: i64,
    msg: String,
    out: Vec<Vec<String>>,
}
impl Res {
    fn json(&self) -> Value {
        json!({"st": self.st, "at": self.at, "msg": self.msg, "out": self.out})
    }
}

/// Map a panic / error message to a small tag (never compare free text).
fn tag(msg: &str) -> String {
    if msg.contains("must be in the future") {
        "sched-not-future".into()
    } else if msg.contains("subtract with overflow") {
        "sub-overflow".into()
    } else if msg.contains("Invalid Closure") {
        "invalid-closure".into()
    } else {
        let m: String = msg.chars().take(160).collect();
        format!("other:{m}")
    }
}

fn run_vm(src: &str, n: usize) -> Res {
    let mut res = Res { st: "ok", at: -1, msg: String::new(), out: vec![] };
    // ---- copy of mimium-test run_source_with_plugins(with_scheduler = true), VM branch ----
    let prep = guarded(|| {
        let mut driver = LocalBufferDriver::new(1);
        let audiodriverplug: Box<dyn Plugin> = Box::new(driver.get_as_plugin());
        let mut ctx = ExecContext::new([audiodriverplug].into_iter(), None, Config::default());
        ctx.add_system_plugin(mimium_scheduler::get_default_scheduler_plugin());
        if let Err(e) = ctx.prepare_machine(src) {
            return Err(format!("compile:{}", e.len()));
        }
        Ok((driver, ctx))
    });
    let (mut driver, mut ctx) = match prep {
        Ok(Ok(x)) => x,
        Ok(Err(e)) => {
            res.st = "compile";
            res.msg = e;
            return res;
        }
        Err(p) => {
            res.st = "compile";
            res.msg = format!("compile-panic:{}", tag(&p));
            return res;
        }
    };
    let main = guarded(|| {
        let _ = ctx.run_main();
        let runtimedata = {
            let ctxmut: &mut ExecContext = &mut ctx;
            RuntimeData::try_from(ctxmut).unwrap()
        };
        driver.init(runtimedata, None)
    });
    let och = match main {
        Ok(Some(io)) => io.output as usize,
        Ok(None) => {
            res.st = "compile";
            res.msg = "no-iochannels".into();
            return res;
        }
        Err(p) => {
            res.st = "panic";
            res.msg = tag(&p);
            return res;
        }
    };
    // driver.play() with times = 1, repeated: identical to one play() over n samples
    // (the loop body of LocalBufferDriver::play), but a panic is attributed to its sample.
    for t in 0..n {
        match guarded(|| {
            driver.play();
            driver.get_generated_samples().to_vec()
        }) {
            Ok(v) => {
                let v: Vec<String> = v.iter().take(och).map(|x| fbits(*x)).collect();
                res.out.push(v);
            }
            Err(p) => {
                res.st = "panic";
                res.at = t as i64;
                res.msg = tag(&p);
                return res;
            }
        }
    }
    res
}

fn run_wasm(src: &str, n: usize) -> Res {
    use mimium_lang::compiler::wasmgen::WasmGenerator;
    use mimium_lang::runtime::DspRuntime;
    use mimium_lang::runtime::wasm::engine::{WasmDspRuntime, WasmEngine};
    use std::sync::Arc;
    let mut res = Res { st: "ok", at: -1, msg: String::new(), out: vec![] };
    // ---- copy of mimium-test run_source_with_scheduler_wasm (io_channels taken from the MIR as the CLI does,
    //      so that a tuple-valued dsp exposes all its counters) ----
    let prep = guarded(|| {
        let mut ctx = ExecContext::new([].into_iter(), None, Config::default());
        ctx.add_system_plugin(mimium_scheduler::get_default_scheduler_plugin());
        ctx.prepare_compiler();
        let ext_fns = ctx.get_extfun_types();
        let mir = match ctx.get_compiler().unwrap().emit_mir(src) {
            Ok(m) => m,
            Err(e) => return Err(format!("compile:{}", e.len())),
        };
        let io = mir.get_dsp_iochannels();
        let mut wasmgen = WasmGenerator::new(Arc::new(mir), &ext_fns);
        let wasm_bytes = wasmgen.generate().map_err(|e| format!("wasmgen:{e}"))?;
        let plugin_fns = ctx.freeze_wasm_plugin_fns();
        let wasm_workers = ctx.generate_wasm_audioworkers();
        let mut wasm_engine = WasmEngine::new(&ext_fns, plugin_fns).map_err(|e| format!("engine:{e}"))?;
        wasm_engine.load_module(&wasm_bytes).map_err(|e| format!("load:{e}"))?;
        let mut wasm_runtime = WasmDspRuntime::new(wasm_engine, io, None);
        wasm_runtime.set_wasm_audioworkers(wasm_workers);
        Ok((wasm_runtime, io.map_or(1, |io| io.output as usize)))
    });
    let (mut rt, och) = match prep {
        Ok(Ok(x)) => x,
        Ok(Err(e)) => {
            res.st = "compile";
            res.msg = e.chars().take(160).collect();
            return res;
        }
        Err(p) => {
            res.st = "compile";
            res.msg = format!("compile-panic:{}", tag(&p));
            return res;
        }
    };
    match guarded(|| rt.run_main()) {
        Ok(Ok(())) => {}
        Ok(Err(e)) => {
            // run_source_with_scheduler_wasm ignores this (`let _ =`); record it as a tag but go on.
            res.msg = format!("main-err:{}", tag(&e));
        }
        Err(p) => {
            res.st = "panic";
            res.msg = tag(&p);
            return res;
        }
    }
    for t in 0..n {
        match guarded(|| {
            let rc = rt.run_dsp(runtime::Time(t as u64));
            (rc, rt.get_output(och).to_vec())
        }) {
            Ok((rc, v)) => {
                if rc != 0 {
                    res.st = "panic";
                    res.at = t as i64;
                    res.msg = format!("dsp-rc:{rc}");
                    return res;
                }
                res.out.push(v.iter().map(|x| fbits(*x)).collect());
            }
            Err(p) => {
                res.st = "panic";
                res.at = t as i64;
                res.msg = tag(&p);
                return res;
            }
        }
    }
    res
}

fn main() {
    quiet_panics();
    let stdin = std::io::stdin();
    let stdout = std::io::stdout();
    let mut out = stdout.lock();
    for line in stdin.lock().lines() {
        let line = match line {
            Ok(l) => l,
            Err(_) => break,
        };
        if line.trim().is_empty() {
            continue;
        }
        let v: Value = match serde_json::from_str(&line) {
            Ok(v) => v,
            Err(_) => {
                writeln!(out, "{}", json!({"error": "bad-json"})).unwrap();
                continue;
            }
        };
        let src = v["src"].as_str().unwrap_or("");
        let n = v["n"].as_u64().unwrap_or(0) as usize;
        let be = v["backends"].as_str().unwrap_or("both");
        let mut o = serde_json::Map::new();
        if be == "vm" || be == "both" {
            o.insert("vm".into(), run_vm(src, n).json());
        }
        if be == "wasm" || be == "both" {
            o.insert("wasm".into(), run_wasm(src, n).json());
        }
        writeln!(out, "{}", Value::Object(o)).unwrap();
        out.flush().unwrap();
    }
}
