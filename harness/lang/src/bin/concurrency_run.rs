// C19 harness: real threads of ONE process against the real SessionGlobals / compiler / runtimes.
//
// stdin, one JSON object per line; stdout "@@RES {json}" per request:
//   {"op":"seq","ops":["i<hex>","r<n>","s<dec>","l<n>",..]}
//        sequential interner/arena operations in THIS process (meant to be the first thing a fresh process does):
//        i: "<str>".to_symbol().0   r: symbol_interner.resolve(n)   s: Type::TypeScheme(TypeSchemeId(dec)).into_id() (slot index - 1)
//        l: the payload of the n-th type stored by this request.   Answer {"out":[..]} in the notation of ocaml/interner_drv.ml.
//   {"op":"symprog","threads":[[op,..],..],"seed":s,"reps":r}
//        K real threads, each interpreting a straight-line symbol program (ops I R S L E Q of interner_drv.ml) against the
//        real interner (S/L through Type::TypeAlias(sym).into_id() / to_type()), started together with random skews,
//        `reps` times.  "mode":"atomic" (default) copies a resolved string while the lock is held (the model's atomic resolve);
//        "mode":"as_str" uses Symbol::as_str().to_string() as the compiler does (the reference escapes the lock: was finding F24).  Answer {"runs":[[ "obs obs ..", .. per thread ], .. per repetition]}.
//   {"op":"jobs","jobs":[{"src":..,"path":..,"sched":..,"n":..},..],"seed":s,"reps":r}
//        every job observed ALONE first (determinism_run's `observe`: Mir, bytecode listing, WASM bytes, skeleton, io, VM and
//        WASM outputs, diagnostics), then all jobs on K = len(jobs) concurrent threads, `reps` times.
//        Answer {"solo":[obs,..],"runs":[[obs per thread],..],"env_after":<MIMIUM_CURRENT_MACRO_FILE or null>}.
#[allow(dead_code)]
#[path = "determinism_run.rs"]
mod det;

use mimium_lang::interner::{Symbol, ToSymbol, TypeNodeId, with_session_globals};
use mimium_lang::types::{Type, TypeSchemeId};
use serde_json::{Value, json};
use std::io::{BufRead, Write};
use std::sync::{Arc, Barrier};
use verif_lang::common::*;

fn unhex(h: &str) -> String {
    let b: Vec<u8> = (0..h.len() / 2).map(|i| u8::from_str_radix(&h[2 * i..2 * i + 2], 16).unwrap_or(b'?')).collect();
    String::from_utf8_lossy(&b).to_string()
}
fn hex(s: &str) -> String {
    s.bytes().map(|b| format!("{b:02x}")).collect()
}

struct Rng(u64);
impl Rng {
    fn next(&mut self) -> u64 {
        self.0 = self.0.wrapping_add(0x9E3779B97F4A7C15);
        let mut z = self.0;
        z = (z ^ (z >> 30)).wrapping_mul(0xBF58476D1CE4E5B9);
        z = (z ^ (z >> 27)).wrapping_mul(0x94D049BB133111EB);
        z ^ (z >> 31)
    }
}

fn do_seq(case: &Value) -> Value {
    let mut out = vec![];
    let mut stored: Vec<TypeNodeId> = vec![];
    for op in case["ops"].as_array().cloned().unwrap_or_default() {
        let t = op.as_str().unwrap_or("");
        let (k, a) = t.split_at(1);
        out.push(match k {
            "i" => format!("{}", unhex(a).to_symbol().0),
            "r" => {
                let n: usize = a.parse().unwrap_or(usize::MAX);
                match with_session_globals(|g| g.symbol_interner.resolve(n).map(|s| s.to_string())) {
                    Some(s) => format!("s{}", hex(&s)),
                    None => "none".to_string(),
                }
            }
            "s" => {
                let id = Type::TypeScheme(TypeSchemeId(a.parse().unwrap_or(0))).into_id();
                stored.push(id);
                let v = serde_json::to_value(id).unwrap_or(Value::Null);
                // slotmap KeyData {idx, version}: slot 0 is the sentinel, a never-removed slot has version 1
                match (v["idx"].as_u64(), v["version"].as_u64()) {
                    (Some(i), Some(1)) => format!("{}", i - 1),
                    _ => format!("?{v}"),
                }
            }
            "l" => {
                let n: usize = a.parse().unwrap_or(usize::MAX);
                match stored.get(n) {
                    Some(id) => match id.to_type() {
                        Type::TypeScheme(TypeSchemeId(x)) => format!("s{}", hex(&format!("{x}"))),
                        other => format!("?{other:?}"),
                    },
                    None => "none".to_string(),
                }
            }
            _ => "ERR".to_string(),
        });
    }
    json!({"out": out})
}

fn eval_sv(sv: &str, regs: &[String]) -> String {
    let mut s = String::new();
    for p in sv.split('+') {
        if p.is_empty() {
            continue;
        }
        let (k, a) = p.split_at(1);
        match k {
            "l" => s.push_str(&unhex(a)),
            "g" => s.push_str(regs.get(a.parse::<usize>().unwrap_or(usize::MAX)).map(|x| x.as_str()).unwrap_or("")),
            _ => {}
        }
    }
    s
}

/// interpret one straight-line symbol program against the real storage
/// `sym.as_str().to_string()` as the compiler does it (reference escapes the lock: was finding F24), or a copy made while
/// the lock is held (the atomic `resolve` of the model)
fn resolve_str(sym: Symbol, atomic: bool) -> String {
    if atomic {
        with_session_globals(|g| g.symbol_interner.resolve(sym.0).map(|s| s.to_string())).unwrap_or_else(|| "<invalid>".into())
    } else {
        sym.as_str().to_string()
    }
}

fn run_symprog(ops: &[String], rng: &mut Rng, atomic: bool) -> String {
    let mut syms: Vec<Symbol> = vec![];
    let mut keys: Vec<TypeNodeId> = vec![];
    let mut regs: Vec<String> = vec![];
    let mut outs: Vec<String> = vec![];
    for t in ops {
        if rng.next() % 4 == 0 {
            std::thread::yield_now();
        }
        let (k, a) = t.split_at(1);
        match k {
            "I" => syms.push(eval_sv(a, &regs).to_symbol()),
            "R" => match syms.get(a.parse::<usize>().unwrap_or(usize::MAX)) {
                Some(s) => regs.push(resolve_str(*s, atomic)),
                None => {
                    outs.push("p".into());
                    break;
                }
            },
            "S" => keys.push(Type::TypeAlias(eval_sv(a, &regs).to_symbol()).into_id()),
            "L" => match keys.get(a.parse::<usize>().unwrap_or(usize::MAX)) {
                Some(id) => match id.to_type() {
                    Type::TypeAlias(s) => regs.push(resolve_str(s, atomic)),
                    other => {
                        outs.push(format!("?{other:?}"));
                        break;
                    }
                },
                None => {
                    outs.push("p".into());
                    break;
                }
            },
            "E" => outs.push(format!("s{}", hex(&eval_sv(a, &regs)))),
            "Q" => {
                let ix: Vec<usize> = a.split(',').map(|x| x.parse().unwrap_or(usize::MAX)).collect();
                match (syms.get(ix[0]), ix.get(1).and_then(|j| syms.get(*j))) {
                    (Some(x), Some(y)) => outs.push(if x == y { "b1".into() } else { "b0".into() }),
                    _ => {
                        outs.push("p".into());
                        break;
                    }
                }
            }
            _ => outs.push("ERR".into()),
        }
    }
    outs.join(" ")
}

fn skew(rng: &mut Rng) {
    match rng.next() % 4 {
        0 => {}
        1 => std::thread::yield_now(),
        2 => {
            let n = rng.next() % 20000;
            let mut x = 0u64;
            for i in 0..n {
                x = x.wrapping_add(std::hint::black_box(i));
            }
            std::hint::black_box(x);
        }
        _ => std::thread::sleep(std::time::Duration::from_micros(rng.next() % 1500)),
    }
}

fn do_symprog(case: &Value) -> Value {
    let threads: Vec<Vec<String>> = case["threads"]
        .as_array()
        .cloned()
        .unwrap_or_default()
        .iter()
        .map(|t| t.as_array().cloned().unwrap_or_default().iter().map(|o| o.as_str().unwrap_or("").to_string()).collect())
        .collect();
    let seed = case["seed"].as_u64().unwrap_or(0);
    let reps = case["reps"].as_u64().unwrap_or(1);
    let atomic = case["mode"].as_str().unwrap_or("atomic") == "atomic";
    let mut runs = vec![];
    for rep in 0..reps {
        let bar = Arc::new(Barrier::new(threads.len()));
        let hs: Vec<_> = threads
            .iter()
            .enumerate()
            .map(|(i, ops)| {
                let ops = ops.clone();
                let bar = bar.clone();
                std::thread::spawn(move || {
                    let mut rng = Rng(seed ^ (rep << 20) ^ (i as u64) << 40);
                    bar.wait();
                    skew(&mut rng);
                    guarded(|| run_symprog(&ops, &mut rng, atomic)).unwrap_or_else(|m| format!("PANIC {m}"))
                })
            })
            .collect();
        runs.push(hs.into_iter().map(|h| h.join().unwrap_or_else(|_| "JOIN-PANIC".into())).collect::<Vec<_>>());
    }
    json!({"runs": runs})
}

/// Symbol::as_str (a safe public function) hands out a `&str` that points into the interner's single growing buffer and
/// outlives the lock.  Thread A keeps such a reference while thread B interns fresh strings (what a concurrent compilation
/// does) and then looks at its reference again (finding F24, fixed by BucketBackend: must still read the same string).
fn do_asstr(case: &Value) -> Value {
    let tag = case["seed"].as_u64().unwrap_or(0);
    let probe = format!("c19_probe_{tag}_{}", "p".repeat(40));
    let sym = probe.to_symbol();
    let held: &str = sym.as_str(); // safe code: the signature ties the reference to `sym` (a Copy value on this stack frame), not to the lock
    let before = held.to_string();
    let p0 = held.as_ptr() as usize;
    let fill = case["fill"].as_u64().unwrap_or(200000);
    let h = std::thread::spawn(move || {
        // thread B: a "compilation" that interns new identifiers and allocates
        let mut junk: Vec<Vec<u8>> = vec![];
        let mut moved_at = None;
        for i in 0..fill {
            format!("c19_fill_{tag}_{i}_zzzzzzzzzzzzzzzz").to_symbol();
            if i % 64 == 0 {
                if sym.as_str().as_ptr() as usize != p0 && moved_at.is_none() {
                    moved_at = Some(i);
                }
                if moved_at.is_some() {
                    junk.push(vec![0xAAu8; 1 << (6 + (i / 64) % 12)]);
                    if junk.len() > 4000 {
                        break;
                    }
                }
            }
        }
        std::hint::black_box(&junk);
        moved_at
    });
    let moved_at = h.join().unwrap_or(None);
    let p1 = sym.as_str().as_ptr() as usize;
    let now_fresh = sym.as_str().to_string();
    // A reads the reference it was given earlier
    let after: Vec<u8> = held.as_bytes().to_vec();
    json!({"moved": p0 != p1, "moved_at": moved_at, "fresh_resolve_ok": now_fresh == before,
           "held_reference_intact": after == before.as_bytes(),
           "held_now": String::from_utf8_lossy(&after[..after.len().min(48)]).to_string(), "expected": before[..48.min(before.len())].to_string()})
}

fn do_jobs(case: &Value) -> Value {
    let jobs: Vec<Value> = case["jobs"].as_array().cloned().unwrap_or_default();
    let seed = case["seed"].as_u64().unwrap_or(0);
    let reps = case["reps"].as_u64().unwrap_or(1);
    let solo: Vec<Value> = if case["skip_solo"].as_bool().unwrap_or(false) { vec![] } else { jobs.iter().map(det::observe).collect() };
    let mut runs = vec![];
    for rep in 0..reps {
        let bar = Arc::new(Barrier::new(jobs.len()));
        let hs: Vec<_> = jobs
            .iter()
            .enumerate()
            .map(|(i, job)| {
                let job = job.clone();
                let bar = bar.clone();
                std::thread::Builder::new()
                    .stack_size(64 << 20)
                    .spawn(move || {
                        let mut rng = Rng(seed ^ (rep << 20) ^ (i as u64) << 40);
                        bar.wait();
                        skew(&mut rng);
                        guarded(|| det::observe(&job)).unwrap_or_else(|m| json!({"thread_panic": m}))
                    })
                    .expect("spawn")
            })
            .collect();
        runs.push(hs.into_iter().map(|h| h.join().unwrap_or_else(|_| json!({"thread_panic": "join"}))).collect::<Vec<_>>());
    }
    let env_after = std::env::var_os("MIMIUM_CURRENT_MACRO_FILE").map(|s| s.to_string_lossy().to_string());
    json!({"solo": solo, "runs": runs, "env_after": env_after})
}

fn main() {
    quiet_panics();
    let stdin = std::io::stdin();
    let stdout = std::io::stdout();
    for line in stdin.lock().lines() {
        let line = line.unwrap();
        if line.trim().is_empty() {
            continue;
        }
        let case: Value = serde_json::from_str(&line).expect("bad json");
        let mut res = match case["op"].as_str().unwrap_or("") {
            "seq" => do_seq(&case),
            "symprog" => do_symprog(&case),
            "jobs" => do_jobs(&case),
            "asstr" => do_asstr(&case),
            _ => json!({"err": "bad op"}),
        };
        res["id"] = case["id"].clone();
        let mut out = stdout.lock();
        writeln!(out, "\n@@RES {}", res).unwrap();
        out.flush().unwrap();
    }
}
