//! C04 / C16 / C14 harness for the CST -> AST lowering (lower.rs): the real `parser::parse_program`.
//!
//! stdin : one case per line = UTF-8 bytes of a source text in hex (empty line = empty text)
//! stdout: one JSON object per line
//!   {"t":[[kind name, start, length]...]   the raw token list AS RETURNED BY parse_cst (kinds after the parser's rewrites),
//!    "s":"(Kind child ..)"                  the CST, token leaves printed as raw token indices,
//!    "a":"(Program ..)"                     the Program returned by parse_program as an s-expression (format below),
//!    "ne": number of ParserErrors}
//!   or {"panic":"<stage>: message"} (tokenize / preparse / parse_cst) or {"t":..,"s":..,"lower_panic": message}.
//!
//! s-expression of the AST (mirrored by ocaml/lower_drv.ml; strings: bytes [A-Za-z0-9_] literally, others %XX, prefix ');
//! L = @s-e (Location with the file path) | ~s-e (empty path);  S = s-e;  -|x = optional
//!   lit  : (LString 's) (LInt n) (LFloat 's) LSelf LNow LSampleRate LPlaceHolder
//!   typ  : (TPrim L unit|int|float|string) (TArray L t) (TTuple L t*) (TRecord L (F 's t t|f)*) (TFn L a r) (TCode L t)
//!          (TUnion L t*) (TAlias L 's) (TUnknown L) (TOther L)
//!   pat  : (PSingle 's) PPlaceholder (PTuple p*) (PRecord (I 's p)*) PError
//!   mpat : (MLit lit) MWild (MVar 's) (MCons 's -|mpat) (MTuple m*)
//!   tid  : (TId 's typ -|expr)      tpat : (TPat pat typ -|expr)
//!   expr : (Lit L lit) (Var L 's) (QVar L 's*) (Block L -|e) (Tuple L e*) (Proj L e n) (ArrayAccess L e e) (Array L e*)
//!          (Record L (F 's e)*) (IncRecord L (F 's e)*) (RecUpdate L e (F 's e)*) (Field L e 's) (Apply L e (A e*))
//!          (Macro L e (A e*)) (BinOp L op S e e) (UniOp L op S e) (Paren L e) (Lambda L (P tid*) -|typ e) (Assign L e e)
//!          (Then L e -|e) (Feed L 's e) (Let L tpat e -|e) (LetRec L tid e -|e) (If L e e -|e) (Match L e (Arm mpat e)*)
//!          (Bracket L e) (Escape L e) (Error L)
//!   stmt : (SLet tpat e) (SLetRec tid e) (SAssign e e) (SSingle e) (SStage main|macro|persistent) SError
//!   pstmt: (Fn vis 's (P tid*) L -|typ e) (Stage k) (Global stmt) (Import 's) (Mod vis 's -|(B (St pstmt S)*))
//!          (Use vis (Path 's*) Single|Wildcard|(Multiple 's*)) (TypeAlias vis 's typ) (TypeDecl vis 's (V 's -|typ)* rec|norec)
//!          PStmtError Comment DocComment
//!   program: (Program (St pstmt S)*)
use mimium_lang::ast::operators::Op;
use mimium_lang::ast::program::{Program, ProgramStatement, UseTarget, Visibility};
use mimium_lang::ast::statement::Statement;
use mimium_lang::ast::{Expr, Literal, MatchPattern, RecordField, StageKind};
use mimium_lang::compiler::parser::{self, GreenNodeArena, GreenNodeId, Token, green::GreenNode};
use mimium_lang::interner::{ExprNodeId, Symbol, TypeNodeId};
use mimium_lang::pattern::{Pattern, TypedId, TypedPattern};
use mimium_lang::types::{PType, Type};
use mimium_lang::utils::metadata::{Location, Span};
use serde_json::json;
use std::fmt::Write as _;
use std::io::{self, BufRead, Write};
use verif_lang::common::{guarded, quiet_panics};

fn unhex(s: &str) -> Option<String> {
    let s = s.trim();
    if s.len() % 2 != 0 {
        return None;
    }
    let bytes: Option<Vec<u8>> = (0..s.len() / 2).map(|i| u8::from_str_radix(&s[2 * i..2 * i + 2], 16).ok()).collect();
    String::from_utf8(bytes?).ok()
}

fn cst_sexp(arena: &GreenNodeArena, id: GreenNodeId, out: &mut String) {
    match arena.get(id) {
        GreenNode::Token { token_index, .. } => {
            let _ = write!(out, "{token_index}");
        }
        GreenNode::Internal { kind, children, .. } => {
            let _ = write!(out, "({kind:?}");
            for c in children {
                out.push(' ');
                cst_sexp(arena, *c, out);
            }
            out.push(')');
        }
    }
}

fn p_str(s: &str, o: &mut String) {
    o.push('\'');
    for b in s.bytes() {
        if b.is_ascii_alphanumeric() || b == b'_' {
            o.push(b as char);
        } else {
            let _ = write!(o, "%{b:02X}");
        }
    }
}
fn p_sym(s: &Symbol, o: &mut String) {
    p_str(s.as_str(), o)
}
fn p_span(s: &Span, o: &mut String) {
    let _ = write!(o, "{}-{}", s.start, s.end);
}
fn p_loc(l: &Location, o: &mut String) {
    o.push(if l.path.as_os_str().is_empty() { '~' } else { '@' });
    p_span(&l.span, o);
}
fn p_lit(l: &Literal, o: &mut String) {
    match l {
        Literal::String(s) => {
            o.push_str("(LString ");
            p_sym(s, o);
            o.push(')');
        }
        Literal::Int(n) => {
            let _ = write!(o, "(LInt {n})");
        }
        Literal::Float(s) => {
            o.push_str("(LFloat ");
            p_sym(s, o);
            o.push(')');
        }
        Literal::SelfLit => o.push_str("LSelf"),
        Literal::Now => o.push_str("LNow"),
        Literal::SampleRate => o.push_str("LSampleRate"),
        Literal::PlaceHolder => o.push_str("LPlaceHolder"),
    }
}
fn p_op(op: &Op, o: &mut String) {
    match op {
        Op::Unknown(s) => {
            o.push_str("(Unknown ");
            p_str(s, o);
            o.push(')');
        }
        other => {
            let _ = write!(o, "{other:?}");
        }
    }
}
fn p_type(t: &TypeNodeId, o: &mut String) {
    let l = t.to_loc();
    let head = |name: &str, o: &mut String| {
        o.push('(');
        o.push_str(name);
        o.push(' ');
        p_loc(&l, o);
    };
    match t.to_type() {
        Type::Primitive(p) => {
            head("TPrim", o);
            o.push_str(match p {
                PType::Unit => " unit",
                PType::Int => " int",
                PType::Numeric => " float",
                PType::String => " string",
            });
        }
        Type::Array(e) => {
            head("TArray", o);
            o.push(' ');
            p_type(&e, o);
        }
        Type::Tuple(ts) => {
            head("TTuple", o);
            for x in &ts {
                o.push(' ');
                p_type(x, o);
            }
        }
        Type::Record(fs) => {
            head("TRecord", o);
            for f in &fs {
                o.push_str(" (F ");
                p_sym(&f.key, o);
                o.push(' ');
                p_type(&f.ty, o);
                o.push_str(if f.has_default { " t)" } else { " f)" });
            }
        }
        Type::Function { arg, ret } => {
            head("TFn", o);
            o.push(' ');
            p_type(&arg, o);
            o.push(' ');
            p_type(&ret, o);
        }
        Type::Code(e) => {
            head("TCode", o);
            o.push(' ');
            p_type(&e, o);
        }
        Type::Union(ts) => {
            head("TUnion", o);
            for x in &ts {
                o.push(' ');
                p_type(x, o);
            }
        }
        Type::TypeAlias(s) => {
            head("TAlias", o);
            o.push(' ');
            p_sym(&s, o);
        }
        Type::Unknown => head("TUnknown", o),
        _ => head("TOther", o),
    }
    o.push(')');
}
fn p_pat(p: &Pattern, o: &mut String) {
    match p {
        Pattern::Single(s) => {
            o.push_str("(PSingle ");
            p_sym(s, o);
            o.push(')');
        }
        Pattern::Placeholder => o.push_str("PPlaceholder"),
        Pattern::Tuple(ps) => {
            o.push_str("(PTuple");
            for x in ps {
                o.push(' ');
                p_pat(x, o);
            }
            o.push(')');
        }
        Pattern::Record(items) => {
            o.push_str("(PRecord");
            for (k, v) in items {
                o.push_str(" (I ");
                p_sym(k, o);
                o.push(' ');
                p_pat(v, o);
                o.push(')');
            }
            o.push(')');
        }
        Pattern::Error => o.push_str("PError"),
    }
}
fn p_mpat(p: &MatchPattern, o: &mut String) {
    match p {
        MatchPattern::Literal(l) => {
            o.push_str("(MLit ");
            p_lit(l, o);
            o.push(')');
        }
        MatchPattern::Wildcard => o.push_str("MWild"),
        MatchPattern::Variable(s) => {
            o.push_str("(MVar ");
            p_sym(s, o);
            o.push(')');
        }
        MatchPattern::Constructor(s, inner) => {
            o.push_str("(MCons ");
            p_sym(s, o);
            o.push(' ');
            match inner {
                Some(i) => p_mpat(i, o),
                None => o.push('-'),
            }
            o.push(')');
        }
        MatchPattern::Tuple(ps) => {
            o.push_str("(MTuple");
            for x in ps {
                o.push(' ');
                p_mpat(x, o);
            }
            o.push(')');
        }
    }
}
fn p_oexpr(e: &Option<ExprNodeId>, o: &mut String) {
    match e {
        Some(e) => p_expr(e, o),
        None => o.push('-'),
    }
}
fn p_tid(t: &TypedId, o: &mut String) {
    o.push_str("(TId ");
    p_sym(&t.id, o);
    o.push(' ');
    p_type(&t.ty, o);
    o.push(' ');
    p_oexpr(&t.default_value, o);
    o.push(')');
}
fn p_tpat(t: &TypedPattern, o: &mut String) {
    o.push_str("(TPat ");
    p_pat(&t.pat, o);
    o.push(' ');
    p_type(&t.ty, o);
    o.push(' ');
    p_oexpr(&t.default_value, o);
    o.push(')');
}
fn p_fields(fs: &[RecordField], o: &mut String) {
    for f in fs {
        o.push_str(" (F ");
        p_sym(&f.name, o);
        o.push(' ');
        p_expr(&f.expr, o);
        o.push(')');
    }
}
fn p_exprs(es: &[ExprNodeId], o: &mut String) {
    for e in es {
        o.push(' ');
        p_expr(e, o);
    }
}
fn p_expr(e: &ExprNodeId, o: &mut String) {
    let l = e.to_location();
    let head = |name: &str, o: &mut String| {
        o.push('(');
        o.push_str(name);
        o.push(' ');
        p_loc(&l, o);
    };
    match e.to_expr() {
        Expr::Literal(lit) => {
            head("Lit", o);
            o.push(' ');
            p_lit(&lit, o);
        }
        Expr::Var(s) => {
            head("Var", o);
            o.push(' ');
            p_sym(&s, o);
        }
        Expr::QualifiedVar(p) => {
            head("QVar", o);
            for s in &p.segments {
                o.push(' ');
                p_sym(s, o);
            }
        }
        Expr::Block(b) => {
            head("Block", o);
            o.push(' ');
            p_oexpr(&b, o);
        }
        Expr::Tuple(es) => {
            head("Tuple", o);
            p_exprs(&es, o);
        }
        Expr::Proj(x, n) => {
            head("Proj", o);
            o.push(' ');
            p_expr(&x, o);
            let _ = write!(o, " {n}");
        }
        Expr::ArrayAccess(a, i) => {
            head("ArrayAccess", o);
            o.push(' ');
            p_expr(&a, o);
            o.push(' ');
            p_expr(&i, o);
        }
        Expr::ArrayLiteral(es) => {
            head("Array", o);
            p_exprs(&es, o);
        }
        Expr::RecordLiteral(fs) => {
            head("Record", o);
            p_fields(&fs, o);
        }
        Expr::ImcompleteRecord(fs) => {
            head("IncRecord", o);
            p_fields(&fs, o);
        }
        Expr::RecordUpdate(r, fs) => {
            head("RecUpdate", o);
            o.push(' ');
            p_expr(&r, o);
            p_fields(&fs, o);
        }
        Expr::FieldAccess(r, f) => {
            head("Field", o);
            o.push(' ');
            p_expr(&r, o);
            o.push(' ');
            p_sym(&f, o);
        }
        Expr::Apply(f, args) => {
            head("Apply", o);
            o.push(' ');
            p_expr(&f, o);
            o.push_str(" (A");
            p_exprs(&args, o);
            o.push(')');
        }
        Expr::MacroExpand(f, args) => {
            head("Macro", o);
            o.push(' ');
            p_expr(&f, o);
            o.push_str(" (A");
            p_exprs(&args, o);
            o.push(')');
        }
        Expr::BinOp(a, (op, sp), b) => {
            head("BinOp", o);
            o.push(' ');
            p_op(&op, o);
            o.push(' ');
            p_span(&sp, o);
            o.push(' ');
            p_expr(&a, o);
            o.push(' ');
            p_expr(&b, o);
        }
        Expr::UniOp((op, sp), a) => {
            head("UniOp", o);
            o.push(' ');
            p_op(&op, o);
            o.push(' ');
            p_span(&sp, o);
            o.push(' ');
            p_expr(&a, o);
        }
        Expr::Paren(a) => {
            head("Paren", o);
            o.push(' ');
            p_expr(&a, o);
        }
        Expr::Lambda(ps, rt, body) => {
            head("Lambda", o);
            o.push_str(" (P");
            for p in &ps {
                o.push(' ');
                p_tid(p, o);
            }
            o.push_str(") ");
            match rt {
                Some(t) => p_type(&t, o),
                None => o.push('-'),
            }
            o.push(' ');
            p_expr(&body, o);
        }
        Expr::Assign(a, b) => {
            head("Assign", o);
            o.push(' ');
            p_expr(&a, o);
            o.push(' ');
            p_expr(&b, o);
        }
        Expr::Then(a, b) => {
            head("Then", o);
            o.push(' ');
            p_expr(&a, o);
            o.push(' ');
            p_oexpr(&b, o);
        }
        Expr::Feed(s, a) => {
            head("Feed", o);
            o.push(' ');
            p_sym(&s, o);
            o.push(' ');
            p_expr(&a, o);
        }
        Expr::Let(tp, a, b) => {
            head("Let", o);
            o.push(' ');
            p_tpat(&tp, o);
            o.push(' ');
            p_expr(&a, o);
            o.push(' ');
            p_oexpr(&b, o);
        }
        Expr::LetRec(id, a, b) => {
            head("LetRec", o);
            o.push(' ');
            p_tid(&id, o);
            o.push(' ');
            p_expr(&a, o);
            o.push(' ');
            p_oexpr(&b, o);
        }
        Expr::If(c, t, e2) => {
            head("If", o);
            o.push(' ');
            p_expr(&c, o);
            o.push(' ');
            p_expr(&t, o);
            o.push(' ');
            p_oexpr(&e2, o);
        }
        Expr::Match(s, arms) => {
            head("Match", o);
            o.push(' ');
            p_expr(&s, o);
            for a in &arms {
                o.push_str(" (Arm ");
                p_mpat(&a.pattern, o);
                o.push(' ');
                p_expr(&a.body, o);
                o.push(')');
            }
        }
        Expr::Bracket(a) => {
            head("Bracket", o);
            o.push(' ');
            p_expr(&a, o);
        }
        Expr::Escape(a) => {
            head("Escape", o);
            o.push(' ');
            p_expr(&a, o);
        }
        Expr::Error => head("Error", o),
    }
    o.push(')');
}
fn p_stage(s: &StageKind, o: &mut String) {
    o.push_str(match s {
        StageKind::Persistent => "persistent",
        StageKind::Macro => "macro",
        StageKind::Main => "main",
    });
}
fn p_stmt(s: &Statement, o: &mut String) {
    match s {
        Statement::Let(tp, e) => {
            o.push_str("(SLet ");
            p_tpat(tp, o);
            o.push(' ');
            p_expr(e, o);
            o.push(')');
        }
        Statement::LetRec(id, e) => {
            o.push_str("(SLetRec ");
            p_tid(id, o);
            o.push(' ');
            p_expr(e, o);
            o.push(')');
        }
        Statement::Assign(a, b) => {
            o.push_str("(SAssign ");
            p_expr(a, o);
            o.push(' ');
            p_expr(b, o);
            o.push(')');
        }
        Statement::Single(e) => {
            o.push_str("(SSingle ");
            p_expr(e, o);
            o.push(')');
        }
        Statement::DeclareStage(k) => {
            o.push_str("(SStage ");
            p_stage(k, o);
            o.push(')');
        }
        Statement::Error => o.push_str("SError"),
    }
}
fn p_vis(v: &Visibility, o: &mut String) {
    o.push_str(match v {
        Visibility::Public => "pub",
        Visibility::Private => "priv",
    });
}
fn p_stmts(ss: &[(ProgramStatement, Span)], o: &mut String) {
    for (s, sp) in ss {
        o.push_str(" (St ");
        p_pstmt(s, o);
        o.push(' ');
        p_span(sp, o);
        o.push(')');
    }
}
fn p_pstmt(s: &ProgramStatement, o: &mut String) {
    match s {
        ProgramStatement::FnDefinition { visibility, name, args, return_type, body } => {
            o.push_str("(Fn ");
            p_vis(visibility, o);
            o.push(' ');
            p_sym(name, o);
            o.push_str(" (P");
            for a in &args.0 {
                o.push(' ');
                p_tid(a, o);
            }
            o.push_str(") ");
            p_loc(&args.1, o);
            o.push(' ');
            match return_type {
                Some(t) => p_type(t, o),
                None => o.push('-'),
            }
            o.push(' ');
            p_expr(body, o);
            o.push(')');
        }
        ProgramStatement::StageDeclaration { stage } => {
            o.push_str("(Stage ");
            p_stage(stage, o);
            o.push(')');
        }
        ProgramStatement::GlobalStatement(st) => {
            o.push_str("(Global ");
            p_stmt(st, o);
            o.push(')');
        }
        ProgramStatement::Import(s) => {
            o.push_str("(Import ");
            p_sym(s, o);
            o.push(')');
        }
        ProgramStatement::ModuleDefinition { visibility, name, body } => {
            o.push_str("(Mod ");
            p_vis(visibility, o);
            o.push(' ');
            p_sym(name, o);
            o.push(' ');
            match body {
                Some(b) => {
                    o.push_str("(B");
                    p_stmts(b, o);
                    o.push(')');
                }
                None => o.push('-'),
            }
            o.push(')');
        }
        ProgramStatement::UseStatement { visibility, path, target } => {
            o.push_str("(Use ");
            p_vis(visibility, o);
            o.push_str(" (Path");
            for s in &path.segments {
                o.push(' ');
                p_sym(s, o);
            }
            o.push_str(") ");
            match target {
                UseTarget::Single => o.push_str("Single"),
                UseTarget::Wildcard => o.push_str("Wildcard"),
                UseTarget::Multiple(names) => {
                    o.push_str("(Multiple");
                    for s in names {
                        o.push(' ');
                        p_sym(s, o);
                    }
                    o.push(')');
                }
            }
            o.push(')');
        }
        ProgramStatement::TypeAlias { visibility, name, target_type } => {
            o.push_str("(TypeAlias ");
            p_vis(visibility, o);
            o.push(' ');
            p_sym(name, o);
            o.push(' ');
            p_type(target_type, o);
            o.push(')');
        }
        ProgramStatement::TypeDeclaration { visibility, name, variants, is_recursive } => {
            o.push_str("(TypeDecl ");
            p_vis(visibility, o);
            o.push(' ');
            p_sym(name, o);
            for v in variants {
                o.push_str(" (V ");
                p_sym(&v.name, o);
                o.push(' ');
                match &v.payload {
                    Some(t) => p_type(t, o),
                    None => o.push('-'),
                }
                o.push(')');
            }
            o.push_str(if *is_recursive { " rec)" } else { " norec)" });
        }
        ProgramStatement::Comment(_) => o.push_str("Comment"),
        ProgramStatement::DocComment(_) => o.push_str("DocComment"),
        ProgramStatement::Error => o.push_str("PStmtError"),
    }
}
fn p_program(p: &Program, o: &mut String) {
    o.push_str("(Program");
    p_stmts(&p.statements, o);
    o.push(')');
}

fn run_case(src: &str) -> serde_json::Value {
    let tokens: Vec<Token> = match guarded(|| parser::tokenize(src)) {
        Ok(t) => t,
        Err(m) => return json!({"panic": format!("tokenize: {m}")}),
    };
    let pre = match guarded(|| parser::preparse(&tokens)) {
        Ok(p) => p,
        Err(m) => return json!({"panic": format!("preparse: {m}")}),
    };
    let (root, arena, toks2, errors) = match guarded(|| parser::parse_cst(tokens.clone(), &pre)) {
        Ok(x) => x,
        Err(m) => return json!({"panic": format!("parse_cst: {m}")}),
    };
    let toks: Vec<serde_json::Value> = toks2.iter().map(|t| json!([format!("{:?}", t.kind), t.start, t.length])).collect();
    let mut s = String::new();
    cst_sexp(&arena, root, &mut s);
    // the function under test: tokenize + preparse + parse_cst (again, deterministic) + Lowerer::lower_program
    match guarded(|| {
        let (prog, errs) = parser::parse_program(src, std::path::PathBuf::from("verif.mmm"));
        let mut a = String::new();
        p_program(&prog, &mut a);
        (a, errs.len())
    }) {
        Ok((a, ne)) => json!({"t": toks, "s": s, "a": a, "ne": ne, "ne_cst": errors.len()}),
        Err(m) => json!({"t": toks, "s": s, "lower_panic": m}),
    }
}

fn main() {
    quiet_panics();
    let h = std::thread::Builder::new()
        .stack_size(512 << 20)
        .spawn(|| {
            let stdin = io::stdin();
            let stdout = io::stdout();
            let mut w = io::BufWriter::with_capacity(1 << 16, stdout.lock());
            for l in stdin.lock().lines() {
                let Ok(l) = l else { break };
                let v = match unhex(&l) {
                    Some(src) => run_case(&src),
                    None => json!({"badinput": true}),
                };
                if writeln!(w, "{v}").is_err() {
                    break;
                }
            }
            let _ = w.flush();
        })
        .unwrap();
    let _ = h.join();
}
