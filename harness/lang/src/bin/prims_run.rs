//! C01 (runtime primitives) — implementation side of the correspondence with coq/theories/Prims/{Vm,Wasm}.v.
//!
//! Drives the REAL implementations of the runtime-primitive contract (runtime/primitives.rs) with operation sequences:
//!   * the VM: a `Machine` built around a hand-assembled `Program`; every operation is executed either through the
//!     trait `RuntimePrimitives` (mode T: vm/primitives.rs) or as the bytecode instruction a compiled program uses
//!     (mode I: vm.rs `execute` — BoxAlloc BoxLoad BoxClone BoxRelease BoxStore GetState SetState PushStatePos PopStatePos
//!     Delay Mem); arrays always as instructions (AllocArray SetArrayElem GetArrayElem) and the builtin `len`, the trait's
//!     array methods through the extra operations TG / TS;
//!   * the WASM host: a `WasmEngine` with a hand-encoded module that imports the host functions of runtime/wasm.rs and
//!     re-exports them (plus poke / peek of the linear memory and i64.trunc_sat_f64_s, the index conversion wasmgen emits).
//!
//! One case per input line, one answer line per case; syntax in ocaml/prims_drv.ml.  Header: `S=size;N=now;R=srhex[;M=T|I][;O=W][;Y=types]`.
//!   answer := '#' id ' vm=' res* '|wasm=' res* '|vmst=' words '@' pos '|wast=' words '@?' '|vmlen=' heap.len()
//! A panic is mapped to a fault class (Fh invalid handle, Fr out of range, Fu cursor underflow, Fs bad size, F? other) and
//! ends that implementation's run.  A state access of the VM outside the storage is NOT executed (StateStorage uses raw
//! pointers: undefined behaviour, possibly heap corruption): the harness compares cursor and size with the real storage
//! length (hook accessor `verif_global_state`) and answers Fr.  Reference counts after retain / release come from the H2
//! hook of vm/heap.rs, which both implementations call.
use mimium_lang::interner::{ToSymbol, TypeNodeId};
use mimium_lang::plugin::get_builtin_fns_as_plugins;
use mimium_lang::runtime::primitives::RuntimePrimitives;
use mimium_lang::runtime::vm::{self, FuncProto, Instruction, Machine, Program, StateOffset};
use mimium_lang::runtime::wasm::engine::WasmEngine;
use state_tree::tree::StateTreeSkeleton;
use std::io::{BufRead, Write};
use verif_lang::common::*;

#[derive(Clone, Debug)]
enum Val {
    Num(u64),
    Heap(usize),
    Arr(usize),
}

#[derive(Clone, Debug)]
enum Op {
    HeapAlloc(u64),
    BoxAlloc(Vec<Val>),
    Retain(Val),
    Release(Val),
    Load(Val, u64),
    Store(Val, Vec<Val>),
    Push(i64),
    Pop(i64),
    StGet(u64),
    StSet(Vec<u64>),
    Delay(u64, u64, u64),
    Mem(u64),
    ArrNew(u64, Vec<Val>),
    ArrGet(Val, u64, u64),
    ArrSet(Val, u64, Vec<Val>, u64),
    ArrLen(Val),
    Now,
    Sr,
    TraitGet(Val, u64, u64),
    TraitSet(Val, u64, Vec<Val>, u64),
    UsClone(Vec<Val>, u64),
    UsRelease(Vec<Val>, u64),
}

/// type table entries:  N<k> | B(ty) | A<name> | S<name>(var/var/..) | T(ty/ty/..)   var := - | ty
struct TyP<'a> {
    s: &'a [u8],
    i: usize,
}
impl TyP<'_> {
    fn peek(&self) -> u8 {
        if self.i < self.s.len() { self.s[self.i] } else { 0 }
    }
    fn eat(&mut self, c: u8) -> Result<(), String> {
        if self.peek() == c {
            self.i += 1;
            Ok(())
        } else {
            Err(format!("type: expected {} at {}", c as char, self.i))
        }
    }
    fn num(&mut self) -> Result<u64, String> {
        let st = self.i;
        while self.peek().is_ascii_digit() {
            self.i += 1;
        }
        std::str::from_utf8(&self.s[st..self.i]).unwrap().parse::<u64>().map_err(|e| format!("type: {e} at {st}"))
    }
    fn ty(&mut self) -> Result<TypeNodeId, String> {
        use mimium_lang::types::{PType, Type};
        let c = self.peek();
        self.i += 1;
        Ok(match c {
            b'N' => match self.num()? {
                0 => Type::Primitive(PType::Unit).into_id(),
                1 => Type::Primitive(PType::Numeric).into_id(),
                n => Type::Tuple((0..n).map(|_| Type::Primitive(PType::Numeric).into_id()).collect()).into_id(),
            },
            b'A' => Type::TypeAlias(format!("s{}", self.num()?).to_symbol()).into_id(),
            b'B' => {
                self.eat(b'(')?;
                let t = self.ty()?;
                self.eat(b')')?;
                Type::Boxed(t).into_id()
            }
            b'S' => {
                let name = format!("s{}", self.num()?).to_symbol();
                self.eat(b'(')?;
                let mut variants = vec![];
                if self.peek() != b')' {
                    loop {
                        let v = if self.peek() == b'-' {
                            self.i += 1;
                            None
                        } else {
                            Some(self.ty()?)
                        };
                        variants.push((format!("c{}", variants.len()).to_symbol(), v));
                        if self.peek() == b'/' {
                            self.i += 1;
                        } else {
                            break;
                        }
                    }
                }
                self.eat(b')')?;
                Type::UserSum { name, variants }.into_id()
            }
            b'T' => {
                self.eat(b'(')?;
                let mut l = vec![];
                if self.peek() != b')' {
                    loop {
                        l.push(self.ty()?);
                        if self.peek() == b'/' {
                            self.i += 1;
                        } else {
                            break;
                        }
                    }
                }
                self.eat(b')')?;
                Type::Tuple(l).into_id()
            }
            _ => return Err(format!("type: bad character at {}", self.i - 1)),
        })
    }
}

fn hex(s: &str) -> Result<u64, String> {
    u64::from_str_radix(s, 16).map_err(|e| format!("{e}: {s}"))
}
fn pval(s: &str) -> Result<Val, String> {
    if s.is_empty() {
        return Err("empty value".into());
    }
    let r = &s[1..];
    match s.as_bytes()[0] {
        b'n' => Ok(Val::Num(hex(r)?)),
        b'h' => Ok(Val::Heap(r.parse::<usize>().map_err(|e| e.to_string())?)),
        b'a' => Ok(Val::Arr(r.parse::<usize>().map_err(|e| e.to_string())?)),
        _ => Err(format!("bad value {s}")),
    }
}
fn pvals(s: &str) -> Result<Vec<Val>, String> {
    if s.is_empty() { Ok(vec![]) } else { s.split(',').map(pval).collect() }
}
fn phexes(s: &str) -> Result<Vec<u64>, String> {
    if s.is_empty() { Ok(vec![]) } else { s.split(',').map(hex).collect() }
}
fn pu(s: &str) -> Result<u64, String> {
    s.parse::<u64>().map_err(|e| format!("{e}: {s}"))
}
fn pop(s: &str) -> Result<Op, String> {
    let p: Vec<&str> = s.split(':').collect();
    Ok(match (p[0], p.len()) {
        ("HA", 2) => Op::HeapAlloc(pu(p[1])?),
        ("BA", 2) => Op::BoxAlloc(pvals(p[1])?),
        ("RT", 2) => Op::Retain(pval(p[1])?),
        ("RL", 2) => Op::Release(pval(p[1])?),
        ("LD", 3) => Op::Load(pval(p[1])?, pu(p[2])?),
        ("ST", 3) => Op::Store(pval(p[1])?, pvals(p[2])?),
        ("PU", 2) => Op::Push(p[1].parse::<i64>().map_err(|e| e.to_string())?),
        ("PO", 2) => Op::Pop(p[1].parse::<i64>().map_err(|e| e.to_string())?),
        ("SG", 2) => Op::StGet(pu(p[1])?),
        ("SS", 2) => Op::StSet(phexes(p[1])?),
        ("SD", 4) => Op::Delay(hex(p[1])?, hex(p[2])?, pu(p[3])?),
        ("SM", 2) => Op::Mem(hex(p[1])?),
        ("AN", 3) => Op::ArrNew(pu(p[1])?, pvals(p[2])?),
        ("AG", 4) => Op::ArrGet(pval(p[1])?, hex(p[2])?, pu(p[3])?),
        ("AS", 5) => Op::ArrSet(pval(p[1])?, hex(p[2])?, pvals(p[3])?, pu(p[4])?),
        ("AL", 2) => Op::ArrLen(pval(p[1])?),
        ("NW", 1) => Op::Now,
        ("SR", 1) => Op::Sr,
        ("TG", 4) => Op::TraitGet(pval(p[1])?, hex(p[2])?, pu(p[3])?),
        ("TS", 5) => Op::TraitSet(pval(p[1])?, hex(p[2])?, pvals(p[3])?, pu(p[4])?),
        ("UC", 3) => Op::UsClone(pvals(p[1])?, pu(p[2])?),
        ("UR", 3) => Op::UsRelease(pvals(p[1])?, pu(p[2])?),
        _ => return Err(format!("bad operation {s}")),
    })
}

#[derive(Default)]
struct Tabs {
    heap: Vec<u64>,
    arr: Vec<u64>,
}
impl Tabs {
    fn res(&self, v: &Val) -> u64 {
        match v {
            Val::Num(w) => *w,
            Val::Heap(k) => self.heap.get(*k).copied().unwrap_or(0),
            Val::Arr(k) => self.arr.get(*k).copied().unwrap_or(0),
        }
    }
    fn all(&self, vs: &[Val]) -> Vec<u64> {
        vs.iter().map(|v| self.res(v)).collect()
    }
}

fn words(ws: &[u64]) -> String {
    format!("w{}", ws.iter().map(|w| format!("{w:x}")).collect::<Vec<_>>().join(","))
}

/// panic message -> fault class of the models
fn classify(msg: &str) -> &'static str {
    let m = msg.to_ascii_lowercase();
    if m.contains("start + elem_size <= array.data.len()") || m.contains("src.len() >= ") || m.contains("dst.len() >= ") {
        "Fr"
    } else if m.contains("invalid heap index") || m.contains("invalid array id") || m.contains("invalid arrayidx") {
        "Fh"
    } else if m.contains("subtract with overflow") {
        "Fu"
    } else if m.contains("elem_size") || m.contains("divide by zero") || m.contains("elem_words") {
        "Fs"
    } else if m.contains("out of range") || m.contains("range end index") || m.contains("range start index")
        || m.contains("index out of bounds") || m.contains("start + elem_size <= array.data.len()")
        || m.contains("multiply with overflow") || m.contains("add with overflow") || m.contains("source slice length")
        || m.contains("src.len() >= ") || m.contains("dst.len() >= ")
    {
        "Fr"
    } else {
        "F?"
    }
}

/// reference count reported by the H2 hook for the retain (op 1) / release (op 2) that just ran
fn count_from_events(ev: &[(u8, u64, u64, u64)], opk: u8) -> String {
    for (kind, _i, _v, rc) in ev {
        if *kind == opk {
            return if *rc == u64::MAX { "i".to_string() } else { format!("c{rc}") };
        }
    }
    "?".to_string()
}

// ------------------------------------------------------------------------------------------------------------------
// VM
// ------------------------------------------------------------------------------------------------------------------
struct VmSide {
    m: Machine,
    instr: bool,
    len_fn: mimium_lang::plugin::ExtClsType,
    /// element size of the arrays this harness allocated (Machine.arrays is crate-private): raw handle -> esz
    esz: std::collections::HashMap<u64, u64>,
}

impl VmSide {
    fn new(state_size: u64, instr: bool) -> Self {
        let skel = || StateTreeSkeleton::Mem(mimium_lang::mir::StateType(state_size));
        let mk = |code: Vec<Instruction>| FuncProto { bytecodes: code, state_skeleton: skel(), ..Default::default() };
        let prog = Program {
            global_fn_table: vec![("main".to_string(), mk(vec![Instruction::Return0])), ("op".to_string(), mk(vec![Instruction::Return0]))],
            ..Default::default()
        };
        let mut m = Machine::new(prog, std::iter::empty(), std::iter::empty());
        // sizes the global state storage from the skeleton and leaves base_pointer = 1
        m.execute_idx(0);
        let len_fn = get_builtin_fns_as_plugins()
            .get_ext_closures()
            .into_iter()
            .find(|f| f.get_name().as_str() == "len")
            .expect("builtin len")
            .get_fn();
        VmSide { m, instr, len_fn, esz: Default::default() }
    }
    /// run `code` as function 1 with the registers preset; returns the first `nret` result words
    fn exec(&mut self, code: Vec<Instruction>, regs: &[u64], nret: usize) -> Vec<u64> {
        // a compiled function that returns nothing ends with Return0 (Return(_, 0) is never emitted)
        let code = code
            .into_iter()
            .map(|i| if matches!(i, Instruction::Return(_, 0)) { Instruction::Return0 } else { i })
            .collect();
        self.m.prog.global_fn_table[1].1.bytecodes = code;
        for (i, w) in regs.iter().enumerate() {
            self.m.set_stack(i as i64, *w);
        }
        // a real frame has its registers on the stack: keep at least 8 words above the base pointer
        for i in regs.len()..8 {
            self.m.set_stack(i as i64, 0);
        }
        self.m.execute_idx(1);
        (0..nret).map(|i| self.m.get_stack(i as i64 - 1)).collect()
    }
    fn state_fits(&self, extent: u64) -> bool {
        let (w, pos) = self.m.verif_global_state();
        (pos as u64).checked_add(extent).is_some_and(|e| e <= w.len() as u64)
    }
    fn arr_esz(&self, raw: u64) -> Option<u64> {
        // KeyData::from_ffi: idx = low 32 bits, version = high 32 bits | 1
        let canon = (((raw >> 32) | 1) << 32) | (raw & 0xffff_ffff);
        self.esz.get(&canon).copied()
    }

    fn step(&mut self, t: &Tabs, op: &Op) -> String {
        let instr = self.instr;
        match op {
            Op::HeapAlloc(size) => {
                let k = self.m.heap_alloc(*size);
                format!("h{:x}", Machine::to_value(k))
            }
            Op::BoxAlloc(vs) => {
                let src = t.all(vs);
                if instr {
                    let mut regs = vec![0u64];
                    regs.extend(&src);
                    let r = self.exec(vec![Instruction::BoxAlloc(0, 1, src.len() as u16), Instruction::Return(0, 1)], &regs, 1);
                    format!("h{:x}", r[0])
                } else {
                    let k = self.m.box_alloc(&src, src.len() as u64);
                    format!("h{:x}", Machine::to_value(k))
                }
            }
            Op::Retain(h) | Op::Release(h) => {
                let raw = t.res(h);
                let is_ret = matches!(op, Op::Retain(_));
                vm::verif_hooks::heap_start();
                if instr {
                    let i = if is_ret { Instruction::BoxClone(0) } else { Instruction::BoxRelease(0) };
                    self.exec(vec![i, Instruction::Return0], &[raw], 0);
                } else if is_ret {
                    self.m.box_clone(Machine::get_as(raw));
                } else {
                    self.m.box_release(Machine::get_as(raw));
                }
                let ev = vm::verif_hooks::heap_take();
                count_from_events(&ev, if is_ret { 1 } else { 2 })
            }
            Op::Load(h, size) => {
                let raw = t.res(h);
                if instr {
                    let r = self.exec(vec![Instruction::BoxLoad(1, 0, *size as u16), Instruction::Return(1, *size as u16)], &[raw], *size as usize);
                    words(&r)
                } else {
                    let mut dst = vec![0u64; *size as usize];
                    self.m.heap_load(&mut dst, Machine::get_as(raw), *size);
                    words(&dst)
                }
            }
            Op::Store(h, vs) => {
                let raw = t.res(h);
                let src = t.all(vs);
                if instr {
                    let mut regs = vec![raw];
                    regs.extend(&src);
                    self.exec(vec![Instruction::BoxStore(0, 1, src.len() as u16), Instruction::Return0], &regs, 0);
                } else {
                    self.m.heap_store(Machine::get_as(raw), &src, src.len() as u64);
                }
                "u".into()
            }
            Op::Push(o) | Op::Pop(o) => {
                // StateOffset is a 24-bit unsigned integer: other offsets cannot be written
                let Some(off) = u64::try_from(*o).ok().and_then(|v| StateOffset::try_from(v).ok()) else {
                    return "Fs".into();
                };
                let is_push = matches!(op, Op::Push(_));
                if instr {
                    let i = if is_push { Instruction::PushStatePos(off) } else { Instruction::PopStatePos(off) };
                    self.exec(vec![i, Instruction::Return0], &[], 0);
                } else if is_push {
                    self.m.state_push(off);
                } else {
                    self.m.state_pop(off);
                }
                "u".into()
            }
            Op::StGet(size) => {
                if !self.state_fits(*size) {
                    return "Fr".into();
                }
                if instr {
                    let r = self.exec(vec![Instruction::GetState(0, *size as u16), Instruction::Return(0, *size as u16)], &[], *size as usize);
                    words(&r)
                } else {
                    let mut dst = vec![0u64; *size as usize];
                    self.m.state_get(&mut dst, *size);
                    words(&dst)
                }
            }
            Op::StSet(src) => {
                if !self.state_fits(src.len() as u64) {
                    return "Fr".into();
                }
                if instr {
                    self.exec(vec![Instruction::SetState(0, src.len() as u16), Instruction::Return0], src, 0);
                } else {
                    self.m.state_set(src, src.len() as u64);
                }
                "u".into()
            }
            Op::Delay(input, time, max_len) => {
                if !self.state_fits(max_len.saturating_add(2)) {
                    return "Fr".into();
                }
                if instr {
                    let r = self.exec(vec![Instruction::Delay(2, 0, 1), Instruction::Return(2, 1)], &[*input, *time, *max_len], 1);
                    words(&r)
                } else {
                    let mut dst = [0u64];
                    self.m.state_delay(&mut dst, &[*input], &[*time], *max_len);
                    words(&dst)
                }
            }
            Op::Mem(input) => {
                if !self.state_fits(1) {
                    return "Fr".into();
                }
                if instr {
                    let r = self.exec(vec![Instruction::Mem(1, 0), Instruction::Return(1, 1)], &[*input], 1);
                    words(&r)
                } else {
                    let mut dst = [0u64];
                    self.m.state_mem(&mut dst, &[*input]);
                    words(&dst)
                }
            }
            Op::ArrNew(esz, vs) => {
                // bytecodegen.rs mir::Instruction::Array: AllocArray(n, esz), then SetArrayElem(arr, i as f64, element i)
                let data = t.all(vs);
                if *esz == 0 || data.len() as u64 % *esz != 0 {
                    return "Fs".into();
                }
                let n = data.len() as u64 / *esz;
                let raw = self.exec(vec![Instruction::AllocArray(0, n as u16, *esz as u16), Instruction::Return(0, 1)], &[], 1)[0];
                self.esz.insert(raw, *esz);
                for i in 0..n as usize {
                    let mut regs = vec![raw, (i as f64).to_bits()];
                    regs.extend(&data[i * *esz as usize..(i + 1) * *esz as usize]);
                    self.exec(vec![Instruction::SetArrayElem(0, 1, 2), Instruction::Return0], &regs, 0);
                }
                self.esz.insert(raw, *esz);
                format!("h{raw:x}")
            }
            Op::ArrGet(a, idx, _esz) => {
                let raw = t.res(a);
                let n = self.arr_esz(raw).unwrap_or(1) as usize;
                let r = self.exec(vec![Instruction::GetArrayElem(2, 0, 1), Instruction::Return(2, n as u16)], &[raw, *idx], n);
                words(&r)
            }
            Op::ArrSet(a, idx, vs, _esz) => {
                let raw = t.res(a);
                let src = t.all(vs);
                if let Some(e) = self.arr_esz(raw)
                    && e != 0
                    && e != src.len() as u64
                {
                    return "Fs".into(); // the instruction reads elem_word_size registers: no such bytecode is emitted
                }
                let mut regs = vec![raw, *idx];
                regs.extend(&src);
                self.exec(vec![Instruction::SetArrayElem(0, 1, 2), Instruction::Return0], &regs, 0);
                "u".into()
            }
            Op::ArrLen(a) => {
                let raw = t.res(a);
                self.m.set_stack(0, raw);
                let f = self.len_fn.clone();
                (f.borrow_mut())(&mut self.m);
                words(&[self.m.get_stack(0)])
            }
            Op::Now => words(&[self.m.runtime_get_now()]),
            Op::Sr => words(&[self.m.runtime_get_samplerate()]),
            Op::TraitGet(a, idx, esz) => {
                let raw = t.res(a);
                let mut dst = vec![0u64; *esz as usize];
                self.m.array_get_elem(&mut dst, raw, *idx, *esz);
                words(&dst)
            }
            Op::TraitSet(a, idx, vs, esz) => {
                let raw = t.res(a);
                let src = t.all(vs);
                self.m.array_set_elem(raw, *idx, &src, *esz);
                "u".into()
            }
            Op::UsClone(vs, ty) | Op::UsRelease(vs, ty) => {
                let mut value = t.all(vs);
                let is_clone = matches!(op, Op::UsClone(..));
                if *ty as usize >= self.m.prog.type_table.len() {
                    return "Fs".into(); // expect("invalid type id")
                }
                if instr {
                    let n = value.len() as u16;
                    let i = if is_clone { Instruction::CloneUserSum(0, n, *ty as u8) } else { Instruction::ReleaseUserSum(0, n, *ty as u8) };
                    self.exec(vec![i, Instruction::Return0], &value, 0);
                } else if is_clone {
                    let n = value.len() as u64;
                    self.m.usersum_clone(&mut value, n, *ty as u8);
                } else {
                    let n = value.len() as u64;
                    self.m.usersum_release(&mut value, n, *ty as u8);
                }
                "u".into()
            }
        }
    }
}

// ------------------------------------------------------------------------------------------------------------------
// WASM host
// ------------------------------------------------------------------------------------------------------------------
const I32: u8 = 0x7f;
const I64: u8 = 0x7e;
const F64: u8 = 0x7c;

fn leb(mut v: u32, out: &mut Vec<u8>) {
    loop {
        let b = (v & 0x7f) as u8;
        v >>= 7;
        if v == 0 {
            out.push(b);
            return;
        }
        out.push(b | 0x80);
    }
}
fn name(s: &str, out: &mut Vec<u8>) {
    leb(s.len() as u32, out);
    out.extend(s.as_bytes());
}
fn section(id: u8, body: Vec<u8>, out: &mut Vec<u8>) {
    out.push(id);
    leb(body.len() as u32, out);
    out.extend(body);
}

/// (module, field, params, results) of the host functions the test module imports and re-exports under `field`
fn imports() -> Vec<(&'static str, &'static str, Vec<u8>, Vec<u8>)> {
    vec![
        ("runtime", "heap_alloc", vec![I32], vec![I64]),
        ("runtime", "heap_retain", vec![I64], vec![]),
        ("runtime", "heap_release", vec![I64], vec![]),
        ("runtime", "heap_load", vec![I32, I64, I32], vec![]),
        ("runtime", "heap_store", vec![I64, I32, I32], vec![]),
        ("runtime", "box_alloc", vec![I32, I32], vec![I64]),
        ("runtime", "box_load", vec![I32, I64, I32], vec![]),
        ("runtime", "box_clone", vec![I64], vec![]),
        ("runtime", "box_release", vec![I64], vec![]),
        ("runtime", "box_store", vec![I64, I32, I32], vec![]),
        ("runtime", "usersum_clone", vec![I32, I32, I32], vec![]),
        ("runtime", "usersum_release", vec![I32, I32, I32], vec![]),
        ("runtime", "state_push", vec![I64], vec![]),
        ("runtime", "state_pop", vec![I64], vec![]),
        ("runtime", "state_get", vec![I32, I32], vec![]),
        ("runtime", "state_set", vec![I32, I32], vec![]),
        ("runtime", "state_delay", vec![F64, F64, I64], vec![F64]),
        ("runtime", "state_mem", vec![F64], vec![F64]),
        ("runtime", "array_alloc", vec![I64, I32], vec![I64]),
        ("runtime", "array_get_elem", vec![I32, I64, I64, I32], vec![]),
        ("runtime", "array_set_elem", vec![I64, I64, I32, I32], vec![]),
        ("runtime", "runtime_get_now", vec![], vec![F64]),
        ("runtime", "runtime_get_samplerate", vec![], vec![F64]),
        ("builtin", "len", vec![I64], vec![F64]),
    ]
}

fn test_module() -> Vec<u8> {
    let imps = imports();
    // defined functions: poke(i32, i64), peek(i32) -> i64, trunc(f64) -> i64
    let defs: Vec<(&str, Vec<u8>, Vec<u8>, Vec<u8>)> = vec![
        ("poke", vec![I32, I64], vec![], vec![0x00, 0x20, 0x00, 0x20, 0x01, 0x37, 0x03, 0x00, 0x0b]),
        ("peek", vec![I32], vec![I64], vec![0x00, 0x20, 0x00, 0x29, 0x03, 0x00, 0x0b]),
        ("trunc", vec![F64], vec![I64], vec![0x00, 0x20, 0x00, 0xfc, 0x06, 0x0b]),
    ];
    let mut out = vec![0x00, 0x61, 0x73, 0x6d, 0x01, 0x00, 0x00, 0x00];
    // type section: one type per function
    let mut ty = vec![];
    leb((imps.len() + defs.len()) as u32, &mut ty);
    let mut functype = |p: &Vec<u8>, r: &Vec<u8>, ty: &mut Vec<u8>| {
        ty.push(0x60);
        leb(p.len() as u32, ty);
        ty.extend(p);
        leb(r.len() as u32, ty);
        ty.extend(r);
    };
    for (_, _, p, r) in &imps {
        functype(p, r, &mut ty);
    }
    for (_, p, r, _) in &defs {
        functype(p, r, &mut ty);
    }
    section(1, ty, &mut out);
    // import section
    let mut im = vec![];
    leb(imps.len() as u32, &mut im);
    for (i, (m, f, _, _)) in imps.iter().enumerate() {
        name(m, &mut im);
        name(f, &mut im);
        im.push(0x00);
        leb(i as u32, &mut im);
    }
    section(2, im, &mut out);
    // function section
    let mut fs = vec![];
    leb(defs.len() as u32, &mut fs);
    for i in 0..defs.len() {
        leb((imps.len() + i) as u32, &mut fs);
    }
    section(3, fs, &mut out);
    // memory section: 1 memory, min 16 pages (1 MiB)
    section(5, vec![0x01, 0x00, 0x10], &mut out);
    // export section
    let mut ex = vec![];
    leb((imps.len() + defs.len() + 1) as u32, &mut ex);
    name("memory", &mut ex);
    ex.push(0x02);
    leb(0, &mut ex);
    for (i, (_, f, _, _)) in imps.iter().enumerate() {
        name(f, &mut ex);
        ex.push(0x00);
        leb(i as u32, &mut ex);
    }
    for (i, (f, _, _, _)) in defs.iter().enumerate() {
        name(f, &mut ex);
        ex.push(0x00);
        leb((imps.len() + i) as u32, &mut ex);
    }
    section(7, ex, &mut out);
    // code section
    let mut code = vec![];
    leb(defs.len() as u32, &mut code);
    for (_, _, _, body) in &defs {
        leb(body.len() as u32, &mut code);
        code.extend(body);
    }
    section(10, code, &mut out);
    out
}

const BUF: u64 = 1024; // byte address of the exchange buffer in linear memory
const BUF_WORDS: u64 = 100_000;

struct WasmSide {
    e: WasmEngine,
}

impl WasmSide {
    fn new(precompiled: &[u8], now: u64) -> Result<Self, String> {
        let mut e = WasmEngine::new(&[], None)?;
        e.load_precompiled_module(precompiled)?;
        e.current_module_mut().unwrap().set_current_time(now);
        Ok(WasmSide { e })
    }
    fn call(&mut self, f: &str, args: &[u64]) -> Vec<u64> {
        match self.e.execute_function(f, args) {
            Ok(r) => r,
            Err(m) => panic!("wasm call {f} failed: {m}"),
        }
    }
    fn poke(&mut self, ws: &[u64]) {
        assert!((ws.len() as u64) < BUF_WORDS, "exchange buffer too small");
        for (i, w) in ws.iter().enumerate() {
            self.call("poke", &[BUF + 8 * i as u64, *w]);
        }
    }
    fn peek(&mut self, n: u64) -> Vec<u64> {
        assert!(n < BUF_WORDS, "exchange buffer too small");
        (0..n).map(|i| self.call("peek", &[BUF + 8 * i])[0]).collect()
    }
    fn state(&mut self) -> Vec<u64> {
        self.e.get_global_state_data().map(|d| d.to_vec()).unwrap_or_default()
    }

    fn step(&mut self, t: &Tabs, op: &Op) -> String {
        match op {
            Op::HeapAlloc(size) => format!("h{:x}", self.call("heap_alloc", &[*size])[0]),
            Op::BoxAlloc(vs) => {
                let src = t.all(vs);
                self.poke(&src);
                format!("h{:x}", self.call("box_alloc", &[BUF, src.len() as u64])[0])
            }
            Op::Retain(h) | Op::Release(h) => {
                let raw = t.res(h);
                let is_ret = matches!(op, Op::Retain(_));
                vm::verif_hooks::heap_start();
                self.call(if is_ret { "box_clone" } else { "box_release" }, &[raw]);
                let ev = vm::verif_hooks::heap_take();
                count_from_events(&ev, if is_ret { 1 } else { 2 })
            }
            Op::Load(h, size) => {
                let raw = t.res(h);
                assert!(*size < BUF_WORDS, "exchange buffer too small");
                self.call("box_load", &[BUF, raw, *size]);
                words(&self.peek(*size))
            }
            Op::Store(h, vs) => {
                let raw = t.res(h);
                let src = t.all(vs);
                self.poke(&src);
                self.call("box_store", &[raw, BUF, src.len() as u64]);
                "u".into()
            }
            Op::Push(o) => {
                self.call("state_push", &[*o as u64]);
                "u".into()
            }
            Op::Pop(o) => {
                self.call("state_pop", &[*o as u64]);
                "u".into()
            }
            Op::StGet(size) => {
                assert!(*size < BUF_WORDS, "exchange buffer too small");
                self.call("state_get", &[BUF, *size]);
                words(&self.peek(*size))
            }
            Op::StSet(src) => {
                self.poke(src);
                self.call("state_set", &[BUF, src.len() as u64]);
                "u".into()
            }
            Op::Delay(input, time, max_len) => words(&self.call("state_delay", &[*input, *time, *max_len])),
            Op::Mem(input) => words(&self.call("state_mem", &[*input])),
            Op::ArrNew(esz, vs) => {
                // wasmgen.rs I::Array: element words written to linear memory, array_alloc(ptr, n * esz)
                let data = t.all(vs);
                if *esz == 0 || data.len() as u64 % *esz != 0 {
                    return "Fs".into();
                }
                self.poke(&data);
                format!("h{:x}", self.call("array_alloc", &[BUF, data.len() as u64])[0])
            }
            Op::ArrGet(a, idx, esz) => {
                let raw = t.res(a);
                let i = self.call("trunc", &[*idx])[0]; // emit_value_load_as_numeric_i64
                self.call("array_get_elem", &[BUF, raw, i, *esz]);
                words(&self.peek(*esz))
            }
            Op::ArrSet(a, idx, vs, esz) => {
                let raw = t.res(a);
                let src = t.all(vs);
                if src.len() as u64 != *esz {
                    return "Fs".into(); // the host reads elem_size words of memory: the value has that many
                }
                self.poke(&src);
                let i = self.call("trunc", &[*idx])[0];
                self.call("array_set_elem", &[raw, i, BUF, *esz]);
                "u".into()
            }
            Op::ArrLen(a) => words(&self.call("len", &[t.res(a)])),
            Op::Now => words(&self.call("runtime_get_now", &[])),
            Op::Sr => words(&self.call("runtime_get_samplerate", &[])),
            Op::TraitGet(..) | Op::TraitSet(..) => "-".into(),
            // wasmgen.rs I::CloneUserSum / I::ReleaseUserSum: (value_ptr placeholder 0, size, type_id 0)
            Op::UsClone(vs, _) => {
                self.call("usersum_clone", &[0, vs.len() as u64, 0]);
                "u".into()
            }
            Op::UsRelease(vs, _) => {
                self.call("usersum_release", &[0, vs.len() as u64, 0]);
                "u".into()
            }
        }
    }
}

fn after(t: &mut Tabs, op: &Op, res: &str) {
    if let Some(h) = res.strip_prefix('h')
        && let Ok(w) = u64::from_str_radix(h, 16)
    {
        match op {
            Op::HeapAlloc(_) | Op::BoxAlloc(_) => t.heap.push(w),
            Op::ArrNew(..) => t.arr.push(w),
            _ => {}
        }
    }
}

fn kv<'a>(s: &'a str, k: &str) -> Result<&'a str, String> {
    s.strip_prefix(k).and_then(|r| r.strip_prefix('=')).ok_or_else(|| format!("expected {k}= in {s}"))
}

fn run_case(line: &str, precompiled: &[u8]) -> Result<String, String> {
    let mut parts = line.split(';');
    let size = pu(kv(parts.next().unwrap_or(""), "S")?)?;
    let now = pu(kv(parts.next().unwrap_or(""), "N")?)?;
    let _sr = kv(parts.next().unwrap_or(""), "R")?;
    let mut instr = false;
    let mut wasm_only = false;
    let mut types: Vec<TypeNodeId> = vec![];
    let mut ops = vec![];
    for p in parts {
        if p.is_empty() {
            continue;
        }
        if let Some(m) = p.strip_prefix("M=") {
            instr = m == "I";
            continue;
        }
        if let Some(o) = p.strip_prefix("O=") {
            // O=W: only the WASM host runs (sequences with words that are no heap handle: the VM still transmutes a
            // handle word into a key, so the zero word would make it read slotmap's vacant sentinel slot)
            wasm_only = o == "W";
            continue;
        }
        if let Some(y) = p.strip_prefix("Y=") {
            for t in y.split('~').filter(|t| !t.is_empty()) {
                let mut tp = TyP { s: t.as_bytes(), i: 0 };
                types.push(tp.ty()?);
            }
            continue;
        }
        ops.push(pop(p)?);
    }
    // VM
    let mut vout = vec![];
    let vm_res = if wasm_only { Err(String::new()) } else { guarded(|| VmSide::new(size, instr)) };
    let mut vmst = String::from("!");
    let mut vmlen = String::from("!");
    match vm_res {
        Err(_) if wasm_only => {}
        Err(m) => vout.push(format!("F?new:{}", m.replace(['|', ';', '\n'], " "))),
        Ok(mut v) => {
            v.m.prog.type_table = types.clone();
            let mut t = Tabs::default();
            for op in &ops {
                match guarded(|| v.step(&t, op)) {
                    Ok(r) => {
                        let fault = r.starts_with('F');
                        after(&mut t, op, &r);
                        vout.push(r);
                        if fault {
                            break;
                        }
                    }
                    Err(m) => {
                        let c = classify(&m);
                        vout.push(if c == "F?" { format!("F?{}", m.replace(['|', ';', '\n'], " ")) } else { c.to_string() });
                        break;
                    }
                }
            }
            let (w, pos) = v.m.verif_global_state();
            vmst = format!("{}@{}", w.iter().map(|x| format!("{x:x}")).collect::<Vec<_>>().join(","), pos);
            vmlen = format!("{}", v.m.heap.len());
        }
    }
    // WASM
    let mut wout = vec![];
    let mut wast = String::from("!");
    match guarded(|| WasmSide::new(precompiled, now)) {
        Err(m) | Ok(Err(m)) => wout.push(format!("F?new:{}", m.replace(['|', ';', '\n'], " "))),
        Ok(Ok(mut w)) => {
            let mut t = Tabs::default();
            for op in &ops {
                match guarded(|| w.step(&t, op)) {
                    Ok(r) => {
                        let fault = r.starts_with('F');
                        after(&mut t, op, &r);
                        wout.push(r);
                        if fault {
                            break;
                        }
                    }
                    Err(m) => {
                        let c = classify(&m);
                        wout.push(if c == "F?" { format!("F?{}", m.replace(['|', ';', '\n'], " ")) } else { c.to_string() });
                        break;
                    }
                }
            }
            wast = match guarded(|| w.state()) {
                Ok(s) => format!("{}@?", s.iter().map(|x| format!("{x:x}")).collect::<Vec<_>>().join(",")),
                Err(_) => "!".into(),
            };
        }
    }
    Ok(format!("vm={}|wasm={}|vmst={}|wast={}|vmlen={}", vout.join(";"), wout.join(";"), vmst, wast, vmlen))
}

fn main() {
    quiet_panics();
    let args: Vec<String> = std::env::args().collect();
    if args.iter().any(|a| a == "--dump-module") {
        std::io::stdout().write_all(&test_module()).unwrap();
        return;
    }
    // compile the test module once; every case gets a fresh engine + instance from the serialized artifact
    let precompiled = {
        let mut e = WasmEngine::new(&[], None).expect("wasm engine");
        e.load_module(&test_module()).expect("the hand-encoded test module must validate");
        e.current_module_mut().unwrap().serialize_compiled_module().expect("serialize")
    };
    let stdin = std::io::stdin();
    let out = std::io::stdout();
    let mut id = 0usize;
    for line in stdin.lock().lines() {
        let line = line.unwrap();
        if line.trim().is_empty() {
            continue;
        }
        let ans = match guarded(|| run_case(line.trim(), &precompiled)) {
            Ok(Ok(a)) => a,
            Ok(Err(m)) => format!("!input-error {m}"),
            Err(m) => format!("!harness-panic {}", m.replace('\n', " ")),
        };
        let mut o = out.lock();
        writeln!(o, "#{id} {ans}").unwrap();
        o.flush().unwrap();
        id += 1;
    }
}
