//! C04 harness: the real front end and compile entry points on arbitrary text.
//!
//! `front_run cst`     correspondence with Parser/Model.v
//!   stdin : one case per line = UTF-8 bytes of a source text in hex
//!   stdout: one JSON object per line
//!     {"k":[kind names of the non-trivia tokens (positions 0..n-1), as the parser sees them],
//!      "f":[flags per position: 1 trailing trivia of p has a LineBreak, 2 leading trivia of p has a LineBreak,
//!           4 token p directly follows token p-1 in the raw token list (no trivia between)],
//!      "i":[raw token index per position (preparsed.token_indices)], "raw": number of raw tokens,
//!      "s":"(Kind child ..)" CST, token leaves printed as POSITIONS (r<raw> when the raw index is no position),
//!      "e":[[raw token_index, class U|E|S, expected/reason, found]...],
//!      "m":[[position, kind name]...]  tokens whose kind was rewritten by the parser}
//!     or {"panic":"stage: message"}
//!
//! `front_run oracle`  totality oracle of the entry points (supervised by checks/C04.py)
//!   stdin : `<id> <hex>` per line
//!   stdout: `B <id>` before the calls of a case (flushed), then `R <id> <json>`:
//!     {"st":[[stage, outcome V(alue)|D(iagnostics)|P(anic), n_diagnostics, n_bad_spans, panic message, first bad span]...]}
//!   stages: tokenize, parse_to_expr, typecheck (mirgen::typecheck_with_module_info as the language server's
//!   analyze_source calls it), emit_bytecode, emit_wasm (compiler::Context of an ExecContext with the
//!   audio-driver plugin and the scheduler plugin, as runner.rs).
//!   A watchdog thread prints `T <id>` and exits with code 3 when one case takes longer than the limit
//!   (argv[2], seconds, default 10). The calls run on a thread with an 8 MiB stack (argv[3] overrides, MiB);
//!   a stack overflow kills the process: the supervisor sees `B <id>` without `R <id>`.
use mimium_audiodriver::backends::local_buffer::LocalBufferDriver;
use mimium_audiodriver::driver::Driver;
use mimium_lang::compiler::mirgen;
use mimium_lang::compiler::parser::{self, GreenNodeArena, GreenNodeId, Token, TokenKind, green::GreenNode};
use mimium_lang::plugin::Plugin;
use mimium_lang::utils::error::ReportableError;
use mimium_lang::{Config, ExecContext};
use serde_json::json;
use std::io::{self, BufRead, Write};
use std::sync::atomic::{AtomicU64, Ordering};
use std::sync::Arc;
use verif_lang::common::guarded as guarded_msg;

thread_local! {
    /// file:line of the last panic on this thread (set by the panic hook)
    static LAST_PANIC_AT: std::cell::RefCell<String> = const { std::cell::RefCell::new(String::new()) };
}

/// panic hook: silent, records the location
fn record_panics() {
    std::panic::set_hook(Box::new(|info| {
        let at = info.location().map(|l| format!("{}:{}", l.file(), l.line())).unwrap_or_default();
        LAST_PANIC_AT.with(|c| *c.borrow_mut() = at);
    }));
}

/// Run `f`, mapping a panic to Err("<file:line> <message>")
fn guarded<T>(f: impl FnOnce() -> T) -> Result<T, String> {
    guarded_msg(f).map_err(|m| {
        let at = LAST_PANIC_AT.with(|c| c.borrow().clone());
        // strip the machine-specific prefix of the path
        let at = at.rsplit_once("/crates/").map(|(_, b)| format!("crates/{b}")).unwrap_or(at);
        format!("@{at} {m}")
    })
}

fn unhex(s: &str) -> Option<String> {
    let s = s.trim();
    if s.len() % 2 != 0 {
        return None;
    }
    let bytes: Option<Vec<u8>> = (0..s.len() / 2)
        .map(|i| u8::from_str_radix(&s[2 * i..2 * i + 2], 16).ok())
        .collect();
    String::from_utf8(bytes?).ok()
}

fn sexp(arena: &GreenNodeArena, id: GreenNodeId, pos_of_raw: &[Option<usize>], out: &mut String) {
    match arena.get(id) {
        GreenNode::Token { token_index, .. } => match pos_of_raw.get(*token_index).copied().flatten() {
            Some(p) => out.push_str(&p.to_string()),
            None => {
                out.push('r');
                out.push_str(&token_index.to_string());
            }
        },
        GreenNode::Internal { kind, children, .. } => {
            out.push('(');
            out.push_str(&format!("{kind:?}"));
            for c in children {
                out.push(' ');
                sexp(arena, *c, pos_of_raw, out);
            }
            out.push(')');
        }
    }
}

fn cst_case(src: &str) -> serde_json::Value {
    let tokens: Vec<Token> = match guarded(|| parser::tokenize(src)) {
        Ok(t) => t,
        Err(m) => return json!({"panic": format!("tokenize: {m}")}),
    };
    let pre = match guarded(|| parser::preparse(&tokens)) {
        Ok(p) => p,
        Err(m) => return json!({"panic": format!("preparse: {m}")}),
    };
    let n = pre.token_indices.len();
    let kinds: Vec<String> = pre.token_indices.iter().map(|&i| format!("{:?}", tokens[i].kind)).collect();
    let has_lb = |m: &std::collections::HashMap<usize, Vec<usize>>, k: usize| -> bool {
        m.get(&k).is_some_and(|v| v.iter().any(|&t| tokens.get(t).is_some_and(|t| t.kind == TokenKind::LineBreak)))
    };
    let flags: Vec<u8> = (0..n)
        .map(|p| {
            let mut b = 0u8;
            if has_lb(&pre.trailing_trivia_map, p) {
                b |= 1;
            }
            if has_lb(&pre.leading_trivia_map, p) {
                b |= 2;
            }
            if p > 0 && pre.token_indices[p] == pre.token_indices[p - 1] + 1 {
                b |= 4;
            }
            b
        })
        .collect();
    // keys of the trivia maps outside 0..n-1 would be invisible to the model: report them
    let stray: Vec<usize> = pre
        .trailing_trivia_map
        .keys()
        .chain(pre.leading_trivia_map.keys())
        .copied()
        .filter(|&k| k >= n)
        .collect();
    let mut pos_of_raw: Vec<Option<usize>> = vec![None; tokens.len()];
    for (p, &r) in pre.token_indices.iter().enumerate() {
        if r < pos_of_raw.len() {
            pos_of_raw[r] = Some(p);
        }
    }
    let before: Vec<TokenKind> = tokens.iter().map(|t| t.kind).collect();
    let res = guarded(|| parser::parse_cst(tokens.clone(), &pre));
    match res {
        Err(m) => json!({"panic": format!("parse_cst: {m}"), "k": kinds, "f": flags}),
        Ok((root, arena, toks2, errors)) => {
            let mut s = String::new();
            sexp(&arena, root, &pos_of_raw, &mut s);
            let errs: Vec<serde_json::Value> = errors
                .iter()
                .map(|e| {
                    use mimium_lang::compiler::parser::ParserError;
                    let ParserError { token_index, detail } = e;
                    // ErrorDetail is not re-exported: classify through its Display text
                    let d = format!("{detail}");
                    let (cls, a, b) = if let Some(rest) = d.strip_prefix("Expected ") {
                        match rest.rsplit_once(", found ") {
                            Some((x, y)) => ("U", x.to_string(), y.to_string()),
                            None => ("?", d.clone(), String::new()),
                        }
                    } else if let Some(rest) = d.strip_prefix("Unexpected end of input, expected ") {
                        ("E", rest.to_string(), String::new())
                    } else if let Some(rest) = d.strip_prefix("Invalid syntax: ") {
                        ("S", rest.to_string(), String::new())
                    } else {
                        ("?", d.clone(), String::new())
                    };
                    json!([token_index, cls, a, b])
                })
                .collect();
            let marks: Vec<serde_json::Value> = toks2
                .iter()
                .enumerate()
                .filter(|(i, t)| before.get(*i).is_some_and(|k| *k != t.kind))
                .map(|(i, t)| json!([pos_of_raw[i].map(|p| p as i64).unwrap_or(-1), format!("{:?}", t.kind)]))
                .collect();
            json!({"k": kinds, "f": flags, "i": pre.token_indices, "raw": tokens.len(), "s": s, "e": errs, "m": marks, "stray": stray})
        }
    }
}

/// watchdog: prints `T <id>` and exits with code 3 when the running case exceeds the limit
fn watchdog(limit_s: u64) -> (Arc<AtomicU64>, Arc<AtomicU64>) {
    let started = Arc::new(AtomicU64::new(0)); // ms since epoch of the running case, 0 = idle
    let cur_id = Arc::new(AtomicU64::new(0));
    {
        let started = started.clone();
        let cur_id = cur_id.clone();
        std::thread::spawn(move || loop {
            std::thread::sleep(std::time::Duration::from_millis(200));
            let s = started.load(Ordering::SeqCst);
            if s != 0 && now_ms() > s + limit_s * 1000 {
                // the worker thread never holds the stdout lock while computing
                let msg = format!("\nT {}\n", cur_id.load(Ordering::SeqCst));
                let mut o = io::stdout();
                let _ = o.write_all(msg.as_bytes());
                let _ = o.flush();
                std::process::exit(3);
            }
        });
    }
    (started, cur_id)
}

fn now_ms() -> u64 {
    std::time::SystemTime::now().duration_since(std::time::UNIX_EPOCH).unwrap().as_millis() as u64
}

fn mode_cst(limit_s: u64, sync: bool) {
    let (started, cur_id) = watchdog(limit_s);
    let stdin = io::stdin();
    let mut buf = String::new();
    let mut n: u64 = 0;
    for l in stdin.lock().lines() {
        let Ok(l) = l else { break };
        cur_id.store(n, Ordering::SeqCst);
        started.store(now_ms(), Ordering::SeqCst);
        let v = match unhex(&l) {
            Some(src) => cst_case(&src),
            None => json!({"badinput": true}),
        };
        started.store(0, Ordering::SeqCst);
        n += 1;
        buf.push_str(&v.to_string());
        buf.push('\n');
        if sync || buf.len() > (1 << 15) {
            let mut o = io::stdout().lock();
            if o.write_all(buf.as_bytes()).is_err() {
                return;
            }
            let _ = o.flush();
            buf.clear();
        }
    }
    let mut o = io::stdout().lock();
    let _ = o.write_all(buf.as_bytes());
    let _ = o.flush();
}

/// (number of labels, number of labels whose span is not inside the text on char boundaries, first bad)
fn span_check(src: &str, errs: &[Box<dyn ReportableError>]) -> (usize, usize, String) {
    let mut n = 0;
    let mut bad = 0;
    let mut first = String::new();
    for e in errs {
        for (loc, _msg) in e.get_labels() {
            n += 1;
            let (a, b) = (loc.span.start, loc.span.end);
            let ok = a <= b && b <= src.len() && src.is_char_boundary(a) && src.is_char_boundary(b);
            if !ok {
                bad += 1;
                if first.is_empty() {
                    first = format!("{a}..{b} len {} : {}", src.len(), e.get_message());
                }
            }
        }
    }
    (n, bad, first)
}

fn new_exec_ctx() -> ExecContext {
    let mut driver = LocalBufferDriver::new(0);
    let audiodriverplug: Box<dyn Plugin> = Box::new(driver.get_as_plugin());
    let mut ctx = ExecContext::new([audiodriverplug].into_iter(), None, Config::default());
    ctx.add_system_plugin(mimium_scheduler::get_default_scheduler_plugin());
    ctx.prepare_compiler();
    ctx
}

fn stage_result<T>(
    name: &str,
    src: &str,
    r: Result<Result<T, Vec<Box<dyn ReportableError>>>, String>,
) -> serde_json::Value {
    match r {
        Err(m) => json!([name, "P", 0, 0, m, ""]),
        Ok(Ok(_)) => json!([name, "V", 0, 0, "", ""]),
        Ok(Err(errs)) => {
            let (n, bad, first) = span_check(src, &errs);
            // an Err with an empty list is neither a value nor a diagnostic
            json!([name, if errs.is_empty() { "N" } else { "D" }, n, bad, "", first])
        }
    }
}

/// `S <stage>` before each entry point, so that the supervisor knows which call killed the process
fn mark(stage: &str) {
    let mut o = io::stdout().lock();
    let _ = writeln!(o, "S {stage}");
    let _ = o.flush();
}

fn oracle_case(src: &str, ctx: &ExecContext) -> serde_json::Value {
    let mut st = Vec::new();
    mark("tokenize");
    // 1 tokenize
    st.push(match guarded(|| parser::tokenize(src)) {
        Err(m) => json!(["tokenize", "P", 0, 0, m, ""]),
        Ok(toks) => {
            let bad = toks
                .iter()
                .filter(|t| {
                    let e = t.start.checked_add(t.length).unwrap_or(usize::MAX);
                    !(e <= src.len() && src.is_char_boundary(t.start) && src.is_char_boundary(e))
                })
                .count();
            json!(["tokenize", "V", toks.len(), bad, "", ""])
        }
    });
    // 2 parse_to_expr, 3 typecheck exactly as analysis.rs analyze_source
    let compiler = ctx.get_compiler().unwrap();
    let builtin_types = compiler.get_ext_typeinfos();
    mark("parse_to_expr");
    let parsed = guarded(|| parser::parse_to_expr(src, Some(std::path::PathBuf::from("file:///verif.mmm"))));
    match parsed {
        Err(m) => {
            st.push(json!(["parse_to_expr", "P", 0, 0, m, ""]));
            st.push(json!(["typecheck", "-", 0, 0, "", ""]));
        }
        Ok((ast, module_info, errs)) => {
            let (n, bad, first) = span_check(src, &errs);
            st.push(json!(["parse_to_expr", if errs.is_empty() { "V" } else { "D" }, n, bad, "", first]));
            mark("typecheck");
            let r = guarded(|| {
                let ast = if ast.has_staging_constructs() { ast.wrap_to_staged_expr() } else { ast };
                let (_, _, typeerrs) = mirgen::typecheck_with_module_info(ast, &builtin_types, None, module_info);
                typeerrs
            });
            st.push(match r {
                Err(m) => json!(["typecheck", "P", 0, 0, m, ""]),
                Ok(errs) => {
                    let (n, bad, first) = span_check(src, &errs);
                    json!(["typecheck", if errs.is_empty() { "V" } else { "D" }, n, bad, "", first])
                }
            });
        }
    }
    // verdicts so far, so that the supervisor knows them when a compile entry point kills the process
    for e in st.iter().skip(1) {
        mark(&format!("verdict {} {}", e[0].as_str().unwrap_or("?"), e[1].as_str().unwrap_or("?")));
    }
    // 4, 5 the compile entry points of the CLI
    mark("emit_bytecode");
    st.push(stage_result("emit_bytecode", src, guarded(|| compiler.emit_bytecode(src))));
    mark("emit_wasm");
    st.push(stage_result("emit_wasm", src, guarded(|| compiler.emit_wasm(src))));
    json!({ "st": st })
}

fn mode_oracle(limit_s: u64) {
    let (started, cur_id) = watchdog(limit_s);
    let ctx = new_exec_ctx();
    let stdin = io::stdin();
    for l in stdin.lock().lines() {
        let Ok(l) = l else { break };
        let mut it = l.splitn(2, ' ');
        let id: u64 = it.next().and_then(|s| s.parse().ok()).unwrap_or(0);
        let hex = it.next().unwrap_or("");
        let Some(src) = unhex(hex) else {
            println!("R {id} {}", json!({"badinput": true}));
            continue;
        };
        cur_id.store(id, Ordering::SeqCst);
        {
            let mut o = io::stdout().lock();
            let _ = writeln!(o, "B {id}");
            let _ = o.flush();
        }
        started.store(now_ms(), Ordering::SeqCst);
        let v = oracle_case(&src, &ctx);
        started.store(0, Ordering::SeqCst);
        let mut o = io::stdout().lock();
        let _ = writeln!(o, "R {id} {v}");
        let _ = o.flush();
    }
}

fn main() {
    record_panics();
    let args: Vec<String> = std::env::args().collect();
    let mode = args.get(1).map(|s| s.as_str()).unwrap_or("cst").to_string();
    let limit: u64 = args.get(2).and_then(|s| s.parse().ok()).unwrap_or(10);
    let stack_mib: usize = args.get(3).and_then(|s| s.parse().ok()).unwrap_or(if mode == "cst" { 512 } else { 8 });
    let sync = args.get(4).is_some_and(|s| s == "sync");
    let h = std::thread::Builder::new()
        .stack_size(stack_mib << 20)
        .spawn(move || {
            if mode == "cst" {
                mode_cst(limit, sync)
            } else {
                mode_oracle(limit)
            }
        })
        .unwrap();
    let _ = h.join();
}
