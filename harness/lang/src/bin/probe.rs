fn main() { println!("{}", verif_lang::common::fbits(1.0)); }
