use verif_lang::common::*;
use verif_lang::runner::*;
fn main() {
    let src = std::fs::read_to_string(std::env::args().nth(1).unwrap()).unwrap();
    let n: u64 = std::env::args().nth(2).map(|s| s.parse().unwrap()).unwrap_or(8);
    match VmRun::new(&src, false) {
        Err(e) => println!("VM compile error: {e:?}"),
        Ok(mut vm) => {
            println!("vm skeleton {:?} io {:?}", vm.skeleton(), vm.io());
            for t in 0..n {
                #[cfg(mimium_verif)]
                mimium_lang::runtime::vm::verif_hooks::start();
                let r = guarded(|| vm.step(t, &[]));
                #[cfg(mimium_verif)]
                let tr = mimium_lang::runtime::vm::verif_hooks::take();
                #[cfg(not(mimium_verif))]
                let tr: Vec<u8> = vec![];
                match r {
                    Ok((rc, out)) => {
                        #[cfg(mimium_verif)]
                        println!("vm t={t} rc={rc} out={:?} state={:?} trace={:?}", out, vm.state(), tr);
                        #[cfg(not(mimium_verif))]
                        println!("vm t={t} rc={rc} out={:?} {:?}", out, tr);
                    }
                    Err(m) => { println!("vm t={t} PANIC {m}"); break; }
                }
            }
        }
    }
    match WasmRun::new(&src, false) {
        Err(e) => println!("WASM compile error: {e:?}"),
        Ok(mut w) => {
            println!("wasm skeleton {:?}", w.skeleton());
            for t in 0..n {
                let (rc, out) = w.step(t, &[]);
                println!("wasm t={t} rc={rc} out={:?} state={:?}", out, w.state());
            }
        }
    }
}
