//! C12 correspondence harness, hook-H2 build: `heap_run` plus the H2 event log of closure / heap-object
//! alloc / retain / release / free / use recorded by `mimium_lang::runtime::vm::verif_hooks`
//! (present only when /verif/hooks/H2.diff is applied to /repo; checks/C12.py builds this binary only then).
mod ev {
    pub const AVAILABLE: bool = true;
    pub fn start() {
        mimium_lang::runtime::vm::verif_hooks::heap_start()
    }
    pub fn take() -> Vec<(u8, u64, u64, u64)> {
        mimium_lang::runtime::vm::verif_hooks::heap_take()
    }
}
include!("heap_shared.inc");
