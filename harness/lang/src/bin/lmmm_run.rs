// Runs mimium programs on the real VM and WASM runtimes sample by sample (harness for C01/C02/C03/C05/C06/C07).
// stdin: one JSON object per line
//   {"id":..,"src":"...","n":N,"inputs":[[f,..],..] (optional, one row per sample),"sched":bool,
//    "swaps":[{"at":t,"src":"..."}] (hot-swap before sample t), "backends":["vm","wasm"]}
// stdout: one JSON object per line: {"id":..,"vm":{..},"wasm":{..}}; each backend:
//   {"compile":["err",..]} | {"skel":"[..]","io":[in,out],"samples":[{"out":["bits",..],"rc":..,"words":[..],"pos":..,"trace":[[k,p,s,len],..]}|{"panic":".."}],
//    "swaps":[{"at":t,"ok":bool,"errs":[..],"skel":".."}]}
use serde_json::{Value, json};
use std::io::{BufRead, Write};
use verif_lang::common::*;
use verif_lang::runner::*;

fn row(case: &Value, t: usize) -> Vec<f64> {
    case.get("inputs")
        .and_then(|i| i.get(t))
        .and_then(|r| r.as_array())
        .map(|r| r.iter().map(|v| v.as_f64().unwrap_or(0.0)).collect())
        .unwrap_or_default()
}

fn swaps_at(case: &Value, t: usize) -> Vec<String> {
    case.get("swaps")
        .and_then(|s| s.as_array())
        .map(|a| {
            a.iter()
                .filter(|s| s["at"].as_u64() == Some(t as u64))
                .map(|s| s["src"].as_str().unwrap_or("").to_string())
                .collect()
        })
        .unwrap_or_default()
}

fn run_vm(case: &Value) -> Value {
    let src = case["src"].as_str().unwrap_or("");
    let n = case["n"].as_u64().unwrap_or(0) as usize;
    let sched = case["sched"].as_bool().unwrap_or(false);
    let want_state = case["state"].as_bool().unwrap_or(true);
    let t0 = case["t0"].as_u64().unwrap_or(0); // sample index of the first dsp call (`now` starts there)
    let vm = guarded(|| VmRun::new(src, sched));
    let mut vm = match vm {
        Err(m) => return json!({"compile_panic": m}),
        Ok(Err(errs)) => return json!({"compile": errs}),
        Ok(Ok(vm)) => vm,
    };
    let io = vm.io().map(|io| vec![io.input, io.output]);
    // a source without a dsp function (library module) is compiled but not run
    let n = if io.is_none() { 0 } else { n };
    let mut samples = vec![];
    let mut swaps = vec![];
    let skel0 = vm.skeleton();
    for t in 0..n {
        for s in swaps_at(case, t) {
            let r = guarded(|| vm.hot_swap(&s));
            swaps.push(match r {
                Err(m) => json!({"at": t, "panic": m}),
                Ok(Err(errs)) => json!({"at": t, "ok": false, "errs": errs}),
                Ok(Ok(ok)) => json!({"at": t, "ok": ok, "skel": vm.skeleton()}),
            });
        }
        let input = row(case, t);
        #[cfg(mimium_verif)]
        mimium_lang::runtime::vm::verif_hooks::start();
        let r = guarded(|| vm.step(t0 + t as u64, &input));
        #[cfg(mimium_verif)]
        let tr = mimium_lang::runtime::vm::verif_hooks::take();
        match r {
            Err(m) => {
                samples.push(json!({"panic": m}));
                break;
            }
            Ok((rc, out)) => {
                let mut o = json!({"rc": rc, "out": out.iter().map(|x| fbits(*x)).collect::<Vec<_>>()});
                #[cfg(mimium_verif)]
                if want_state {
                    let (w, p) = vm.state();
                    o["words"] = json!(w);
                    o["pos"] = json!(p);
                    o["trace"] = json!(tr.iter().map(|(k, p, s, l)| vec![*k as u64, *p, *s, *l]).collect::<Vec<_>>());
                }
                samples.push(o);
            }
        }
    }
    json!({"skel": skel0, "io": io, "samples": samples, "swaps": swaps})
}

fn run_wasm(case: &Value) -> Value {
    let src = case["src"].as_str().unwrap_or("");
    let n = case["n"].as_u64().unwrap_or(0) as usize;
    let sched = case["sched"].as_bool().unwrap_or(false);
    let want_state = case["state"].as_bool().unwrap_or(true);
    let t0 = case["t0"].as_u64().unwrap_or(0);
    let w = guarded(|| WasmRun::new(src, sched));
    let mut w = match w {
        Err(m) => return json!({"compile_panic": m}),
        Ok(Err(errs)) => return json!({"compile": errs}),
        Ok(Ok(w)) => w,
    };
    let io = w.io.map(|io| vec![io.input, io.output]);
    let n = if io.is_none() { 0 } else { n };
    let skel0 = w.skeleton();
    let mut samples = vec![];
    let mut swaps = vec![];
    for t in 0..n {
        for s in swaps_at(case, t) {
            let r = guarded(|| w.hot_swap(&s));
            swaps.push(match r {
                Err(m) => json!({"at": t, "panic": m}),
                Ok(Err(errs)) => json!({"at": t, "ok": false, "errs": errs}),
                Ok(Ok(ok)) => json!({"at": t, "ok": ok, "skel": w.skeleton()}),
            });
        }
        let input = row(case, t);
        let r = guarded(|| w.step(t0 + t as u64, &input));
        match r {
            Err(m) => {
                samples.push(json!({"panic": m}));
                break;
            }
            Ok((rc, out)) => {
                let mut o = json!({"rc": rc, "out": out.iter().map(|x| fbits(*x)).collect::<Vec<_>>()});
                if want_state {
                    o["words"] = json!(w.state());
                }
                samples.push(o);
            }
        }
    }
    json!({"skel": skel0, "io": io, "samples": samples, "swaps": swaps})
}

fn main() {
    quiet_panics();
    let stdin = std::io::stdin();
    let stdout = std::io::stdout();
    for line in stdin.lock().lines() {
        let line = line.unwrap();
        if line.trim().is_empty() {
            continue;
        }
        let case: Value = serde_json::from_str(&line).expect("bad json");
        let backends: Vec<String> = case
            .get("backends")
            .and_then(|b| b.as_array())
            .map(|a| a.iter().map(|v| v.as_str().unwrap_or("").to_string()).collect())
            .unwrap_or_else(|| vec!["vm".into(), "wasm".into()]);
        set_src_path(case.get("path").and_then(|p| p.as_str()));
        set_device_sample_rate(case.get("sr").and_then(|p| p.as_u64()));
        let mut res = json!({"id": case["id"]});
        if case["typecheck"].as_bool().unwrap_or(false) {
            res["typecheck"] = json!(typecheck_verdict(case["src"].as_str().unwrap_or(""), case["sched"].as_bool().unwrap_or(false)));
        }
        if backends.iter().any(|b| b == "vm") {
            res["vm"] = run_vm(&case);
        }
        if backends.iter().any(|b| b == "wasm") {
            res["wasm"] = run_wasm(&case);
        }
        let mut out = stdout.lock();
        writeln!(out, "\n@@RES {}", res).unwrap();
        out.flush().unwrap();
    }
}
