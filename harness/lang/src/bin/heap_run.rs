//! C12 correspondence harness, direct-observation build: runs a mimium program on the real VM sample
//! by sample (`verif_lang::runner::VmRun`, the `DspRuntime` path of the CLI / audio drivers) and
//! reports `Machine.closures.len()` / `Machine.heap.len()` after global initialisation and after every
//! sample.  This build does not need hook H2; `heap_run_h2` is the same program with the H2 event log.
mod ev {
    pub const AVAILABLE: bool = false;
    pub fn start() {}
    pub fn take() -> Vec<(u8, u64, u64, u64)> {
        vec![]
    }
}
include!("heap_shared.inc");
