//! C17 — module privacy and name resolution: implementation side of the correspondence.
//!
//! stdin : one mimium program per line, newlines written as the two characters `\n`.
//!         A line `#builtins` asks for the builtin names handed to the resolution pass.
//! stdout: one answer line per input line, three `|`-separated parts
//!   M vis=<k:0|1,..>;alias=<k>v,..>;ctx=<k>p,..>;wild=<b,..>     ModuleInfo after program.rs flattening (maps sorted, wildcards in order)
//!   A <sym|?> <nprivate> <nparse>                                   convert_qualified_names: what the reference in `prb` was rewritten to,
//!                                                                   number of PrivateMemberAccess errors, number of parse/flatten errors
//!   B OK <f64 bits> | B ERR p=<n> u=<n> o=<n> [first other message] full pipeline (Context::emit_bytecode + VM, `dsp()` once)
use mimium_lang::ast::Expr;
use mimium_lang::compiler::mirgen::convert_pronoun::convert_pronoun_with_module;
use mimium_lang::compiler::parser;
use mimium_lang::interner::{ExprNodeId, Symbol};
use mimium_lang::runtime::vm;
use mimium_lang::utils::error::ReportableError;
use mimium_lang::{Config, ExecContext};
use std::io::{BufRead, Write};
use std::path::PathBuf;
use verif_lang::common::{fbits, guarded, quiet_panics};

fn is_probe(s: Symbol) -> bool {
    let t = s.as_str();
    t == "prb" || t.ends_with("$prb")
}

/// the last expression of a body: through Lambda, Let/LetRec/Then continuations, Block, Paren
fn tail(e: ExprNodeId) -> ExprNodeId {
    match e.to_expr() {
        Expr::Lambda(_, _, b) => tail(b),
        Expr::Let(_, _, Some(t)) | Expr::LetRec(_, _, Some(t)) | Expr::Then(_, Some(t)) => tail(t),
        Expr::Block(Some(b)) => tail(b),
        Expr::Paren(b) => tail(b),
        _ => e,
    }
}

/// name the tail reference of `probe` was rewritten to:   f()  |  f  |  (|x| f())(..)
fn ref_name(e: ExprNodeId) -> String {
    match tail(e).to_expr() {
        Expr::Var(n) => n.as_str().to_string(),
        Expr::QualifiedVar(p) => format!("Q:{}", p.segments.iter().map(|s| s.as_str()).collect::<Vec<_>>().join("::")),
        Expr::Apply(f, _) => ref_name(f),
        _ => "?".into(),
    }
}

fn find_probe(e: ExprNodeId) -> Option<ExprNodeId> {
    match e.to_expr() {
        Expr::LetRec(id, body, then) => {
            if is_probe(id.id) {
                Some(body)
            } else {
                then.and_then(find_probe)
            }
        }
        Expr::Let(_, _, then) | Expr::Then(_, then) => then.and_then(find_probe),
        Expr::Bracket(e) | Expr::Escape(e) => find_probe(e),
        _ => None,
    }
}

fn sorted_map<V>(m: &std::collections::HashMap<Symbol, V>, f: impl Fn(&V) -> String, sep: &str) -> String {
    let mut v: Vec<String> = m.iter().map(|(k, x)| format!("{}{}{}", k.as_str(), sep, f(x))).collect();
    v.sort();
    v.join(",")
}

fn classify(errs: &[Box<dyn ReportableError>]) -> String {
    let (mut p, mut u, mut o) = (0, 0, 0);
    let mut first_other = String::new();
    for e in errs {
        let m = e.get_message();
        if m.contains("is private") {
            p += 1
        } else if m.starts_with("Variable \"") && m.ends_with("not found in this scope") {
            u += 1
        } else {
            o += 1;
            if first_other.is_empty() {
                first_other = m.replace('\n', " ").chars().take(80).collect();
            }
        }
    }
    format!("ERR p={p} u={u} o={o} {first_other}")
}

fn one(src: &str) -> String {
    let mut ctx = ExecContext::new([].into_iter(), None, Config::default());
    ctx.prepare_compiler();
    let builtin_types = ctx.get_compiler().unwrap().get_ext_typeinfos();
    let names: Vec<Symbol> = builtin_types.iter().map(|x| x.0).collect();
    // ---- M / A: flattening + the resolution pass alone ----
    let part_ma = guarded(|| {
        let (ast, info, perrs) = parser::parse_to_expr(src, None);
        let m = format!(
            "M vis={};alias={};ctx={};wild={}",
            sorted_map(&info.visibility_map, |b| if *b { "1".into() } else { "0".into() }, ":"),
            sorted_map(&info.use_alias_map, |s| s.as_str().to_string(), ">"),
            sorted_map(&info.module_context_map, |p| p.iter().map(|s| s.as_str()).collect::<Vec<_>>().join("$"), ">"),
            info.wildcard_imports.iter().map(|s| s.as_str()).collect::<Vec<_>>().join(",")
        );
        let (conv, errs) = convert_pronoun_with_module(ast, PathBuf::default(), &info, &names);
        let npriv = errs.iter().filter(|e| e.get_message().contains("is private")).count();
        let r = find_probe(conv).map(ref_name).unwrap_or("?".into());
        format!("{m} | A {r} {npriv} {}", perrs.len())
    })
    .unwrap_or_else(|p| format!("M PANIC | A PANIC {}", p.replace('\n', " ")));
    // ---- B: the whole compiler + VM ----
    let part_b = guarded(|| match ctx.get_compiler().unwrap().emit_bytecode(src) {
        Err(errs) => classify(&errs),
        Ok(prog) => {
            ctx.prepare_machine_with_bytecode(prog);
            let machine = ctx.get_vm_mut().unwrap();
            let _ = machine.execute_main();
            let rc = machine.execute_entry("dsp");
            if rc >= 0 {
                let v = vm::Machine::get_as_array::<f64>(machine.get_top_n(1))[0];
                format!("OK {}", fbits(v))
            } else {
                "ERR p=0 u=0 o=1 runtime".to_string()
            }
        }
    })
    .unwrap_or_else(|p| format!("PANIC {}", p.replace('\n', " ").chars().take(80).collect::<String>()));
    format!("{part_ma} | B {part_b}")
}

fn main() {
    quiet_panics();
    let stdin = std::io::stdin();
    let stdout = std::io::stdout();
    let mut out = std::io::BufWriter::new(stdout.lock());
    for line in stdin.lock().lines() {
        let line = line.unwrap();
        if line == "#builtins" {
            let mut ctx = ExecContext::new([].into_iter(), None, Config::default());
            ctx.prepare_compiler();
            let mut v: Vec<String> =
                ctx.get_compiler().unwrap().get_ext_typeinfos().iter().map(|x| x.0.as_str().to_string()).collect();
            v.sort();
            writeln!(out, "{}", v.join(" ")).unwrap();
            continue;
        }
        let src = line.replace("\\n", "\n");
        writeln!(out, "{}", one(&src)).unwrap();
    }
    out.flush().unwrap();
}
