//! Rust side of the C14 check (see /verif/DESIGN.md, C14): runs the REAL formatter
//! `mimium_fmt::pretty_print_cst` and the REAL parser on the same text and reports everything the
//! python side needs to evaluate the three facts of the property directly.
//!
//! Line protocol: one JSON object per stdin line, one JSON object per stdout line.
//!
//!  {"m":"fmt","src":S,"widths":[..],"indents":[..],"path":P?,"cst":bool?}
//!    -> {"in": INFO(S) (+ "cst": dump of the real green tree when asked),
//!        "runs":[{"w":W,"i":I,"st":"ok"|"err"|"panic:..","out":O,
//!                 "o": INFO(O) minus ast/expr dumps, "ast_same":bool,"expr_same":bool,
//!                 "ast": dump (only when different), "again": "same" | {"st":..,"out":..}}]}
//!  INFO(x) = {"cst_errs":n,"expr_errs":n,"errs":[first messages],"ast":dump of parse_program(x),
//!             "expr":dump of parse_to_expr(x).0,"toks":[..]}
//!  toks: the raw token stream of `tokenize(x)` without whitespace:
//!        "T<Kind>\u{1f}<text>" syntax token, "L<text>" line comment, "B<text>" block comment,
//!        "N" line break (newline or ';').
//!  {"m":"parse","src":S,"path":P?} -> INFO(S)
use mimium_lang::ast::program::{Program, ProgramStatement, UseTarget, Visibility};
use mimium_lang::ast::statement::Statement;
use mimium_lang::ast::{Expr, Literal, MatchPattern, RecordField};
use mimium_lang::compiler::parser::{self, green::GreenNode, GreenNodeArena, GreenNodeId, PreParsedTokens, Token, TokenKind};
use mimium_lang::interner::{ExprNodeId, TypeNodeId};
use mimium_lang::pattern::{Pattern, TypedId};
use mimium_lang::types::Type;
use serde_json::{Value as J, json};
use std::io::{BufRead, Write};
use std::path::PathBuf;
use verif_lang::common::{guarded, quiet_panics};

fn q(s: &str) -> String {
    let mut o = String::with_capacity(s.len() + 2);
    o.push('"');
    for c in s.chars() {
        match c {
            '"' => o.push_str("\\\""),
            '\\' => o.push_str("\\\\"),
            '\n' => o.push_str("\\n"),
            '\r' => o.push_str("\\r"),
            '\t' => o.push_str("\\t"),
            c => o.push(c),
        }
    }
    o.push('"');
    o
}

// ---------------------------------------------------------------------------------------------
// canonical dump of the AST (spans / locations ignored, everything else kept)
// ---------------------------------------------------------------------------------------------
fn ser_ty(t: TypeNodeId, o: &mut String) {
    match t.to_type() {
        Type::Intermediate(_) => o.push_str("?tv"),
        other => o.push_str(&q(&format!("{other}"))),
    }
}
fn ser_opt_ty(t: Option<TypeNodeId>, o: &mut String) {
    match t {
        Some(t) => ser_ty(t, o),
        None => o.push_str("#n"),
    }
}
fn ser_lit(l: &Literal, o: &mut String) {
    match l {
        Literal::Float(s) => {
            o.push_str("(lit-f ");
            o.push_str(&q(s.as_str()));
            o.push(')');
        }
        Literal::Int(i) => o.push_str(&format!("(lit-i {i})")),
        Literal::String(s) => {
            o.push_str("(lit-s ");
            o.push_str(&q(s.as_str()));
            o.push(')');
        }
        Literal::SelfLit => o.push_str("(self)"),
        Literal::Now => o.push_str("(now)"),
        Literal::SampleRate => o.push_str("(sr)"),
        Literal::PlaceHolder => o.push_str("(ph)"),
    }
}
fn ser_opt(e: Option<ExprNodeId>, o: &mut String) {
    match e {
        Some(e) => ser_expr(e, o),
        None => o.push_str("#n"),
    }
}
fn ser_pat(p: &Pattern, o: &mut String) {
    match p {
        Pattern::Single(s) => {
            o.push_str("(p1 ");
            o.push_str(&q(s.as_str()));
            o.push(')');
        }
        Pattern::Placeholder => o.push_str("(p_)"),
        Pattern::Tuple(ps) => {
            o.push_str("(ptuple");
            for p in ps {
                o.push(' ');
                ser_pat(p, o);
            }
            o.push(')');
        }
        Pattern::Record(fs) => {
            o.push_str("(precord");
            for (n, p) in fs {
                o.push_str(" (");
                o.push_str(&q(n.as_str()));
                o.push(' ');
                ser_pat(p, o);
                o.push(')');
            }
            o.push(')');
        }
        Pattern::Error => o.push_str("(perr)"),
    }
}
fn ser_mpat(p: &MatchPattern, o: &mut String) {
    match p {
        MatchPattern::Literal(l) => {
            o.push_str("(mlit ");
            ser_lit(l, o);
            o.push(')');
        }
        MatchPattern::Wildcard => o.push_str("(mwild)"),
        MatchPattern::Variable(s) => {
            o.push_str("(mvar ");
            o.push_str(&q(s.as_str()));
            o.push(')');
        }
        MatchPattern::Constructor(n, inner) => {
            o.push_str("(mctor ");
            o.push_str(&q(n.as_str()));
            if let Some(i) = inner {
                o.push(' ');
                ser_mpat(i, o);
            }
            o.push(')');
        }
        MatchPattern::Tuple(ps) => {
            o.push_str("(mtuple");
            for p in ps {
                o.push(' ');
                ser_mpat(p, o);
            }
            o.push(')');
        }
    }
}
fn ser_fields(fs: &[RecordField], o: &mut String) {
    for f in fs {
        o.push_str(" (");
        o.push_str(&q(f.name.as_str()));
        o.push(' ');
        ser_expr(f.expr, o);
        o.push(')');
    }
}
fn ser_list(es: &[ExprNodeId], o: &mut String) {
    for e in es {
        o.push(' ');
        ser_expr(*e, o);
    }
}
fn ser_tid(p: &TypedId, o: &mut String) {
    o.push_str("(p ");
    o.push_str(&q(p.id.as_str()));
    o.push(' ');
    ser_ty(p.ty, o);
    o.push(' ');
    ser_opt(p.default_value, o);
    o.push(')');
}
fn ser_expr(e: ExprNodeId, o: &mut String) {
    match e.to_expr() {
        Expr::Literal(l) => ser_lit(&l, o),
        Expr::Var(v) => {
            o.push_str("(var ");
            o.push_str(&q(v.as_str()));
            o.push(')');
        }
        Expr::QualifiedVar(p) => {
            o.push_str("(qvar");
            for s in &p.segments {
                o.push(' ');
                o.push_str(&q(s.as_str()));
            }
            o.push(')');
        }
        Expr::Block(b) => {
            o.push_str("(block ");
            ser_opt(b, o);
            o.push(')');
        }
        Expr::Tuple(es) => {
            o.push_str("(tuple");
            ser_list(&es, o);
            o.push(')');
        }
        Expr::Proj(x, i) => {
            o.push_str("(proj ");
            ser_expr(x, o);
            o.push_str(&format!(" {i})"));
        }
        Expr::ArrayAccess(a, i) => {
            o.push_str("(aacc ");
            ser_expr(a, o);
            o.push(' ');
            ser_expr(i, o);
            o.push(')');
        }
        Expr::ArrayLiteral(es) => {
            o.push_str("(arr");
            ser_list(&es, o);
            o.push(')');
        }
        Expr::RecordLiteral(fs) => {
            o.push_str("(rec");
            ser_fields(&fs, o);
            o.push(')');
        }
        Expr::ImcompleteRecord(fs) => {
            o.push_str("(irec");
            ser_fields(&fs, o);
            o.push(')');
        }
        Expr::RecordUpdate(r, fs) => {
            o.push_str("(recupd ");
            ser_expr(r, o);
            ser_fields(&fs, o);
            o.push(')');
        }
        Expr::FieldAccess(r, n) => {
            o.push_str("(facc ");
            ser_expr(r, o);
            o.push(' ');
            o.push_str(&q(n.as_str()));
            o.push(')');
        }
        Expr::Apply(f, args) => {
            o.push_str("(app ");
            ser_expr(f, o);
            ser_list(&args, o);
            o.push(')');
        }
        Expr::MacroExpand(f, args) => {
            o.push_str("(mexp ");
            ser_expr(f, o);
            ser_list(&args, o);
            o.push(')');
        }
        Expr::BinOp(l, (op, _), r) => {
            o.push_str("(binop ");
            o.push_str(&q(&format!("{op}")));
            o.push(' ');
            ser_expr(l, o);
            o.push(' ');
            ser_expr(r, o);
            o.push(')');
        }
        Expr::UniOp((op, _), x) => {
            o.push_str("(uniop ");
            o.push_str(&q(&format!("{op}")));
            o.push(' ');
            ser_expr(x, o);
            o.push(')');
        }
        Expr::Paren(x) => {
            o.push_str("(paren ");
            ser_expr(x, o);
            o.push(')');
        }
        Expr::Lambda(ps, rt, body) => {
            o.push_str("(lam (");
            for (i, p) in ps.iter().enumerate() {
                if i > 0 {
                    o.push(' ');
                }
                ser_tid(p, o);
            }
            o.push_str(") ");
            ser_opt_ty(rt, o);
            o.push(' ');
            ser_expr(body, o);
            o.push(')');
        }
        Expr::Assign(l, r) => {
            o.push_str("(assign ");
            ser_expr(l, o);
            o.push(' ');
            ser_expr(r, o);
            o.push(')');
        }
        Expr::Then(a, b) => {
            o.push_str("(then ");
            ser_expr(a, o);
            o.push(' ');
            ser_opt(b, o);
            o.push(')');
        }
        Expr::Feed(n, b) => {
            o.push_str("(feed ");
            o.push_str(&q(n.as_str()));
            o.push(' ');
            ser_expr(b, o);
            o.push(')');
        }
        Expr::Let(tp, v, b) => {
            o.push_str("(let ");
            ser_pat(&tp.pat, o);
            o.push(' ');
            ser_ty(tp.ty, o);
            o.push(' ');
            ser_opt(tp.default_value, o);
            o.push(' ');
            ser_expr(v, o);
            o.push(' ');
            ser_opt(b, o);
            o.push(')');
        }
        Expr::LetRec(id, v, b) => {
            o.push_str("(letrec ");
            ser_tid(&id, o);
            o.push(' ');
            ser_expr(v, o);
            o.push(' ');
            ser_opt(b, o);
            o.push(')');
        }
        Expr::If(c, t, e2) => {
            o.push_str("(if ");
            ser_expr(c, o);
            o.push(' ');
            ser_expr(t, o);
            o.push(' ');
            ser_opt(e2, o);
            o.push(')');
        }
        Expr::Match(s, arms) => {
            o.push_str("(match ");
            ser_expr(s, o);
            for a in arms {
                o.push_str(" (arm ");
                ser_mpat(&a.pattern, o);
                o.push(' ');
                ser_expr(a.body, o);
                o.push(')');
            }
            o.push(')');
        }
        Expr::Bracket(x) => {
            o.push_str("(bracket ");
            ser_expr(x, o);
            o.push(')');
        }
        Expr::Escape(x) => {
            o.push_str("(escape ");
            ser_expr(x, o);
            o.push(')');
        }
        Expr::Error => o.push_str("(error)"),
    }
}
fn ser_vis(v: &Visibility) -> &'static str {
    match v {
        Visibility::Private => "priv",
        Visibility::Public => "pub",
    }
}
fn ser_stmt(s: &Statement, o: &mut String) {
    match s {
        Statement::Let(tp, e) => {
            o.push_str("(s-let ");
            ser_pat(&tp.pat, o);
            o.push(' ');
            ser_ty(tp.ty, o);
            o.push(' ');
            ser_opt(tp.default_value, o);
            o.push(' ');
            ser_expr(*e, o);
            o.push(')');
        }
        Statement::LetRec(id, e) => {
            o.push_str("(s-letrec ");
            ser_tid(id, o);
            o.push(' ');
            ser_expr(*e, o);
            o.push(')');
        }
        Statement::Assign(l, r) => {
            o.push_str("(s-assign ");
            ser_expr(*l, o);
            o.push(' ');
            ser_expr(*r, o);
            o.push(')');
        }
        Statement::Single(e) => {
            o.push_str("(s-single ");
            ser_expr(*e, o);
            o.push(')');
        }
        Statement::DeclareStage(k) => o.push_str(&format!("(s-stage {k})")),
        Statement::Error => o.push_str("(s-error)"),
    }
}
fn ser_pstmt(s: &ProgramStatement, o: &mut String) {
    match s {
        ProgramStatement::FnDefinition { visibility, name, args, return_type, body } => {
            o.push_str("(fn ");
            o.push_str(ser_vis(visibility));
            o.push(' ');
            o.push_str(&q(name.as_str()));
            o.push_str(" (");
            for (i, p) in args.0.iter().enumerate() {
                if i > 0 {
                    o.push(' ');
                }
                ser_tid(p, o);
            }
            o.push_str(") ");
            ser_opt_ty(*return_type, o);
            o.push(' ');
            ser_expr(*body, o);
            o.push(')');
        }
        ProgramStatement::StageDeclaration { stage } => o.push_str(&format!("(stage {stage})")),
        ProgramStatement::GlobalStatement(st) => {
            o.push_str("(global ");
            ser_stmt(st, o);
            o.push(')');
        }
        ProgramStatement::Import(s) => {
            o.push_str("(import ");
            o.push_str(&q(s.as_str()));
            o.push(')');
        }
        ProgramStatement::ModuleDefinition { visibility, name, body } => {
            o.push_str("(mod ");
            o.push_str(ser_vis(visibility));
            o.push(' ');
            o.push_str(&q(name.as_str()));
            match body {
                None => o.push_str(" #n"),
                Some(b) => {
                    for (s, _) in b {
                        o.push(' ');
                        ser_pstmt(s, o);
                    }
                }
            }
            o.push(')');
        }
        ProgramStatement::UseStatement { visibility, path, target } => {
            o.push_str("(use ");
            o.push_str(ser_vis(visibility));
            o.push_str(" (");
            for (i, s) in path.segments.iter().enumerate() {
                if i > 0 {
                    o.push(' ');
                }
                o.push_str(&q(s.as_str()));
            }
            o.push_str(") ");
            match target {
                UseTarget::Single => o.push_str("single"),
                UseTarget::Wildcard => o.push_str("wild"),
                UseTarget::Multiple(ns) => {
                    o.push_str("(multi");
                    for n in ns {
                        o.push(' ');
                        o.push_str(&q(n.as_str()));
                    }
                    o.push(')');
                }
            }
            o.push(')');
        }
        ProgramStatement::TypeAlias { visibility, name, target_type } => {
            o.push_str("(talias ");
            o.push_str(ser_vis(visibility));
            o.push(' ');
            o.push_str(&q(name.as_str()));
            o.push(' ');
            ser_ty(*target_type, o);
            o.push(')');
        }
        ProgramStatement::TypeDeclaration { visibility, name, variants, is_recursive } => {
            o.push_str("(tdecl ");
            o.push_str(ser_vis(visibility));
            o.push(' ');
            o.push_str(&q(name.as_str()));
            o.push_str(if *is_recursive { " rec" } else { " nonrec" });
            for v in variants {
                o.push_str(" (");
                o.push_str(&q(v.name.as_str()));
                o.push(' ');
                ser_opt_ty(v.payload, o);
                o.push(')');
            }
            o.push(')');
        }
        ProgramStatement::Comment(s) => {
            o.push_str("(comment ");
            o.push_str(&q(s.as_str()));
            o.push(')');
        }
        ProgramStatement::DocComment(s) => {
            o.push_str("(doccomment ");
            o.push_str(&q(s.as_str()));
            o.push(')');
        }
        ProgramStatement::Error => o.push_str("(p-error)"),
    }
}
fn ser_program(p: &Program) -> String {
    let mut o = String::new();
    o.push_str("(program");
    for (s, _) in &p.statements {
        o.push(' ');
        ser_pstmt(s, &mut o);
    }
    o.push(')');
    o
}

// ---------------------------------------------------------------------------------------------
// token stream / CST dump
// ---------------------------------------------------------------------------------------------
fn tok_stream(src: &str) -> Vec<String> {
    let tokens = parser::tokenize(src);
    let mut out = vec![];
    for t in &tokens {
        match t.kind {
            TokenKind::Whitespace => {}
            TokenKind::Eof => {}
            TokenKind::LineBreak => out.push("N".to_string()),
            TokenKind::SingleLineComment => out.push(format!("L{}", t.text(src))),
            TokenKind::MultiLineComment => out.push(format!("B{}", t.text(src))),
            k => out.push(format!("T{:?}\u{1f}{}", k, t.text(src))),
        }
    }
    out
}

fn trivia_dump(ts: Vec<&Token>, src: &str, o: &mut String) {
    o.push('(');
    let mut first = true;
    for t in ts {
        let item = match t.kind {
            TokenKind::SingleLineComment => format!("L{}", q(t.text(src))),
            TokenKind::MultiLineComment => format!("B{}", q(t.text(src))),
            TokenKind::LineBreak => "N".to_string(),
            TokenKind::Whitespace => "W".to_string(),
            k => format!("X{}", q(&format!("{k:?}"))),
        };
        if !first {
            o.push(' ');
        }
        first = false;
        o.push_str(&item);
    }
    o.push(')');
}

/// the real green tree with the trivia the printer looks up per token (same lookups as emit_token_with_trivia)
fn cst_dump(id: GreenNodeId, arena: &GreenNodeArena, tokens: &[Token], pre: &PreParsedTokens, src: &str, o: &mut String) {
    match arena.get(id) {
        GreenNode::Token { token_index, .. } => {
            let t = &tokens[*token_index];
            o.push('[');
            o.push_str(&format!("{:?} ", t.kind));
            o.push_str(&q(t.text(src)));
            o.push(' ');
            match pre.token_indices.iter().position(|&i| i == *token_index) {
                Some(pi) => {
                    trivia_dump(pre.get_leading_trivia(pi, tokens), src, o);
                    o.push(' ');
                    trivia_dump(pre.get_trailing_trivia(pi, tokens), src, o);
                }
                None => o.push_str("() ()"),
            }
            o.push(']');
        }
        GreenNode::Internal { kind, children, .. } => {
            o.push('(');
            o.push_str(&format!("{kind:?}"));
            for c in children {
                o.push(' ');
                cst_dump(*c, arena, tokens, pre, src, o);
            }
            o.push(')');
        }
    }
}

struct Info {
    cst_errs: usize,
    expr_errs: usize,
    errs: Vec<String>,
    ast: String,
    expr: String,
    toks: Vec<String>,
    cst: Option<String>,
}

fn info(src: &str, path: Option<&str>, want_cst: bool) -> Result<Info, String> {
    let src_owned = src.to_string();
    let path_owned = path.map(|p| p.to_string());
    guarded(move || {
        let src = src_owned.as_str();
        let pb = path_owned.as_ref().map(PathBuf::from);
        let (prog, perrs) = parser::parse_program(src, pb.clone().unwrap_or_default());
        let ast = ser_program(&prog);
        let mut errs: Vec<String> = perrs.iter().take(4).map(|e| format!("{e}")).collect();
        let (expr, _mi, eerrs) = parser::parse_to_expr(src, pb);
        for e in eerrs.iter().take(4) {
            errs.push(format!("E:{}", e.get_message()));
        }
        let mut es = String::new();
        ser_expr(expr, &mut es);
        let cst = if want_cst {
            let tokens = parser::tokenize(src);
            let pre = parser::preparse(&tokens);
            let (root, arena, tokens2, _) = parser::parse_cst(tokens.clone(), &pre);
            let mut o = String::new();
            // the printer looks at `tokens` as they were BEFORE parse_cst re-tags identifiers (it passes &tokens,
            // not the returned vector) -- dump the same view
            let _ = tokens2;
            cst_dump(root, &arena, &tokens, &pre, src, &mut o);
            Some(o)
        } else {
            None
        };
        Info { cst_errs: perrs.len(), expr_errs: eerrs.len(), errs, ast, expr: es, toks: tok_stream(src), cst }
    })
}

fn info_json(i: &Info, with_dumps: bool) -> J {
    let mut j = json!({"cst_errs": i.cst_errs, "expr_errs": i.expr_errs, "errs": i.errs, "toks": i.toks});
    if with_dumps {
        j["ast"] = json!(i.ast);
        j["expr"] = json!(i.expr);
    }
    if let Some(c) = &i.cst {
        j["cst"] = json!(c);
    }
    j
}

fn run_fmt(src: &str, width: usize, indent: usize) -> (String, String) {
    if let Ok(mut g) = mimium_fmt::GLOBAL_DATA.lock() {
        g.indent_size = indent;
    }
    let s = src.to_string();
    match guarded(move || mimium_fmt::pretty_print_cst(&s, &None, width)) {
        Ok(Ok(out)) => ("ok".to_string(), out),
        Ok(Err(_)) => ("err".to_string(), String::new()),
        Err(m) => (format!("panic:{}", m.chars().take(200).collect::<String>()), String::new()),
    }
}

fn mode_fmt(req: &J) -> J {
    let src = req["src"].as_str().unwrap_or("");
    let path = req["path"].as_str();
    let want_cst = req["cst"].as_bool().unwrap_or(false);
    let widths: Vec<usize> = req["widths"].as_array().map(|a| a.iter().filter_map(|x| x.as_u64()).map(|x| x as usize).collect()).unwrap_or_else(|| vec![80]);
    let indents: Vec<usize> = req["indents"].as_array().map(|a| a.iter().filter_map(|x| x.as_u64()).map(|x| x as usize).collect()).unwrap_or_else(|| vec![4]);
    let i_in = match info(src, path, want_cst) {
        Ok(i) => i,
        Err(m) => return json!({"in_panic": m}),
    };
    let mut runs = vec![];
    for &i in &indents {
        for &w in &widths {
            let (st, out) = run_fmt(src, w, i);
            let mut r = json!({"w": w, "i": i, "st": st});
            if st == "ok" {
                r["out"] = json!(out);
                match info(&out, path, want_cst) {
                    Ok(io) => {
                        r["o"] = info_json(&io, false);
                        r["ast_same"] = json!(io.ast == i_in.ast);
                        r["expr_same"] = json!(io.expr == i_in.expr);
                        if io.ast != i_in.ast {
                            r["ast"] = json!(io.ast);
                        }
                    }
                    Err(m) => {
                        r["o_panic"] = json!(m);
                    }
                }
                let (st2, out2) = run_fmt(&out, w, i);
                if st2 == "ok" && out2 == out {
                    r["again"] = json!("same");
                } else {
                    r["again"] = json!({"st": st2, "out": out2});
                }
            }
            runs.push(r);
        }
    }
    json!({"in": info_json(&i_in, true), "runs": runs})
}

fn main() {
    quiet_panics();
    // the printer and the parser recurse on the nesting depth of the text: give them room
    let child = std::thread::Builder::new()
        .stack_size(1 << 30)
        .spawn(|| {
            let stdin = std::io::stdin();
            let stdout = std::io::stdout();
            let mut out = stdout.lock();
            for line in stdin.lock().lines() {
                let line = match line {
                    Ok(l) => l,
                    Err(_) => break,
                };
                if line.trim().is_empty() {
                    continue;
                }
                let req: J = match serde_json::from_str(&line) {
                    Ok(j) => j,
                    Err(e) => {
                        writeln!(out, "{}", json!({"bad_request": e.to_string()})).ok();
                        continue;
                    }
                };
                let ans = match req["m"].as_str() {
                    Some("fmt") => mode_fmt(&req),
                    Some("parse") => match info(req["src"].as_str().unwrap_or(""), req["path"].as_str(), req["cst"].as_bool().unwrap_or(false)) {
                        Ok(i) => info_json(&i, true),
                        Err(m) => json!({"in_panic": m}),
                    },
                    _ => json!({"bad_request": "unknown mode"}),
                };
                writeln!(out, "{ans}").ok();
                out.flush().ok();
            }
        })
        .unwrap();
    child.join().ok();
}
