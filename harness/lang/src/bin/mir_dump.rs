//! C05 (MIR state layer, translation validation) — dumps the MIR the real compiler produces for a source, erased to what
//! the verified checker coq/theories/Mirst/Check.v needs: per function its index, the published state skeleton and, per
//! basic block, ONE line per instruction: destination register, the instruction's variant NAME (taken from its Debug
//! rendering, so the erasure is total and needs no table here) and, for the few state-relevant variants, their numbers.
//! Everything else (classification of the names, resolution of a Call's callee register to the Uinteger that defines it,
//! the structured walk of the blocks) is done by the extracted Gallina code.
//!
//! stdin : one JSON object per line {"id":..,"src":"..","path":".."|null,"sched":bool,"text":bool}
//! stdout: per request a block
//!     @@BEGIN <id> ok | @@BEGIN <id> err <n messages> | @@BEGIN <id> panic
//!     F <index> <label> <skeleton>          skeleton in the format of runner::skel_to_string  ([E1 M1 D4 [..]])
//!     B <block index>
//!     I <dst register | -> <Name> <numbers...>
//!     T <one line of the Display rendering of the Mir>       (only with "text":true; ignored by the checker)
//!     @@END <id>
//! numbers:  Uinteger u | PushStateOffset n | PopStateOffset n | GetState words | ReturnFeed words | Delay len | Mem |
//!           Call/CallCls/CallIndirect callee (r<reg> | ext | fn<idx> | other) | MakeClosure callee size |
//!           JmpIf then else merge | Jmp offset | Switch merge default|- ncases block.. | Return
//!   `words` is TypeNodeId::word_size(), the number of words the code generators make GetState/SetState move.
use mimium_audiodriver::backends::local_buffer::LocalBufferDriver;
use mimium_audiodriver::driver::Driver;
use mimium_lang::mir::{Instruction, Mir, Value};
use mimium_lang::plugin::Plugin;
use mimium_lang::{Config, ExecContext};
use serde_json::Value as J;
use std::io::{BufRead, Write};
use verif_lang::common::*;
use verif_lang::runner::*;

fn variant_name(i: &Instruction) -> String {
    let d = format!("{i:?}");
    d.chars().take_while(|c| c.is_ascii_alphanumeric() || *c == '_').collect()
}

fn callee(v: &Value) -> String {
    match v {
        Value::Register(r) => format!("r{r}"),
        Value::ExtFunction(_, _) => "ext".to_string(),
        Value::Function(i) => format!("fn{i}"),
        _ => "other".to_string(),
    }
}

fn numbers(i: &Instruction) -> String {
    match i {
        Instruction::Uinteger(u) => format!("{u}"),
        Instruction::PushStateOffset(n) | Instruction::PopStateOffset(n) => format!("{n}"),
        Instruction::GetState(ty) => format!("{}", ty.word_size()),
        Instruction::ReturnFeed(_, ty) => format!("{}", ty.word_size()),
        Instruction::Delay(len, _, _) => format!("{len}"),
        Instruction::Call(f, _, _) | Instruction::CallCls(f, _, _) | Instruction::CallIndirect(f, _, _) => callee(f),
        Instruction::MakeClosure { fn_proto, size } => format!("{} {size}", callee(fn_proto)),
        Instruction::Closure(f) => callee(f),
        Instruction::JmpIf(_, t, e, m) => format!("{t} {e} {m}"),
        Instruction::Jmp(o) => format!("{o}"),
        Instruction::Switch { cases, default_block, merge_block, .. } => format!(
            "{merge_block} {} {}{}",
            default_block.map_or("-".to_string(), |d| d.to_string()),
            cases.len(),
            cases.iter().map(|(_, b)| format!(" {b}")).collect::<String>()
        ),
        _ => String::new(),
    }
}

fn dump(mir: &Mir, out: &mut String) {
    for f in &mir.functions {
        let label: String = f.label.as_str().chars().map(|c| if c.is_whitespace() { '_' } else { c }).collect();
        out.push_str(&format!("F {} {} {}\n", f.index, if label.is_empty() { "_".into() } else { label }, skel_to_string(&f.state_skeleton)));
        for (bi, b) in f.body.iter().enumerate() {
            out.push_str(&format!("B {bi}\n"));
            for (dst, ins) in &b.0 {
                let d = match dst.as_ref() {
                    Value::Register(r) => format!("{r}"),
                    _ => "-".to_string(),
                };
                let nums = numbers(ins);
                out.push_str(&format!("I {d} {}{}{}\n", variant_name(ins), if nums.is_empty() { "" } else { " " }, nums));
            }
        }
    }
}

fn main() {
    quiet_panics();
    let stdin = std::io::stdin();
    let stdout = std::io::stdout();
    for line in stdin.lock().lines() {
        let line = line.unwrap();
        if line.trim().is_empty() {
            continue;
        }
        let case: J = serde_json::from_str(&line).expect("bad json");
        let id = case["id"].to_string().replace(' ', "_");
        let src = case["src"].as_str().unwrap_or("").to_string();
        let path = case.get("path").and_then(|p| p.as_str()).map(|s| s.to_string());
        let sched = case["sched"].as_bool().unwrap_or(false);
        let text = case["text"].as_bool().unwrap_or(false);
        set_src_path(path.as_deref());
        let r = guarded(|| {
            let mut driver = LocalBufferDriver::new(0);
            let plug: Box<dyn Plugin> = Box::new(driver.get_as_plugin());
            let mut ctx = ExecContext::new([plug].into_iter(), path.clone().map(std::path::PathBuf::from), Config::default());
            if sched {
                ctx.add_system_plugin(mimium_scheduler::get_default_scheduler_plugin());
            }
            ctx.prepare_compiler();
            ctx.get_compiler().unwrap().emit_mir(&src).map(|m| {
                let mut s = String::new();
                dump(&m, &mut s);
                if text {
                    for l in format!("{m}").lines() {
                        s.push_str("T ");
                        s.push_str(l);
                        s.push('\n');
                    }
                }
                s
            }).map_err(|e| errs_to_strings(&e))
        });
        let mut out = stdout.lock();
        match r {
            Err(m) => {
                writeln!(out, "@@BEGIN {id} panic").unwrap();
                writeln!(out, "T {}", m.replace('\n', " ")).unwrap();
            }
            Ok(Err(errs)) => {
                writeln!(out, "@@BEGIN {id} err {}", errs.len()).unwrap();
                for e in errs {
                    writeln!(out, "T {}", e.replace('\n', " ")).unwrap();
                }
            }
            Ok(Ok(s)) => {
                writeln!(out, "@@BEGIN {id} ok").unwrap();
                out.write_all(s.as_bytes()).unwrap();
            }
        }
        writeln!(out, "@@END {id}").unwrap();
        out.flush().unwrap();
    }
}
