// bc_dump: compiles a mimium source with the REAL compiler, prints the complete bytecode `Program` the real VM is
// about to execute (every FuncProto field the interpreter reads), then runs main and n dsp samples on the REAL VM
// (`VmDspRuntime`, the code path of the CLI) and prints outputs (bits), the flat state words and the state cursor
// after every sample.  Harness of the C03 bytecode part (checks/bvm_part.py): the extracted model VM (Bvm/Model.v)
// runs the same dumped program and must agree; the extracted verifier (Bvm/Verify.v) must accept it.
// stdin : one JSON object per line {"id":..,"src":"..","n":N,"inputs":[[f,..],..]?,"path":".."?,"sched":bool?,"run":bool?}
// stdout: "\n@@RES {json}" per case:
//   {"id":..,"compile":[..]} | {"id":..,"compile_panic":".."} |
//   {"id":..,"prog":{"funs":[{"name","nparam","pwords"|null,"gaw":[element words of the MIR GetArrayElem's in order]|null,"nret","code":[["Move",1,2],..],"consts":[u64..],
//        "delay_sizes":[..],"jump_tables":[{"min":i,"offsets":[..]}],"ssize":N,"skel":"[..]","nup":k,
//        "up":[[pos,size,is_closure]..]}],
//        "globals":[sizes],"ext":[names],"dsp":idx|null,"io":[in,out]|null,"types_plain":[bool..],"types":[tree..]},
//    "main":{"rc":..,"words":[..],"pos":..,"ncls":closures.len(),"nheap":heap.len()}|{"panic":".."},
//    "samples":[{"rc":..,"out":["bits"..],"words":[..],"pos":..,"ncls":..,"nheap":..}|{"panic":".."}]}
use serde_json::{Value, json};
use std::io::{BufRead, Write};
use std::sync::atomic::Ordering;
use verif_lang::common::*;
use verif_lang::runner::*;

use mimium_audiodriver::backends::local_buffer::LocalBufferDriver;
use mimium_audiodriver::driver::{Driver, RuntimeData, VmDspRuntime};
use mimium_lang::plugin::Plugin;
use mimium_lang::runtime::vm::{Instruction, Program};
use mimium_lang::runtime::{DspRuntime, Time};
use mimium_lang::{Config, ExecContext};

/// One instruction as ["Name", arg, ...]; every operand a JSON integer (MoveImmF: the f64 bit pattern of the
/// half-float immediate, exactly what the interpreter stores; PushStatePos/PopStatePos: the 24-bit offset).
/// All other variants go through their derived `Debug` form, so a variant added to the enum is dumped too.
fn instr_json(i: &Instruction) -> Value {
    match i {
        Instruction::MoveImmF(d, v) => {
            let f: f64 = (*v).into();
            json!(["MoveImmF", d, f.to_bits()])
        }
        Instruction::PushStatePos(v) => json!(["PushStatePos", std::convert::Into::<u64>::into(*v)]),
        Instruction::PopStatePos(v) => json!(["PopStatePos", std::convert::Into::<u64>::into(*v)]),
        other => {
            let s = format!("{other:?}");
            let (name, rest) = match s.find('(') {
                Some(p) => (s[..p].to_string(), s[p + 1..].trim_end_matches(')').to_string()),
                None => (s.clone(), String::new()),
            };
            let mut v = vec![json!(name)];
            for a in rest.split(',') {
                let a = a.trim();
                if a.is_empty() {
                    continue;
                }
                match a.parse::<i64>() {
                    Ok(n) => v.push(json!(n)),
                    Err(_) => v.push(json!(a)), // an operand this dumper does not know: the reader rejects it
                }
            }
            Value::Array(v)
        }
    }
}

/// true when clone_usersum_recursive / release_usersum_recursive cannot reach a heap reference in a value of this type
/// (they descend through UserSum payloads, tuples and records and stop at Boxed / TypeAlias, which they retain / release)
fn plain_type(ty: mimium_lang::interner::TypeNodeId, depth: usize) -> bool {
    use mimium_lang::types::Type;
    if depth > 64 {
        return false;
    }
    match ty.to_type() {
        Type::Boxed(_) | Type::TypeAlias(_) => false,
        Type::UserSum { variants, .. } => variants.iter().all(|(_, p)| p.map_or(true, |t| plain_type(t, depth + 1))),
        Type::Tuple(elems) => elems.iter().all(|t| plain_type(*t, depth + 1)),
        Type::Record(fields) => fields.iter().all(|f| plain_type(f.ty, depth + 1)),
        _ => true,
    }
}

/// the type as clone_usersum_recursive / release_usersum_recursive see it:
/// ["P"] | ["B", inner] | ["S", name, [payload|null, ..]] | ["T", [[word_size, elem], ..]] | ["A", name]
/// (names are numbered in order of first appearance)
fn type_tree(ty: mimium_lang::interner::TypeNodeId, names: &mut Vec<String>, depth: usize) -> Value {
    use mimium_lang::types::Type;
    let mut id_of = |n: String, names: &mut Vec<String>| -> usize {
        match names.iter().position(|x| *x == n) {
            Some(i) => i,
            None => {
                names.push(n);
                names.len() - 1
            }
        }
    };
    if depth > 64 {
        return json!(["P"]);
    }
    match ty.to_type() {
        Type::Boxed(inner) => json!(["B", type_tree(inner, names, depth + 1)]),
        Type::TypeAlias(name) => json!(["A", id_of(name.to_string(), names)]),
        Type::UserSum { name, variants } => {
            let n = id_of(name.to_string(), names);
            let vs: Vec<Value> = variants
                .iter()
                .map(|(_, p)| p.map_or(Value::Null, |t| type_tree(t, names, depth + 1)))
                .collect();
            json!(["S", n, vs])
        }
        Type::Tuple(elems) => json!(["T", elems.iter().map(|t| json!([t.word_size(), type_tree(*t, names, depth + 1)])).collect::<Vec<_>>()]),
        Type::Record(fields) => json!(["T", fields.iter().map(|f| json!([f.ty.word_size(), type_tree(f.ty, names, depth + 1)])).collect::<Vec<_>>()]),
        _ => json!(["P"]),
    }
}

fn prog_json(p: &Program, pwords: &Option<Vec<u64>>, gaw: &Option<Vec<Vec<u64>>>) -> Value {
    use state_tree::tree::SizedType;
    let funs: Vec<Value> = p
        .global_fn_table
        .iter()
        .enumerate()
        .map(|(i, (name, f))| {
            json!({
                "name": name,
                "nparam": f.nparam,
                "pwords": pwords.as_ref().and_then(|v| v.get(i).copied()),
                "gaw": gaw.as_ref().and_then(|v| v.get(i).cloned()),
                "nret": f.nret,
                "code": f.bytecodes.iter().map(instr_json).collect::<Vec<_>>(),
                "consts": f.constants,
                "delay_sizes": f.delay_sizes,
                "jump_tables": f.jump_tables.iter().map(|t| json!({"min": t.min, "offsets": t.offsets})).collect::<Vec<_>>(),
                "ssize": f.state_skeleton.total_size(),
                "skel": skel_to_string(&f.state_skeleton),
                "nup": f.upindexes.len(),
                "up": f.upindexes.iter().map(|u| json!([u.pos, u.size, u.is_closure])).collect::<Vec<_>>(),
            })
        })
        .collect();
    let mut names: Vec<String> = vec![];
    let types: Vec<Value> = p.type_table.iter().map(|t| type_tree(*t, &mut names, 0)).collect();
    json!({
        "funs": funs,
        "globals": p.global_vals.iter().map(|w| w.0).collect::<Vec<_>>(),
        "ext": p.ext_fun_table.iter().map(|(n, _)| n.clone()).collect::<Vec<_>>(),
        "dsp": p.dsp_index,
        "io": p.iochannels.map(|io| vec![io.input, io.output]),
        "types_plain": p.type_table.iter().map(|t| plain_type(*t, 0)).collect::<Vec<_>>(),
        "types": types,
    })
}

fn new_ctx(driver: &mut LocalBufferDriver, with_scheduler: bool, path: Option<std::path::PathBuf>) -> ExecContext {
    let audiodriverplug: Box<dyn Plugin> = Box::new(driver.get_as_plugin());
    let mut ctx = ExecContext::new([audiodriverplug].into_iter(), path, Config::default());
    if with_scheduler {
        ctx.add_system_plugin(mimium_scheduler::get_default_scheduler_plugin());
    }
    ctx
}

fn row(case: &Value, t: usize) -> Vec<f64> {
    case.get("inputs")
        .and_then(|i| i.get(t))
        .and_then(|r| r.as_array())
        .map(|r| r.iter().map(|v| v.as_f64().unwrap_or(0.0)).collect())
        .unwrap_or_default()
}

/// (closures.len(), heap.len()) of the machine
fn stores_of(rt: &RuntimeData) -> (usize, usize) {
    let vm = &rt.downcast_runtime_ref::<VmDspRuntime>().unwrap().vm;
    (vm.closures.len(), vm.heap.len())
}

#[cfg(mimium_verif)]
fn state_of(rt: &RuntimeData) -> (Vec<u64>, usize) {
    let vm = &rt.downcast_runtime_ref::<VmDspRuntime>().unwrap().vm;
    let (w, p) = vm.verif_global_state();
    (w.to_vec(), p)
}
#[cfg(not(mimium_verif))]
fn state_of(_rt: &RuntimeData) -> (Vec<u64>, usize) {
    (vec![], 0)
}

fn run_case(case: &Value) -> Value {
    let src = case["src"].as_str().unwrap_or("");
    let n = case["n"].as_u64().unwrap_or(0) as usize;
    let sched = case["sched"].as_bool().unwrap_or(false);
    let do_run = case["run"].as_bool().unwrap_or(true);
    let path = case.get("path").and_then(|p| p.as_str()).map(std::path::PathBuf::from);
    let mut res = json!({"id": case["id"]});

    // 1. compile exactly as VmRun::new does
    let mut driver = LocalBufferDriver::new(0);
    let built = guarded(|| {
        let mut ctx = new_ctx(&mut driver, sched, path.clone());
        let r = ctx.prepare_machine(src).map_err(|e| errs_to_strings(&e));
        r.map(|_| ctx)
    });
    let mut ctx = match built {
        Err(m) => {
            res["compile_panic"] = json!(m);
            return res;
        }
        Ok(Err(errs)) => {
            res["compile"] = json!(errs);
            return res;
        }
        Ok(Ok(ctx)) => ctx,
    };
    // words of the parameters of every function, and the element widths of the GetArrayElem instructions of every function in
    // MIR order (untrusted annotations for the verifier), from a second MIR pass
    let notes: Option<(Vec<u64>, Vec<Vec<u64>>)> = guarded(|| {
        let mut d2 = LocalBufferDriver::new(0);
        let mut c2 = new_ctx(&mut d2, sched, path.clone());
        c2.prepare_compiler();
        c2.get_compiler().unwrap().emit_mir(src).ok().map(|mir| {
            let pw = mir
                .functions
                .iter()
                .map(|f| f.args.iter().map(|a| a.1.word_size() as u64).sum::<u64>())
                .collect::<Vec<u64>>();
            let gaw = mir
                .functions
                .iter()
                .map(|f| {
                    f.body
                        .iter()
                        .flat_map(|b| b.0.iter())
                        .filter_map(|(_, i)| match i {
                            mimium_lang::mir::Instruction::GetArrayElem(_, _, ty) => Some(ty.word_size() as u64),
                            _ => None,
                        })
                        .collect::<Vec<u64>>()
                })
                .collect::<Vec<Vec<u64>>>();
            (pw, gaw)
        })
    })
    .ok()
    .flatten();
    let prog: Program = ctx.get_vm().unwrap().prog.clone();
    let notes = notes.filter(|v| v.0.len() == prog.global_fn_table.len());
    let pwords = notes.as_ref().map(|n| n.0.clone());
    let gaw = notes.map(|n| n.1);
    res["prog"] = prog_json(&prog, &pwords, &gaw);
    if !do_run {
        return res;
    }

    // 2. main
    let r = guarded(|| ctx.run_main());
    let rc = match r {
        Err(m) => {
            res["main"] = json!({"panic": m});
            return res;
        }
        Ok(rc) => rc,
    };
    let rt = guarded(|| RuntimeData::try_from(&mut ctx));
    let mut rt = match rt {
        Ok(Ok(rt)) => rt,
        _ => {
            res["main"] = json!({"panic": "no runtime"});
            return res;
        }
    };
    let (w, p) = state_of(&rt);
    let (nc, nh) = stores_of(&rt);
    res["main"] = json!({"rc": rc, "words": w, "pos": p, "ncls": nc, "nheap": nh});
    // the program may have been changed by main (wrap_extern_cls appends functions)
    let after: Program = rt.downcast_runtime_ref::<VmDspRuntime>().unwrap().vm.prog.clone();
    if after.global_fn_table.len() != prog.global_fn_table.len() {
        res["prog_after_main_funs"] = json!(after.global_fn_table.len());
    }

    // 3. samples
    let io = rt.io_channels();
    let n = if io.is_none() { 0 } else { n };
    let nout = io.map_or(0, |io| io.output as usize);
    let mut samples = vec![];
    for t in 0..n {
        let input = row(case, t);
        driver.count.store(t as u64, Ordering::Relaxed);
        let r = guarded(|| {
            if !input.is_empty() {
                rt.set_input(&input);
            }
            let rc = rt.run_dsp(Time(t as u64));
            (rc, rt.get_output(nout).to_vec())
        });
        match r {
            Err(m) => {
                samples.push(json!({"panic": m}));
                break;
            }
            Ok((rc, out)) => {
                let (w, p) = state_of(&rt);
                let (nc, nh) = stores_of(&rt);
                samples.push(json!({"rc": rc, "out": out.iter().map(|x| fbits(*x)).collect::<Vec<_>>(), "words": w, "pos": p, "ncls": nc, "nheap": nh}));
            }
        }
    }
    res["samples"] = json!(samples);
    res
}

fn main() {
    quiet_panics();
    let stdin = std::io::stdin();
    let stdout = std::io::stdout();
    for line in stdin.lock().lines() {
        let line = line.unwrap();
        if line.trim().is_empty() {
            continue;
        }
        let case: Value = serde_json::from_str(&line).expect("bad json");
        let res = run_case(&case);
        let mut out = stdout.lock();
        writeln!(out, "\n@@RES {}", res).unwrap();
        out.flush().unwrap();
    }
}
