//! Running mimium programs on the real VM and WASM runtimes, sample by sample, through the same
//! `DspRuntime` code path the CLI / audio drivers use (`run_dsp`, `get_output`, `set_input`,
//! `try_hot_swap`).
use mimium_audiodriver::backends::local_buffer::LocalBufferDriver;
use mimium_audiodriver::driver::{Driver, RuntimeData, VmDspRuntime};
use mimium_lang::compiler::IoChannelInfo;
use mimium_lang::mir::StateType;
use mimium_lang::plugin::Plugin;
use mimium_lang::runtime::wasm::engine::{WasmDspRuntime, WasmEngine};
use mimium_lang::runtime::{DspRuntime, ProgramPayload, Time};
use mimium_lang::utils::error::ReportableError;
use mimium_lang::{Config, ExecContext};
use state_tree::patch::CopyFromPatch;
use state_tree::tree::StateTreeSkeleton;
use state_tree::StateStoragePatchPlan;
use std::sync::atomic::Ordering;

pub type Skel = StateTreeSkeleton<StateType>;

pub fn skel_to_string(s: &Skel) -> String {
    use state_tree::tree::SizedType;
    match s {
        StateTreeSkeleton::Delay { len } => format!("D{len}"),
        StateTreeSkeleton::Mem(t) => format!("M{}", t.word_size()),
        StateTreeSkeleton::Feed(t) => format!("E{}", t.word_size()),
        StateTreeSkeleton::FnCall(cs) => {
            format!("[{}]", cs.iter().map(|c| skel_to_string(c)).collect::<Vec<_>>().join(" "))
        }
    }
}

pub fn errs_to_strings(errs: &[Box<dyn ReportableError>]) -> Vec<String> {
    errs.iter().map(|e| e.get_message().to_string()).collect()
}

thread_local! {
    /// Source path given to the compiler (needed by programs that `include` or `use` files).
    pub static SRC_PATH: std::cell::RefCell<Option<std::path::PathBuf>> = const { std::cell::RefCell::new(None) };
}

thread_local! {
    /// Sample rate of the (simulated) audio device: what `Driver::init` receives from the backend.
    pub static DEVICE_SR: std::cell::Cell<u32> = const { std::cell::Cell::new(48000) };
}

pub fn set_device_sample_rate(sr: Option<u64>) {
    DEVICE_SR.with(|s| s.set(sr.map_or(48000, |x| x as u32)));
}

fn device_sr() -> u32 {
    DEVICE_SR.with(|s| s.get())
}

pub fn set_src_path(p: Option<&str>) {
    SRC_PATH.with(|s| *s.borrow_mut() = p.map(std::path::PathBuf::from));
}

fn new_ctx(driver: &mut LocalBufferDriver, with_scheduler: bool) -> ExecContext {
    let audiodriverplug: Box<dyn Plugin> = Box::new(driver.get_as_plugin());
    let path = SRC_PATH.with(|s| s.borrow().clone());
    let mut ctx = ExecContext::new([audiodriverplug].into_iter(), path, Config::default());
    if with_scheduler {
        ctx.add_system_plugin(mimium_scheduler::get_default_scheduler_plugin());
    }
    ctx
}

/// The bytecode VM behind `VmDspRuntime`.
pub struct VmRun {
    pub driver: LocalBufferDriver,
    pub rt: RuntimeData,
    pub with_scheduler: bool,
}

impl VmRun {
    pub fn new(src: &str, with_scheduler: bool) -> Result<Self, Vec<String>> {
        let mut driver = LocalBufferDriver::new(0);
        let mut ctx = new_ctx(&mut driver, with_scheduler);
        ctx.prepare_machine(src).map_err(|e| errs_to_strings(&e))?;
        let _ = ctx.run_main();
        let rt = RuntimeData::try_from(&mut ctx).map_err(|_| vec!["no vm".to_string()])?;
        // mimium-cli: ctx.run_main() first, then Driver::init(runtimedata, Some(rate)) stores the device's rate in the driver's
        // shared cell, which is what `samplerate` reads on the VM (until then the cell holds the driver's default, 48000)
        driver.set_sample_rate(mimium_audiodriver::driver::SampleRate::from(device_sr()));
        Ok(Self { driver, rt, with_scheduler })
    }
    pub fn io(&self) -> Option<IoChannelInfo> {
        self.rt.io_channels()
    }
    pub fn step(&mut self, t: u64, input: &[f64]) -> (i64, Vec<f64>) {
        self.driver.count.store(t, Ordering::Relaxed);
        if !input.is_empty() {
            self.rt.set_input(input);
        }
        let rc = self.rt.run_dsp(Time(t));
        let n = self.io().map_or(0, |io| io.output as usize);
        (rc as i64, self.rt.get_output(n).to_vec())
    }
    pub fn vm(&self) -> &mimium_lang::runtime::vm::Machine {
        &self.rt.downcast_runtime_ref::<VmDspRuntime>().unwrap().vm
    }
    pub fn skeleton(&self) -> Option<String> {
        self.vm().prog.get_dsp_state_skeleton().map(skel_to_string)
    }
    #[cfg(mimium_verif)]
    pub fn state(&self) -> (Vec<u64>, usize) {
        let (w, p) = self.vm().verif_global_state();
        (w.to_vec(), p)
    }
    /// Compile `src` afresh (same plugins) and hot-swap; Err = the edit does not compile (nothing swapped).
    pub fn hot_swap(&mut self, src: &str) -> Result<bool, Vec<String>> {
        let mut d2 = LocalBufferDriver::new(0);
        let mut ctx = new_ctx(&mut d2, self.with_scheduler);
        ctx.prepare_compiler();
        let prog = ctx.get_compiler().unwrap().emit_bytecode(src).map_err(|e| errs_to_strings(&e))?;
        Ok(self.rt.resume_with_program(ProgramPayload::VmProgram(prog)))
    }
}

/// The WASM runtime behind `WasmDspRuntime`.
pub struct WasmRun {
    pub rt: WasmDspRuntime,
    pub skeleton: Option<Skel>,
    pub io: Option<IoChannelInfo>,
    pub with_scheduler: bool,
}

struct WasmBuilt {
    rt: WasmDspRuntime,
    skeleton: Option<Skel>,
    io: Option<IoChannelInfo>,
    bytes: Vec<u8>,
}

fn build_wasm(src: &str, with_scheduler: bool, prewarm: bool) -> Result<WasmBuilt, Vec<String>> {
    let mut driver = LocalBufferDriver::new(0);
    let mut ctx = new_ctx(&mut driver, with_scheduler);
    ctx.prepare_compiler();
    let ext_fns = ctx.get_extfun_types();
    let out = ctx.get_compiler().unwrap().emit_wasm(src).map_err(|e| errs_to_strings(&e))?;
    let plugin_fns = ctx.freeze_wasm_plugin_fns();
    let workers = ctx.generate_wasm_audioworkers();
    let mut engine = WasmEngine::new(&ext_fns, plugin_fns).map_err(|e| vec![format!("engine: {e}")])?;
    engine.load_module(&out.bytes).map_err(|e| vec![format!("load: {e}")])?;
    let mut rt = WasmDspRuntime::new(engine, out.io_channels, out.dsp_state_skeleton.clone());
    rt.set_wasm_audioworkers(workers);
    // mimium-cli runs main FIRST (run_wasm_on_init; run_main) and hands the runtime to the driver afterwards: Driver::init sets
    // the device's rate.  The PREWARMED runtime of a hot swap never meets a driver (try_prewarm_wasm_global_state runs main on a
    // fresh WasmDspRuntime); the running runtime passes its rate on in try_hot_swap.
    rt.run_main().map_err(|e| vec![format!("main: {e}")])?;
    if !prewarm {
        rt.set_sample_rate(device_sr() as f64);
    }
    Ok(WasmBuilt { rt, skeleton: out.dsp_state_skeleton, io: out.io_channels, bytes: out.bytes })
}

impl WasmRun {
    pub fn new(src: &str, with_scheduler: bool) -> Result<Self, Vec<String>> {
        let b = build_wasm(src, with_scheduler, false)?;
        Ok(Self { rt: b.rt, skeleton: b.skeleton, io: b.io, with_scheduler })
    }
    pub fn step(&mut self, t: u64, input: &[f64]) -> (i64, Vec<f64>) {
        if !input.is_empty() {
            self.rt.set_input(input);
        }
        let rc = self.rt.run_dsp(Time(t));
        let n = self.io.map_or(0, |io| io.output as usize);
        (rc as i64, self.rt.get_output(n).to_vec())
    }
    pub fn skeleton(&self) -> Option<String> {
        self.skeleton.as_ref().map(skel_to_string)
    }
    pub fn state(&mut self) -> Vec<u64> {
        self.rt.engine_mut().get_global_state_data().map(|d| d.to_vec()).unwrap_or_default()
    }
    /// Hot-swap prepared the way mimium-cli's `prepare_hot_swap_wasm_payload` does (prewarmed engine
    /// with main already run, patch plan from the two skeletons, whole-copy plan when they are equal).
    pub fn hot_swap(&mut self, src: &str) -> Result<bool, Vec<String>> {
        let mut b = build_wasm(src, self.with_scheduler, true)?;
        let prewarmed = b.rt.engine_mut().get_global_state_data().map(|d| d.to_vec()).unwrap_or_default();
        let plan = match (self.skeleton.clone(), b.skeleton.clone()) {
            (Some(old), Some(new)) => {
                match state_tree::build_state_storage_patch_plan(old, new.clone()) {
                    Some(p) => p,
                    None => {
                        let total = new.total_size() as usize;
                        StateStoragePatchPlan {
                            total_size: total,
                            patches: vec![CopyFromPatch { src_addr: 0, dst_addr: 0, size: total }],
                        }
                    }
                }
            }
            _ => StateStoragePatchPlan { total_size: prewarmed.len(), patches: vec![] },
        };
        let io = b.io;
        let skeleton = b.skeleton.clone();
        let payload = ProgramPayload::WasmModule {
            bytes: b.bytes,
            prepared_engine: Box::new(b.rt.into_engine()),
            dsp_state_skeleton: skeleton.clone(),
            state_patch_plan: plan,
            prewarmed_global_state: prewarmed,
        };
        let ok = self.rt.try_hot_swap(payload);
        if ok {
            self.skeleton = skeleton;
            self.io = io;
        }
        Ok(ok)
    }
}


/// What the front end says about a source, the way the language server asks (parse + type check only):
/// "ok" | "errors" (diagnostics) | "panic:<msg>"
pub fn typecheck_verdict(src: &str, with_scheduler: bool) -> String {
    use mimium_lang::compiler::{mirgen, parser};
    let r = crate::common::guarded(|| {
        let mut driver = LocalBufferDriver::new(0);
        let mut ctx = new_ctx(&mut driver, with_scheduler);
        ctx.prepare_compiler();
        let builtin = ctx.get_compiler().unwrap().get_ext_typeinfos();
        let path = SRC_PATH.with(|s| s.borrow().clone());
        let (ast, module_info, parse_errs) = parser::parse_to_expr(src, path.clone());
        let ast = if ast.has_staging_constructs() { ast.wrap_to_staged_expr() } else { ast };
        let (_, _, type_errs) = mirgen::typecheck_with_module_info(ast, &builtin, path, module_info);
        parse_errs.len() + type_errs.len()
    });
    match r {
        Ok(0) => "ok".to_string(),
        Ok(_) => "errors".to_string(),
        Err(m) => format!("panic:{m}"),
    }
}
