//! Shared helpers for the correspondence harness binaries (see /verif/DESIGN.md section 2).
pub mod common;
pub mod runner;
