// Correspondence harness for the state-tree crate: same line protocol as ocaml/st_drv.ml.
use state_tree::tree::StateTreeSkeleton;
use state_tree::{apply_state_storage_patch_plan, build_state_storage_patch_plan};
use std::io::{BufRead, Write};

type Sk = StateTreeSkeleton<u64>;

fn parse_skel(b: &[u8], pos: &mut usize) -> Sk {
    while b[*pos] == b' ' {
        *pos += 1;
    }
    let num = |pos: &mut usize| -> u64 {
        let st = *pos;
        while *pos < b.len() && b[*pos].is_ascii_digit() {
            *pos += 1;
        }
        std::str::from_utf8(&b[st..*pos]).unwrap().parse().unwrap()
    };
    match b[*pos] {
        b'D' => {
            *pos += 1;
            Sk::Delay { len: num(pos) }
        }
        b'M' => {
            *pos += 1;
            Sk::Mem(num(pos))
        }
        b'E' => {
            *pos += 1;
            Sk::Feed(num(pos))
        }
        b'[' => {
            *pos += 1;
            let mut cs = vec![];
            loop {
                while b[*pos] == b' ' {
                    *pos += 1;
                }
                if b[*pos] == b']' {
                    *pos += 1;
                    break;
                }
                cs.push(Box::new(parse_skel(b, pos)));
            }
            Sk::FnCall(cs)
        }
        c => panic!("bad char {}", c as char),
    }
}

fn main() {
    std::panic::set_hook(Box::new(|_| {}));
    let stdin = std::io::stdin();
    let stdout = std::io::stdout();
    let mut out = std::io::BufWriter::new(stdout.lock());
    for line in stdin.lock().lines() {
        let line = line.unwrap();
        if line.is_empty() {
            continue;
        }
        let b = line.as_bytes();
        let mut pos = 0;
        let o = parse_skel(b, &mut pos);
        while b[pos] == b' ' {
            pos += 1;
        }
        assert!(b[pos] == b'|');
        pos += 1;
        let n = parse_skel(b, &mut pos);
        let osz = o.total_size() as usize;
        let r = std::panic::catch_unwind(|| build_state_storage_patch_plan(o, n));
        match r {
            Err(_) => writeln!(out, "PLANPANIC").unwrap(),
            Ok(None) => writeln!(out, "N").unwrap(),
            Ok(Some(plan)) => {
                let mut l: Vec<(usize, usize, usize)> =
                    plan.patches.iter().map(|p| (p.dst_addr, p.src_addr, p.size)).collect();
                l.sort();
                l.dedup();
                let pstr = l
                    .iter()
                    .map(|(d, s, z)| format!("{s},{d},{z}"))
                    .collect::<Vec<_>>()
                    .join(";");
                let old: Vec<u64> = (0..osz as u64).map(|i| i + 1).collect();
                let st = std::panic::catch_unwind(|| apply_state_storage_patch_plan(&old, &plan));
                let sstr = match st {
                    Err(_) => "PANIC".to_string(),
                    Ok(w) => w.iter().map(|x| x.to_string()).collect::<Vec<_>>().join(","),
                };
                writeln!(out, "S {} {} => {}", plan.total_size, pstr, sstr).unwrap();
            }
        }
    }
}
