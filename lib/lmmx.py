"""Lmmx: programs of the core language WITH closures / higher-order functions / tuples / records / pipes / default
arguments (coq/theories/Lmmx/Syntax.v): python AST, s-expression printer (for the extracted reference semantics),
mimium pretty-printer (for the real compiler), runners.  The type-directed generator lives in lmmx_gen.py.

AST (tuples):
  ('lit',z) ('var',x) ('now',) ('sr',) ('self',) ('bin',op,a,b) ('neg',a) ('let',pat,a,b) ('if',c,t,e) ('mem',a)
  ('delay',n,a,t) ('tup',[e]) ('proj',e,i) ('rec',[(f,e)]) ('fld',e,f) ('lam',[(x,ty)],body) ('app',f,[args])
  ('cnamed',f,[(x,e)]) ('pipe',a,f) ('asg',x,e) ('seq',a,b)
  ('selfs',shape)            `self` of a function whose return type has that shape (prints as `self`)
  ('con',tid,tag,arg|None)   constructor number `tag` of the declared sum type tid:  K<tid>_<tag>   K<tid>_<tag>(arg)
  ('match',scrut,[(mpat,body)])
  pat: ('pv',x) ('pw',) ('pt',[pat]) ('pr',[(f,pat)])
  mpat: ('ml',z) ('mw',) ('mc',tid,tag,pat|None) ('mt',[mpat])
  shape: 'N' | ('st',[shape]) | ('sr',[(f,shape)]) | ('ss',tid,[shape|None])      (Lmmx.Syntax.shape)
  types (only used for printing annotations): 'F' | ('T',[ty]) | ('R',[(f,ty)]) | ('Fn',[ty],ty) | ('S',tid) | None (no annotation)
  program: dict(globals=[('fun',name,[(x,ty,default|None)],body,ret_ty|None) | ('glet',pat,e)], inputs=[x],
                lets=[(pat,e)], outs=[e], types=[(tid,[payload ty|None])])      (`types` may be missing: no sum types)
Identifiers are ints.  Variables print as v<n>, functions as f<n>; record fields are ints printing as FIELD_NAMES[n],
whose alphabetical order is the numeric order (the canonical order of record literals)."""
import json, os, subprocess
from vplib import *
import lmmm
from lmmm import SYM, bits_to_float, run_impl

FIELD_NAMES = ["fa", "fb", "fc", "fd", "fe", "fg", "fh", "fk"]


def vname(x):
    return "v%d" % x


def fname(f):
    return "f%d" % f


def field(f):
    return FIELD_NAMES[f]


def tname(t):
    return "T%d" % t


def cname(t, tag):
    return "K%d_%d" % (t, tag)


def is_fun_id(p, x):
    return x in p.get('_funs', ())


# ------------------------------------------------------------------------------------------------
# s-expressions for ocaml/lmmx_drv.ml.  `funs` = set of identifiers that are function names (printed f<n>); the model
# has ONE namespace, so function ids and variable ids must be disjoint (the generator draws them from one counter).
# ------------------------------------------------------------------------------------------------
def sx_pat(p):
    k = p[0]
    if k == 'pv': return "(pv %d)" % p[1]
    if k == 'pw': return "pw"
    if k == 'pt': return "(pt %s)" % " ".join(sx_pat(q) for q in p[1])
    if k == 'pr': return "(pr %s)" % " ".join("(%d %s)" % (f, sx_pat(q)) for f, q in sorted(p[1]))
    raise ValueError(p)


def sx_shape(sh):
    if sh == 'N': return "N"
    if sh[0] == 'st': return "(st %s)" % " ".join(sx_shape(x) for x in sh[1])
    if sh[0] == 'sr': return "(sr %s)" % " ".join("(%d %s)" % (f, sx_shape(x)) for f, x in sorted(sh[1], key=lambda fx: field(fx[0])))
    if sh[0] == 'ss': return "(ss %d %s)" % (sh[1], " ".join("-" if x is None else sx_shape(x) for x in sh[2]))
    raise ValueError(sh)


def sx_mpat(m):
    k = m[0]
    if k == 'ml': return "(ml %d)" % m[1]
    if k == 'mw': return "mw"
    if k == 'mc': return "(mc %d)" % m[2] if m[3] is None else "(mc %d %s)" % (m[2], sx_pat(m[3]))
    if k == 'mt': return "(mt %s)" % " ".join(sx_mpat(x) for x in m[1])
    raise ValueError(m)


def sx(e):
    k = e[0]
    if k == 'lit': return "(lit %d)" % e[1]
    if k == 'var': return "(var %d)" % e[1]
    if k in ('now', 'sr', 'self'): return k
    if k == 'bin': return "(bin %s %s %s)" % (e[1], sx(e[2]), sx(e[3]))
    if k == 'neg': return "(neg %s)" % sx(e[1])
    if k == 'let': return "(let %s %s %s)" % (sx_pat(e[1]), sx(e[2]), sx(e[3]))
    if k == 'if': return "(if %s %s %s)" % (sx(e[1]), sx(e[2]), sx(e[3]))
    if k == 'mem': return "(mem %s)" % sx(e[1])
    if k == 'delay': return "(delay %d %s %s)" % (e[1], sx(e[2]), sx(e[3]))
    if k == 'tup': return "(tup %s)" % " ".join(sx(a) for a in e[1])
    if k == 'proj': return "(proj %s %d)" % (sx(e[1]), e[2])
    # record literals and named-argument calls: canonical order = alphabetical order of the printed names
    if k == 'rec': return "(rec %s)" % " ".join("(%d %s)" % (f, sx(a)) for f, a in sorted(e[1], key=lambda fa: field(fa[0])))
    if k == 'fld': return "(fld %s %d)" % (sx(e[1]), e[2])
    if k == 'lam': return "(lam (%s) %s)" % (" ".join(str(x) for x, _ in e[1]), sx(e[2]))
    if k == 'app': return "(app %s)" % " ".join([sx(e[1])] + [sx(a) for a in e[2]])
    if k == 'cnamed': return "(cnamed %d %s)" % (e[1], " ".join("(%d %s)" % (x, sx(a)) for x, a in sorted(e[2], key=lambda xa: vname(xa[0]))))
    if k == 'pipe': return "(pipe %s %s)" % (sx(e[1]), sx(e[2]))
    if k == 'asg': return "(asg %d %s)" % (e[1], sx(e[2]))
    if k == 'seq': return "(seq %s %s)" % (sx(e[1]), sx(e[2]))
    if k == 'selfs': return "(selfs %s)" % sx_shape(e[1])
    if k == 'con': return "(con %d %d)" % (e[1], e[2]) if e[3] is None else "(con %d %d %s)" % (e[1], e[2], sx(e[3]))
    if k == 'match': return "(match %s %s)" % (sx(e[1]), " ".join("(%s %s)" % (sx_mpat(m), sx(b)) for m, b in e[2]))
    raise ValueError(e)


def prog_sx(p):
    gs = []
    for g in p['globals']:
        if g[0] == 'fun':
            ps = " ".join("(%d)" % x if d is None else "(%d %s)" % (x, sx(d)) for x, _, d in g[2])
            gs.append("(fun %d (%s) %s)" % (g[1], ps, sx(g[3])))
        else:
            gs.append("(glet %s %s)" % (sx_pat(g[1]), sx(g[2])))
    lets = " ".join("(%s %s)" % (sx_pat(q), sx(e)) for q, e in p['lets'])
    outs = " ".join(sx(e) for e in p['outs'])
    return "(prog (globals %s) (inputs %s) (lets %s) (outs %s))" % (" ".join(gs), " ".join(map(str, p['inputs'])), lets, outs)


# ------------------------------------------------------------------------------------------------
# mimium source
# ------------------------------------------------------------------------------------------------
def pp_ty(t):
    if t == 'F': return "float"
    if t[0] == 'T': return "(" + ", ".join(pp_ty(x) for x in t[1]) + ")"
    if t[0] == 'R': return "{" + ", ".join("%s:%s" % (field(f), pp_ty(x)) for f, x in t[1]) + "}"
    if t[0] == 'Fn': return "(" + ", ".join(pp_ty(x) for x in t[1]) + ")->" + pp_ty(t[2])
    if t[0] == 'S': return tname(t[1])
    raise ValueError(t)


def pp_mpat(m):
    k = m[0]
    if k == 'ml': return "%d" % m[1]
    if k == 'mw': return "_"
    if k == 'mc': return cname(m[1], m[2]) + ("" if m[3] is None else "(" + pp_pat(m[3]) + ")")
    if k == 'mt': return "(" + ", ".join(pp_mpat(x) for x in m[1]) + ")"
    raise ValueError(m)


def pp_pat(p, shuffle=None):
    """`shuffle`: optional function permuting the fields of a record pattern (their order has no meaning)"""
    k = p[0]
    if k == 'pv': return vname(p[1])
    if k == 'pw': return "_"
    if k == 'pt': return "(" + ", ".join(pp_pat(q, shuffle) for q in p[1]) + ")"
    if k == 'pr': return "{" + ", ".join("%s = %s" % (field(f), pp_pat(q, shuffle)) for f, q in (shuffle(p[1]) if shuffle else p[1])) + "}"
    raise ValueError(p)


class PP:
    """pretty-printer; `funs` = identifiers that name functions; `opts` may shuffle record fields (rng)"""
    def __init__(self, funs, rng=None):
        self.funs = set(funs)
        self.rng = rng

    def name(self, x):
        return fname(x) if x in self.funs else vname(x)

    def shuffled(self, items):
        items = list(items)
        if self.rng is not None and len(items) > 1:
            for i in range(len(items) - 1, 0, -1):
                j = self.rng.below(i + 1)
                items[i], items[j] = items[j], items[i]
        return items

    def callee(self, f):
        if f[0] in ('var', 'app'):
            return self.e(f)
        return "(" + self.e(f) + ")"

    def e(self, e, ind="  "):
        """expression in operand position (self-delimiting)"""
        k = e[0]
        if k == 'lit': return "%d.0" % e[1] if e[1] >= 0 else "(-%d.0)" % -e[1]
        if k == 'var': return self.name(e[1])
        if k == 'now': return "now"
        if k == 'sr': return "samplerate"
        if k in ('self', 'selfs'): return "self"
        if k == 'con': return cname(e[1], e[2]) + ("" if e[3] is None else "(" + self.e(e[3], ind) + ")")
        if k == 'match':
            arms = ["%s => %s" % (pp_mpat(m), "{ " + self.block(b, ind + "    ") + " }" if b[0] in ('let', 'seq', 'asg') else self.e(b, ind + "    "))
                    for m, b in e[2]]
            return "(match %s {\n%s    %s\n%s  })" % (self.e(e[1], ind), ind, (",\n%s    " % ind).join(arms), ind)
        if k == 'bin':
            if e[1] in ('min', 'max'):
                return "%s(%s, %s)" % (e[1], self.e(e[2], ind), self.e(e[3], ind))
            return "(%s %s %s)" % (self.e(e[2], ind), SYM[e[1]], self.e(e[3], ind))
        if k == 'neg': return "(-%s)" % self.e(e[1], ind)
        if k in ('let', 'seq', 'asg'):
            return "{ " + self.block(e, ind + "  ") + " }"
        if k == 'if': return "(if (%s) { %s } else { %s })" % (self.e(e[1], ind), self.block(e[2], ind + "  "), self.block(e[3], ind + "  "))
        if k == 'mem': return "mem(%s)" % self.e(e[1], ind)
        if k == 'delay': return "delay(%d.0, %s, %s)" % (e[1], self.e(e[2], ind), self.e(e[3], ind))
        if k == 'tup': return "(" + ", ".join(self.e(a, ind) for a in e[1]) + ")"
        if k == 'proj':
            b = self.e(e[1], ind)
            return "%s.%d" % (b if e[1][0] in ('var', 'proj', 'fld') else "(" + b + ")", e[2])
        if k == 'rec': return "{" + ", ".join("%s = %s" % (field(f), self.e(a, ind)) for f, a in self.shuffled(e[1])) + "}"
        if k == 'fld':
            b = self.e(e[1], ind)
            return "%s.%s" % (b if e[1][0] in ('var', 'proj', 'fld') else "(" + b + ")", field(e[2]))
        if k == 'lam':
            ps = ", ".join(vname(x) if (t is None or t == 'F') else "%s:%s" % (vname(x), pp_ty(t)) for x, t in e[1])
            return "|%s| { %s }" % (ps if ps else " ", self.block(e[2], ind + "  "))
        if k == 'app': return "%s(%s)" % (self.callee(e[1]), ", ".join(self.e(a, ind) for a in e[2]))
        if k == 'cnamed': return "%s({%s})" % (self.name(e[1]), ", ".join("%s = %s" % (vname(x), self.e(a, ind)) for x, a in self.shuffled(e[2])))
        if k == 'pipe': return "(%s |> %s)" % (self.e(e[1], ind), self.callee(e[2]))
        raise ValueError(e)

    def block(self, e, ind="  "):
        """statement sequence: lets / assignments / sequenced expressions on their own lines"""
        k = e[0]
        if k == 'let':
            # (a record pattern on `self` is shuffled like every other record pattern since the repair of S1: fields bind by name)
            return "let %s = %s\n%s" % (pp_pat(e[1], self.shuffled), self.e(e[2], ind), ind) + self.block(e[3], ind)
        if k == 'seq':
            return self.stmt(e[1], ind) + "\n" + ind + self.block(e[2], ind)
        if k == 'asg':
            return self.stmt(e, ind)
        return self.e(e, ind)

    def stmt(self, e, ind):
        if e[0] == 'asg':
            return "%s = %s" % (self.name(e[1]), self.e(e[2], ind))
        return self.e(e, ind)


def fun_ids(p):
    return [g[1] for g in p['globals'] if g[0] == 'fun']


def pp_prog(p, rng=None):
    pr = PP(fun_ids(p), rng)
    out = []
    for tid, ctors in p.get('types', []):
        out.append("type %s = %s" % (tname(tid), " | ".join(cname(tid, i) + ("" if t is None else "(" + pp_ty(t) + ")")
                                                            for i, t in enumerate(ctors))))
    for g in p['globals']:
        if g[0] == 'fun':
            _, name, params, body, ret = g
            ps = []
            for x, t, d in params:
                s = vname(x)
                if t is not None:
                    s += ":" + pp_ty(t)
                if d is not None:
                    s += " = " + pr.e(d)
                ps.append(s)
            rt = "" if ret is None else " -> " + pp_ty(ret)
            out.append("fn %s(%s)%s{\n  %s\n}" % (fname(name), ", ".join(ps), rt, pr.block(body, "  ")))
        else:
            out.append("let %s = %s" % (pp_pat(g[1], pr.shuffled), pr.e(g[2])))
    body = ""
    for q, e in p['lets']:
        if q[0] == 'pw' and e[0] in ('asg',):
            body += "  " + pr.stmt(e, "  ") + "\n"
        else:
            body += "  let %s = %s\n" % (pp_pat(q, pr.shuffled), pr.e(e))
    if len(p['outs']) == 1:
        body += "  " + pr.e(p['outs'][0])
    else:
        body += "  (" + ", ".join(pr.e(e) for e in p['outs']) + ")"
    out.append("fn dsp(%s){\n%s\n}" % (", ".join(vname(x) + ':float' for x in p['inputs']), body))
    return "\n".join(out) + "\n"


# ------------------------------------------------------------------------------------------------
# features (measured coverage)
# ------------------------------------------------------------------------------------------------
def subexprs(e):
    yield e
    k = e[0]
    if k in ('bin',): yield from subexprs(e[2]); yield from subexprs(e[3])
    elif k in ('neg', 'mem'): yield from subexprs(e[1])
    elif k == 'let': yield from subexprs(e[2]); yield from subexprs(e[3])
    elif k == 'if':
        for x in e[1:]: yield from subexprs(x)
    elif k == 'delay': yield from subexprs(e[2]); yield from subexprs(e[3])
    elif k == 'tup':
        for a in e[1]: yield from subexprs(a)
    elif k in ('proj', 'fld'): yield from subexprs(e[1])
    elif k in ('rec',):
        for _, a in e[1]: yield from subexprs(a)
    elif k == 'cnamed':
        for _, a in e[2]: yield from subexprs(a)
    elif k == 'lam': yield from subexprs(e[2])
    elif k == 'app':
        yield from subexprs(e[1])
        for a in e[2]: yield from subexprs(a)
    elif k in ('pipe', 'seq'): yield from subexprs(e[1]); yield from subexprs(e[2])
    elif k == 'asg': yield from subexprs(e[2])
    elif k == 'con':
        if e[3] is not None: yield from subexprs(e[3])
    elif k == 'match':
        yield from subexprs(e[1])
        for _, b in e[2]: yield from subexprs(b)


def all_bodies(p):
    for g in p['globals']:
        if g[0] == 'fun':
            yield g[3]
            for _, _, d in g[2]:
                if d is not None:
                    yield d
        else:
            yield g[2]
    for _, e in p['lets']:
        yield e
    for e in p['outs']:
        yield e


def mpat_vars(m):
    if m[0] == 'mc' and m[3] is not None: return pat_vars(m[3])
    if m[0] == 'mt': return [x for s in m[1] for x in mpat_vars(s)]
    return []


def pat_kinds(q):
    yield q[0]
    if q[0] == 'pt':
        for x in q[1]: yield from pat_kinds(x)
    if q[0] == 'pr':
        for _, x in q[1]: yield from pat_kinds(x)


def features(p):
    f = {"nodes": 0, "lam": 0, "app_closure": 0, "app_direct": 0, "pipe": 0, "cnamed": 0, "asg": 0, "seq": 0, "tup": 0, "proj": 0,
         "rec": 0, "fld": 0, "pat_tuple": 0, "pat_record": 0, "self": 0, "mem": 0, "delay": 0, "if": 0, "fun_as_value": 0,
         "defaults": 0, "global_lets": 0, "con": 0, "match": 0, "match_int": 0, "match_sum": 0, "match_tuple": 0, "match_arms": 0,
         "match_stateful_arm": 0, "match_payload_binders": 0, "selfs": 0, "selfs_tuple": 0, "selfs_record": 0, "selfs_sum": 0,
         "sum_types": len(p.get('types', []))}
    funs = set(fun_ids(p))
    for g in p['globals']:
        if g[0] == 'fun':
            f["defaults"] += sum(1 for _, _, d in g[2] if d is not None)
        else:
            f["global_lets"] += 1
            for k in pat_kinds(g[1]):
                if k == 'pt': f["pat_tuple"] += 1
                if k == 'pr': f["pat_record"] += 1
    for q, _ in p['lets']:
        for k in pat_kinds(q):
            if k == 'pt': f["pat_tuple"] += 1
            if k == 'pr': f["pat_record"] += 1
    for b in all_bodies(p):
        for s in subexprs(b):
            f["nodes"] += 1
            k = s[0]
            if k in f: f[k] += 1
            if k == 'app':
                if s[1][0] == 'var' and s[1][1] in funs: f["app_direct"] += 1
                else: f["app_closure"] += 1
                f["fun_as_value"] += sum(1 for a in s[2] if a[0] == 'var' and a[1] in funs)
            if k == 'selfs':
                f["selfs_" + {'st': 'tuple', 'sr': 'record', 'ss': 'sum'}.get(s[1][0] if s[1] != 'N' else 'N', 'tuple')] += 1
            if k == 'match':
                f["match_arms"] += len(s[2])
                kinds = {m[0] for m, _ in s[2]}
                if 'mt' in kinds: f["match_tuple"] += 1
                elif 'mc' in kinds: f["match_sum"] += 1
                else: f["match_int"] += 1
                for m, b in s[2]:
                    f["match_payload_binders"] += len(mpat_vars(m))
                    if any(x[0] in ('mem', 'delay', 'self', 'selfs') or
                           (x[0] == 'app' and x[1][0] == 'var' and x[1][1] in funs) for x in subexprs(b)):
                        f["match_stateful_arm"] += 1
            if k == 'let':
                for kk in pat_kinds(s[1]):
                    if kk == 'pt': f["pat_tuple"] += 1
                    if kk == 'pr': f["pat_record"] += 1
    return f


# ------------------------------------------------------------------------------------------------
# runners
# ------------------------------------------------------------------------------------------------
OCAML = [("lmmx_drv", ["lmmx_model"], "ocaml/lmmx_drv.ml")]
HARNESS = [("lang", ["lmmm_run"], True), ("lang", ["bc_dump"], True)]
EXTRACT_TARGET = "theories/Extract/LmmxExtract.vo"
FUEL = 400


def model_line(p, rows, fuel=FUEL):
    n = len(rows)
    k = len(p['inputs'])
    flat = " ".join(str(v) for r in rows for v in r)
    return "%d %d %d %s | %s" % (fuel, n, k, flat, prog_sx(p))


MODEL_CASE_TIMEOUT_S = 20


def run_model(exe, cases, fuel=FUEL, shards=None, case_timeout=MODEL_CASE_TIMEOUT_S):
    """cases: list of (prog, rows) -> list of dicts (JSON answers of ocaml/lmmx_drv.ml); sharded over processes.
    The interpreter has depth fuel only, so a program with very many calls can take long: every case gets `case_timeout`
    seconds, after which the driver is restarted and the case answers {"timeout": true} (counted, not compared)."""
    import concurrent.futures, select
    lines = [model_line(p, rows, fuel) for p, rows in cases]
    if not lines:
        return []
    shards = shards or min(NPROC, max(1, len(lines) // 16))
    chunks = [lines[i::shards] for i in range(shards)]

    def work(chunk):
        out = []
        pr = None
        def start():
            # the extracted interpreter recurses deeply on long runs: a big stack (lmmm._big_stack)
            return subprocess.Popen([exe], stdin=subprocess.PIPE, stdout=subprocess.PIPE, stderr=subprocess.DEVNULL, text=True, bufsize=1,
                                    preexec_fn=lmmm._big_stack)
        try:
            pr = start()
            for line in chunk:
                try:
                    pr.stdin.write(line + "\n")
                    pr.stdin.flush()
                    ready, _, _ = select.select([pr.stdout], [], [], case_timeout)
                except BrokenPipeError:
                    ready = None
                if ready is not None and not ready:
                    pr.kill(); pr.wait()
                    out.append({"timeout": True})
                    pr = start()
                    continue
                ans = pr.stdout.readline() if ready else ""
                if not ans:
                    # the driver died on this case (stack overflow of the extracted interpreter): the case is discarded and counted
                    pr.kill(); pr.wait()
                    out.append({"crashed": True})
                    pr = start()
                    continue
                out.append(json.loads(ans))
        finally:
            if pr is not None:
                try:
                    pr.stdin.close()
                except Exception:
                    pass
                pr.kill(); pr.wait()
        return out
    res = [None] * len(lines)
    with concurrent.futures.ThreadPoolExecutor(max_workers=shards) as ex:
        for si, ans in enumerate(ex.map(work, chunks)):
            for j, a in enumerate(ans):
                res[si + j * shards] = a
    return res


def impl_requests(cases, rng=None):
    reqs = []
    for ci, (p, rows) in enumerate(cases):
        # the permutation of record fields is a function of the program alone: a program always prints the same way
        r = {"src": pp_prog(p, rng.fork(prog_sx(p)) if rng is not None else None), "n": len(rows), "state": False}
        if p['inputs']:
            r["inputs"] = [[float(v) for v in row] for row in rows]
        reqs.append(r)
    return reqs


def backend_rows(b, n):
    """('ok', [[floats]..]) | ('compile', msg) | ('panic', t, msg) | ('short', t)"""
    if b is None:
        return ('missing',)
    if 'died' in b:
        return ('crash', b['died'])
    if 'samples' not in b:
        return ('compile', str(b.get('compile') or b.get('compile_panic'))[:300])
    rows = []
    for t in range(n):
        if t >= len(b['samples']):
            return ('short', t)
        s = b['samples'][t]
        if 'panic' in s:
            return ('panic', t, s['panic'][:200])
        rows.append([bits_to_float(h) for h in s['out']])
    return ('ok', rows)


# ------------------------------------------------------------------------------------------------
# class predicates of the known findings (syntactic, over the AST; identifiers are unique per program)
# ------------------------------------------------------------------------------------------------
def pat_vars(q):
    if q[0] == 'pv': return [q[1]]
    if q[0] == 'pt': return [x for s in q[1] for x in pat_vars(s)]
    if q[0] == 'pr': return [x for _, s in q[1] for x in pat_vars(s)]
    return []


def binders(e):
    """identifiers bound anywhere inside e"""
    out = set()
    for s in subexprs(e):
        if s[0] == 'let': out.update(pat_vars(s[1]))
        if s[0] == 'lam': out.update(x for x, _ in s[1])
        if s[0] == 'match':
            for m, _ in s[2]: out.update(mpat_vars(m))
    return out


def mentions(e):
    out = set()
    for s in subexprs(e):
        if s[0] == 'var': out.add(s[1])
        if s[0] == 'asg': out.add(s[1])
    return out


def local_roots(p):
    """(body, is_dsp_level) of every function body / global let / dsp let / output"""
    for g in p['globals']:
        yield (g[3] if g[0] == 'fun' else g[2])
    for _, e in p['lets']:
        yield e
    for e in p['outs']:
        yield e


def known_classes(p):
    """names of the finding classes the program falls into (see checks/lmmx_part.py FINDINGS)"""
    cls = set()
    # W5: a lambda mentions a LOCAL variable bound by a tuple / record pattern outside the lambda
    patbound = set()
    for q, _ in p['lets']:
        if q[0] in ('pt', 'pr'): patbound.update(pat_vars(q))
    for b in local_roots(p):
        for s in subexprs(b):
            if s[0] == 'let' and s[1][0] in ('pt', 'pr'):
                patbound.update(pat_vars(s[1]))
    for b in local_roots(p):
        for s in subexprs(b):
            if s[0] == 'lam' and (mentions(s[2]) - binders(s[2]) - {x for x, _ in s[1]}) & patbound:
                cls.add("W5")
    return cls


CMP_OPS = ('lt', 'le', 'gt', 'ge', 'eq', 'ne')


def own_self(e):
    """does the body use `self` of its own function (not of a nested lambda)?"""
    if e[0] == 'self': return True
    if e[0] == 'lam': return False
    import lmmx_shrink
    return any(own_self(c) for c in lmmx_shrink.children(e))


def tail_of(e):
    while e[0] in ('let', 'seq'):
        e = e[3] if e[0] == 'let' else e[2]
    return e


def map_expr(f, e):
    """bottom-up rewriting"""
    import lmmx_shrink
    ch = lmmx_shrink.children(e)
    return f(lmmx_shrink.rebuild(e, [map_expr(f, c) for c in ch]) if ch else e)


def map_tail(f, e):
    if e[0] == 'let': return ('let', e[1], e[2], map_tail(f, e[3]))
    if e[0] == 'seq': return ('seq', e[1], map_tail(f, e[2]))
    return f(e)


def is_projection(e):
    return e[0] in ('proj', 'fld')


def bodies_with_self(p):
    """(kind, body) of every function / lambda body"""
    for g in p['globals']:
        if g[0] == 'fun':
            yield g[3]
    for b in local_roots(p):
        for s in subexprs(b):
            if s[0] == 'lam':
                yield s[2]


def proj_class(p):
    """class PROJ (finding C01/F46 and its relatives): a tuple projection / record field used DIRECTLY as an operand of a
    comparison, as the condition or as the value of an arm of an `if`, as the value of an arm of a `match` (WASM: the OTHER
    arms then give 0.0), as the payload of a constructor (WASM stores the address), or as the result of a function / lambda /
    dsp output"""
    for b in local_roots(p):
        for s in subexprs(b):
            if s[0] == 'bin' and s[1] in CMP_OPS and (is_projection(tail_of(s[2])) or is_projection(tail_of(s[3]))): return True
            if s[0] == 'if' and (is_projection(tail_of(s[1])) or is_projection(tail_of(s[2])) or is_projection(tail_of(s[3]))): return True
            if s[0] == 'match' and any(is_projection(tail_of(b)) for _, b in s[2]): return True
            if s[0] == 'con' and s[3] is not None and is_projection(tail_of(s[3])): return True
    for b in bodies_with_self(p):
        if is_projection(tail_of(b)): return True
    for e in p['outs']:
        if is_projection(tail_of(e)): return True
    return False


def wrap0(e):
    return ('bin', 'add', e, ('lit', 0))


def avoid_proj_class(p):
    """the same program with `+ 0.0` around every projection in a PROJ position (the meaning is unchanged)"""
    def fix(s):
        w = lambda x: wrap0(x) if is_projection(x) else x
        if s[0] == 'bin' and s[1] in CMP_OPS:
            return ('bin', s[1], map_tail(w, s[2]), map_tail(w, s[3]))
        if s[0] == 'if' and (is_projection(tail_of(s[1])) or is_projection(tail_of(s[2])) or is_projection(tail_of(s[3]))):
            return ('if', map_tail(w, s[1]), map_tail(w, s[2]), map_tail(w, s[3]))
        if s[0] == 'lam' and is_projection(tail_of(s[2])):
            return ('lam', s[1], map_tail(wrap0, s[2]))
        if s[0] == 'match' and any(is_projection(tail_of(b)) for _, b in s[2]):
            return ('match', s[1], [(m, map_tail(w, b)) for m, b in s[2]])
        if s[0] == 'con' and s[3] is not None and is_projection(tail_of(s[3])):
            return ('con', s[1], s[2], map_tail(w, s[3]))
        return s
    q = dict(p)
    q['globals'] = []
    for g in p['globals']:
        if g[0] == 'fun':
            b = map_expr(fix, g[3])
            if is_projection(tail_of(b)):
                b = map_tail(wrap0, b)
            q['globals'].append(('fun', g[1], g[2], b, g[4]))
        else:
            q['globals'].append(('glet', g[1], map_expr(fix, g[2])))
    q['lets'] = [(pt, map_expr(fix, e)) for pt, e in p['lets']]
    q['outs'] = [map_tail(lambda x: wrap0(x) if is_projection(x) else x, map_expr(fix, e)) for e in p['outs']]
    return q


_known_classes_w5 = known_classes


def known_classes(p):
    cls = _known_classes_w5(p)
    if proj_class(p):
        cls.add("PROJ")
    # W7: a variable bound by a top-level tuple / record pattern is called (closure taken out of a global aggregate by a pattern)
    gpat = set()
    for g in p['globals']:
        if g[0] == 'glet' and g[1][0] in ('pt', 'pr'):
            gpat.update(pat_vars(g[1]))
    if gpat:
        for b in local_roots(p):
            for s in subexprs(b):
                if s[0] == 'app' and s[1][0] == 'var' and s[1][1] in gpat: cls.add("W7")
                if s[0] == 'pipe' and s[2][0] == 'var' and s[2][1] in gpat: cls.add("W7")
    return cls


# ---- match: the compiler's arm selection against first-match order (finding M2; M1 and M3 are repaired: the model below is
# mirgen.rs / bytecodegen.rs AFTER the repairs "a match takes the first arm that matches" and "of two arms with the same literal
# the VM takes the first": `first_match_everywhere` is expected to hold for every match and is no longer a class) ----
def _mcell(m):
    """PatternCell of mirgen.rs match_pattern_to_cell"""
    if m[0] == 'ml': return ('L', m[1])
    if m[0] == 'mc': return ('C', m[2], m[3] is not None)
    if m[0] == 'mt': return ('T',)
    return ('W',)


def _dtree(matrix, cols):
    """mirgen.rs build_decision_tree; matrix = [(cells, arm index)]"""
    if not matrix:
        return ('fail',)
    pos = None
    for i, c in enumerate(cols):
        if any(c < len(cells) and cells[c][0] in ('L', 'C') for cells, _ in matrix):
            pos = i
            break
    if pos is None:
        return ('leaf', matrix[0][1])
    c = cols[pos]
    concrete, wild = {}, []
    for cells, ai in matrix:
        if c < len(cells) and cells[c][0] in ('L', 'C'):
            concrete.setdefault(cells[c][1], []).append((cells, ai))
        else:
            wild.append((cells, ai))
    cases = []
    for key in sorted(concrete):
        rows = []
        for cells, ai in concrete[key]:
            cells = list(cells)
            cells[c] = ('P',) if (cells[c][0] == 'C' and cells[c][2]) else ('W',)
            rows.append((cells, ai))
        # the rows of a case are kept in the order of the ARMS (repair of M1): the leaf takes the first row
        cases.append((key, _dtree(sorted(rows + wild, key=lambda r: r[1]), cols)))
    default = _dtree(wild, cols[:pos] + cols[pos + 1:]) if wild else None
    return ('switch', c, cases, default)


def _dtree_eval(t, vals):
    while True:
        if t is None or t[0] == 'fail': return None
        if t[0] == 'leaf': return t[1]
        nxt = t[3]
        for key, sub in t[2]:
            if key == vals[t[1]]:
                nxt = sub
                break
        t = nxt


def _dtree_leaves(t, acc):
    if t is None or t[0] == 'fail': return
    if t[0] == 'leaf':
        acc[t[1]] = acc.get(t[1], 0) + 1
        return
    for _, sub in t[2]: _dtree_leaves(sub, acc)
    _dtree_leaves(t[3], acc)


def _mtest(m, v):
    """Lmmx.Syntax.mtest on abstract values (numbers / tags; tuples of them)"""
    if m[0] == 'mw': return True
    if m[0] == 'ml': return v == m[1]
    if m[0] == 'mc': return v == m[2]
    if m[0] == 'mt': return all(_mtest(x, y) for x, y in zip(m[1], v))
    return False


def match_selection(pats, sumtys, ncols=None):
    """The arm the real compiler selects (mirgen.rs eval_match: the arms that follow the first `_` arm are dropped, literal arms
    through a switch whose table keeps the FIRST of two equal cases on both backends, the `_` arm as default; eval_union_match:
    the same on the tag; eval_tuple_match: decision tree whose rows stay in arm order) against first-match order (the
    reference), on one representative of every class of scrutinee values.  `sumtys`: tid -> constructor payload list.
    -> first_match_everywhere: both agree on every value (always, since the repairs of M1 and M3; kept as a self-test of this
       model);  no_arm: some value matches no arm;  copies: per arm, how often the compiler compiles its body (each copy has
       its own state cells: finding M2)."""
    import itertools
    n = len(pats)
    is_tuple = any(m[0] == 'mt' for m in pats)
    def domain(cells):
        tids = {m[1] for m in cells if m[0] == 'mc'}
        if tids:
            return list(range(max(len(sumtys.get(t, [])) for t in tids)))
        lits = sorted({m[1] for m in cells if m[0] == 'ml'})
        return lits + [(max(lits) + 1) if lits else 0]
    res = {"first_match_everywhere": True, "no_arm": False, "copies": [1] * n}
    if is_tuple:
        k = ncols or max(len(m[1]) for m in pats if m[0] == 'mt')
        rows = [([_mcell(x) for x in m[1]] if m[0] == 'mt' else [('W',)] * k, i) for i, m in enumerate(pats)]
        tree = _dtree(rows, list(range(k)))
        acc = {}
        _dtree_leaves(tree, acc)
        res["copies"] = [acc.get(i, 0) for i in range(n)]
        doms = [domain([m[1][c] for m in pats if m[0] == 'mt' and c < len(m[1])]) for c in range(k)]
        for vals in itertools.product(*doms):
            fm = next((i for i, m in enumerate(pats) if (_mtest(m, vals) if m[0] == 'mt' else m[0] == 'mw')), None)
            if fm is None: res["no_arm"] = True
            if _dtree_eval(tree, vals) != fm: res["first_match_everywhere"] = False
        return res
    default = next((i for i, m in enumerate(pats) if m[0] == 'mw'), None)
    live = n if default is None else default + 1            # the arms after the first `_` arm are dropped
    keyed = [(m[1] if m[0] == 'ml' else m[2], i) for i, m in enumerate(pats[:live]) if m[0] in ('ml', 'mc')]
    res["copies"] = [1 if i < live else 0 for i in range(n)]
    for v in domain(pats):
        fm = next((i for i, m in enumerate(pats) if _mtest(m, v)), None)
        if fm is None: res["no_arm"] = True
        hits = [i for key, i in keyed if key == v]
        first = hits[0] if hits else default                # both backends take the first of two arms with the same key
        if first != fm: res["first_match_everywhere"] = False
    return res


def is_stateful_expr(b, funs):
    """syntactic: the expression contains a stateful construct or a direct call of a named function (which may be stateful)"""
    return any(x[0] in ('mem', 'delay', 'self', 'selfs') or (x[0] in ('app', 'cnamed') and (x[1] in funs if x[0] == 'cnamed' else (x[1][0] == 'var' and x[1][1] in funs)))
               or (x[0] == 'pipe' and x[2][0] == 'var' and x[2][1] in funs) for x in subexprs(b))


def match_classes(p):
    cls = set()
    sumtys = dict(p.get('types', []))
    funs = set(fun_ids(p))
    for b in all_bodies(p):
        for s in subexprs(b):
            if s[0] != 'match': continue
            pats = [m for m, _ in s[2]]
            sel = match_selection(pats, sumtys, len(s[1][1]) if s[1][0] == 'tup' else None)
            if any(c >= 2 and is_stateful_expr(body, funs) for c, (_, body) in zip(sel["copies"], s[2])): cls.add("M2")
    return cls


# ---- W9: WASM closures capture the ADDRESS of let-bound cells, and the cells of a function are the same for every call ----
def frame_lets(body):
    """variables let-bound in the frame of `body` (nested blocks included, nested lambdas excluded) with their initialisers"""
    out = {}
    def go(e):
        import lmmx_shrink
        if e[0] == 'lam':
            return
        if e[0] == 'let':
            for x in pat_vars(e[1]):
                out[x] = e[2] if e[1][0] == 'pv' else None
        for c in lmmx_shrink.children(e):
            go(c)
    go(body)
    return out


def nested_lambdas(body):
    """lambdas written in the frame of body (at any depth)"""
    return [s for s in subexprs(body) if s[0] == 'lam']


def returns_closure(body, lets):
    t = tail_of(body)
    def isclo(x):
        if x[0] == 'lam': return True
        if x[0] == 'var' and x[1] in lets and lets[x[1]] is not None and lets[x[1]][0] == 'lam': return True
        if x[0] == 'tup': return any(isclo(y) for y in x[1])
        if x[0] == 'if': return isclo(tail_of(x[2])) or isclo(tail_of(x[3]))
        return False
    return isclo(t)


def escaping_capture(body):
    """the frame returns a closure and some lambda of the frame mentions a let-bound variable of the frame"""
    lets = frame_lets(body)
    if not lets or not returns_closure(body, lets):
        return False
    for l in nested_lambdas(body):
        if (mentions(l[2]) - binders(l[2]) - {x for x, _ in l[1]}) & set(lets):
            return True
    return False


def w9_class(p):
    refs = {}
    inner_refs = set()       # function names mentioned inside a function body or inside a lambda
    for g in p['globals']:
        for s in subexprs(g[3] if g[0] == 'fun' else g[2]):
            if s[0] == 'var':
                refs[s[1]] = refs.get(s[1], 0) + 1
        if g[0] == 'fun':
            inner_refs.update(mentions(g[3]))
        else:
            for l in nested_lambdas(g[2]):
                inner_refs.update(mentions(l[2]))
    for e in [e for _, e in p['lets']] + list(p['outs']):
        for s in subexprs(e):
            if s[0] == 'var':
                refs[s[1]] = refs.get(s[1], 0) + 1
        for l in nested_lambdas(e):
            inner_refs.update(mentions(l[2]))
    for g in p['globals']:
        if g[0] == 'fun' and escaping_capture(g[3]):
            if refs.get(g[1], 0) >= 2 or g[1] in inner_refs:
                return True
    for b in local_roots(p):
        for l in nested_lambdas(b):
            if escaping_capture(l[2]):
                return True
    return False


_known_classes_w7 = known_classes


def known_classes(p):
    cls = _known_classes_w7(p)
    if w9_class(p):
        cls.add("W9")
    return cls


# ---- V1 (VM): a lambda captures a parameter that FOLLOWS a tuple / record parameter ----
def v1_class(p):
    for g in p['globals']:
        if g[0] != 'fun':
            continue
        later = set()
        seen_multi = False
        for x, t, _ in g[2]:
            if seen_multi:
                later.add(x)
            if isinstance(t, (tuple, list)) and t[0] in ('T', 'R', 'S'):
                seen_multi = True
        if not later:
            continue
        for l in nested_lambdas(g[3]):
            if (mentions(l[2]) - binders(l[2]) - {x for x, _ in l[1]}) & later:
                return True
    return False


def closureish_global_pattern_vars(p):
    """variables bound by a top-level tuple / record pattern that may hold a closure"""
    out = set()
    funs = set(fun_ids(p))
    for g in p['globals']:
        if g[0] != 'glet' or g[1][0] not in ('pt', 'pr'):
            continue
        q, e = g[1], g[2]
        if q[0] == 'pt' and e[0] == 'tup' and len(q[1]) == len(e[1]):
            for sq, se in zip(q[1], e[1]):
                if se[0] == 'lam' or (se[0] == 'var' and se[1] in funs) or se[0] in ('app', 'pipe', 'if', 'let', 'var', 'proj', 'fld'):
                    if not (se[0] in ('lit', 'bin', 'neg', 'mem', 'delay', 'now', 'self')):
                        out.update(pat_vars(sq))
        elif q[0] == 'pr' and e[0] == 'rec':
            d = dict(e[1])
            for f, sq in q[1]:
                se = d.get(f)
                if se is None or not (se[0] in ('lit', 'bin', 'neg', 'mem', 'delay', 'now', 'self')):
                    out.update(pat_vars(sq))
        else:
            out.update(pat_vars(q))
    return out


_known_classes_w9 = known_classes


def known_classes(p):
    cls = _known_classes_w9(p)
    if v1_class(p):
        cls.add("V1")
    # W7 (extended): a possibly closure-valued variable bound by a top-level pattern is called or passed as an argument
    sus = closureish_global_pattern_vars(p)
    if sus:
        for b in local_roots(p):
            for s in subexprs(b):
                if s[0] == 'app' and any(a[0] == 'var' and a[1] in sus for a in [s[1]] + list(s[2])): cls.add("W7")
                if s[0] == 'pipe' and s[2][0] == 'var' and s[2][1] in sus: cls.add("W7")
    return cls


def tuple_match_binders(m):
    """variables bound by the payload patterns of the constructor patterns inside the tuple pattern m"""
    bound = set()
    if m[0] == 'mt':
        for c in m[1]:
            if c[0] == 'mc' and c[3] is not None:
                bound.update(pat_vars(c[3]))
    return bound


def tuple_match_binder_escapes(p):
    """W9, the limit of the repaired W11 (WASM): the VALUE of an arm of a tuple match is a closure (a lambda, or a variable let-bound
    to one in the arm) that mentions a payload binder of a constructor pattern inside the tuple pattern: the closure holds the
    ADDRESS of the payload in the frame of the function, like every WASM closure over a local cell; when it escapes and the
    function runs again it reads the cell the latest call wrote (repaired: the closure called while the frame lives)"""
    for b in all_bodies(p):
        for s in subexprs(b):
            if s[0] != 'match': continue
            for m, body in s[2]:
                bound = tuple_match_binders(m)
                if not bound: continue
                lets = frame_lets(body)
                t = tail_of(body)
                lam = t if t[0] == 'lam' else (lets.get(t[1]) if t[0] == 'var' else None)
                if lam is not None and lam[0] == 'lam' and (mentions(lam[2]) & bound):
                    return True
    return False


def global_match_classes(p):
    """MG (what is left of it): a lambda written in an arm of a match evaluated at GLOBAL scope (in a top-level `let` initialiser)
    mentions a payload binder of that arm's constructor pattern: the lambda is compiled as a function of its own and sees the
    binder as a register of the global initialiser.  (Repaired: the binder read by the arm itself.)"""
    cls = set()
    def top_level(e):
        yield e
        if e[0] == 'lam':
            return
        import lmmx_shrink
        for c in lmmx_shrink.children(e):
            yield from top_level(c)
    for g in p['globals']:
        if g[0] != 'glet': continue
        for s in top_level(g[2]):
            if s[0] != 'match': continue
            for m, body in s[2]:
                bound = set(mpat_vars(m))
                if bound and any(l[0] == 'lam' and (mentions(l[2]) & bound) for l in subexprs(body)):
                    cls.add("MG")
    return cls


_known_classes_v1 = known_classes


def known_classes(p):
    # repaired and no longer classes (a deviation inside them is a VIOLATION): M1 M3 M5 W10 W11 W12 W13, and MG except for the
    # lambda residue above
    return _known_classes_v1(p) | match_classes(p) | global_match_classes(p) | ({"W9"} if tuple_match_binder_escapes(p) else set())


# ---- C03/F66 (VM): GetUpValue of an open upvalue into a register above the stack top reads freed memory ----
BRANCHES = ("Jmp", "JmpIfNeg", "JmpTable")


def written_regs(ins):
    """registers an instruction writes (destination first operand conventions of vm/bytecode.rs), as a range"""
    op = ins[0]
    if op in BRANCHES or op in ("SetState", "SetGlobal", "PushStatePos", "PopStatePos", "Return", "Return0", "SetUpValue", "Close",
                                "CloseHeapClosure", "Delay", "Mem", "Dummy") or len(ins) < 2:
        return range(0, 0)
    n = ins[3] if op in ("MoveRange", "GetGlobal", "GetUpValue") and len(ins) > 3 else (ins[2] if op == "GetState" and len(ins) > 2 else 1)
    return range(ins[1], ins[1] + max(int(n), 1))


def upvalue_read_above_frame(prog):
    """does some function read an upvalue into a register above everything the instructions that certainly ran before it
    have written (the entry block and the instruction's own block)?  The VM's value stack is one Vec for all frames; a write
    above its top grows it, and GetUpValue of an OPEN upvalue holds a slice into the old buffer while it grows (finding
    C03/F66: garbage at the first execution, allocator dependent).  Approximates the verified bytecode verifier's alias check
    (checks/bvm_part.py) from above: it flags at least the instructions the verifier rejects for this reason."""
    for f in prog.get("funs", []):
        code = f["code"]
        first_branch = next((i for i, c in enumerate(code) if c[0] in BRANCHES), len(code))
        targets = set()
        for i, c in enumerate(code):
            if c[0] == "Jmp": targets.add(i + c[1])
            if c[0] == "JmpIfNeg": targets.add(i + c[2])
            if c[0] == "JmpTable":
                for jt in f.get("jump_tables", []):
                    targets.update(i + o for o in jt["offsets"])
        hw_entry = f.get("pwords") or f.get("nparam") or 0
        for i in range(first_branch):
            w = written_regs(code[i])
            if len(w): hw_entry = max(hw_entry, w[-1] + 1)
        hw = hw_entry
        for i, c in enumerate(code):
            if i >= first_branch and (i in targets or code[i - 1][0] in BRANCHES):
                hw = hw_entry                       # a new block: only the entry block certainly ran
            if c[0] == "GetUpValue" and i >= first_branch:
                w = written_regs(c)
                if len(w) and w[-1] + 1 > hw:
                    return True
            w = written_regs(c)
            if len(w) and i >= first_branch: hw = max(hw, w[-1] + 1)
    return False
