#!/usr/bin/env python3
"""For every registered check: which listed findings did the last run (log given as all_<id>.log dir) print a KNOWN-FINDING line for?"""
import os, re, sys, json
VERIF = os.path.dirname(os.path.dirname(os.path.abspath(__file__)))
logdir = sys.argv[1]
listed = {}
for l in open(os.path.join(VERIF, "KNOWN_FINDINGS.txt")):
    m = re.match(r"finding:\s+property=(C\d+)\s+id=(\S+)", l)
    if m: listed.setdefault(m.group(1), []).append(m.group(2))
for pid in sorted(listed):
    f = os.path.join(logdir, f"all_{pid}.log")
    if not os.path.exists(f):
        print(pid, "no log"); continue
    printed = set(re.findall(r"^KNOWN-FINDING: property=%s (\S+)" % pid, open(f).read(), re.M))
    miss = [i for i in listed[pid] if i not in printed]
    extra = [i for i in printed if i not in listed[pid]]
    print(pid, "listed", len(listed[pid]), "printed", len(printed), "NOT PRINTED:", miss, "UNLISTED:", extra)
