"""Programs OUTSIDE the Lmmm fragment whose feedback value (`self`) is wider than one word: tuple-, record- and sum-typed `self`
(first-order, so all state lives in the global storage), followed by further state cells (mem / delay / stateful calls, also
inside `if` arms).  No Coq model behind them.  Each generated case carries its EXPECTED output stream, computed by the small
reference evaluator below straight from the property text of C02 (call-by-value, one zero-initialised state per textual call
site, `self` = previous return value of that site, mem = previous argument, delay(n,x,t) = x from t samples earlier), so the
checks can evaluate on the real compiler
   * C05's clauses (H1 trace vs published skeleton, cursor home, storage = layout, VM words = WASM words) and
   * C02's clause (outputs = reference stream) on both backends.
All numbers are small integers (exact in f64).

A tiny expression language (python tuples):
  ("lit",k) ("var",name) ("now",) ("add",a,b) ("sub",a,b) ("mulk",a,k) ("gt",a,k)
  ("mem",site,e) ("delay",site,N,e,t) ("cnt",site,e) ("if",c,a,b)
`site` is a string unique inside the function body; the state key of a site is (call-site path, site).
"""


def pp(e):
    k = e[0]
    if k == "lit": return "%d.0" % e[1] if e[1] >= 0 else "(0.0 - %d.0)" % (-e[1])
    if k == "var": return e[1]
    if k == "now": return "now"
    if k == "add": return "(%s + %s)" % (pp(e[1]), pp(e[2]))
    if k == "sub": return "(%s - %s)" % (pp(e[1]), pp(e[2]))
    if k == "mulk": return "(%s * %d.0)" % (pp(e[1]), e[2])
    if k == "gt": return "(%s > %d.0)" % (pp(e[1]), e[2])
    if k == "mem": return "mem(%s)" % pp(e[2])
    if k == "delay": return "delay(%d.0, %s, %d.0)" % (e[2], pp(e[3]), e[4])
    if k == "cnt": return "cnt(%s)" % pp(e[2])
    if k == "if": return "(if (%s) { %s } else { %s })" % (pp(e[1]), pp(e[2]), pp(e[3]))
    raise ValueError(k)


def ev(e, env, st, path, now):
    k = e[0]
    if k == "lit": return e[1]
    if k == "var": return env[e[1]]
    if k == "now": return now
    if k == "add": return ev(e[1], env, st, path, now) + ev(e[2], env, st, path, now)
    if k == "sub": return ev(e[1], env, st, path, now) - ev(e[2], env, st, path, now)
    if k == "mulk": return ev(e[1], env, st, path, now) * e[2]
    if k == "gt": return 1 if ev(e[1], env, st, path, now) > e[2] else 0
    if k == "mem":
        v = ev(e[2], env, st, path, now)
        key = (path, e[1])
        prev = st.get(key, 0)
        st[key] = v
        return prev
    if k == "delay":
        v = ev(e[3], env, st, path, now)
        key = (path, e[1])
        h = st.setdefault(key, [])
        t = e[4]                      # 1 <= t <= N-1
        r = h[-t] if len(h) >= t else 0
        h.append(v)
        return r
    if k == "cnt":
        v = ev(e[2], env, st, path, now)
        key = (path, e[1])
        r = st.get(key, 0) + v
        st[key] = r
        return r
    if k == "if":
        c = ev(e[1], env, st, path, now)
        return ev(e[2], env, st, path, now) if c > 0 else ev(e[3], env, st, path, now)
    raise ValueError(k)


class Gen:
    def __init__(self, rng):
        self.rng = rng
        self.nsite = 0

    def site(self):
        self.nsite += 1
        return "s%d" % self.nsite

    def pure(self, vars_, d=0):
        r = self.rng
        k = r.below(6)
        if k == 0 or d > 1: return ("lit", r.range(0, 5))
        if k == 1 and vars_: return ("var", r.choice(vars_))
        if k == 2: return ("add", self.pure(vars_, d + 1), self.pure(vars_, d + 1))
        if k == 3 and vars_: return ("sub", ("var", r.choice(vars_)), ("lit", r.range(0, 3)))
        if k == 4 and vars_: return ("mulk", ("var", r.choice(vars_)), r.range(2, 3))
        return ("var", r.choice(vars_)) if vars_ else ("lit", 1)

    def stateful(self, vars_, allow_if=True):
        r = self.rng
        k = r.below(5 if allow_if else 3)
        if k == 0: return ("mem", self.site(), self.pure(vars_))
        if k == 1:
            n = r.range(2, 5)
            return ("delay", self.site(), n, self.pure(vars_), r.range(1, n - 1))
        if k == 2: return ("cnt", self.site(), ("lit", r.range(1, 3)))
        # stateful arms (the historically fragile part: each arm skips the other's cells)
        c = ("gt", ("var", r.choice(vars_)) if vars_ and r.chance(2, 3) else ("now",), r.range(0, 4))
        a = self.stateful(vars_, False) if r.chance(3, 4) else self.pure(vars_)
        b = self.stateful(vars_, False) if r.chance(3, 4) else self.pure(vars_)
        return ("if", c, a, b)


def gen_wide_fun(g, fi):
    """one stateful function whose `self` is wide.  Returns a dict describing it."""
    r = g.rng
    shape = r.choice(["tuple", "tuple", "record", "sum", "sum", "nested"])
    width = r.range(2, 4) if shape in ("tuple", "record") else 3
    comps = ["a%d" % i for i in range(width)] if shape != "sum" else ["p"]
    if shape == "nested":
        comps = ["a0", "a1", "a2"]
    vars_ = ["x"] + comps
    binds = []
    # where the extra cells sit relative to the use of self: before / after (self's cell is always the function's first cell)
    for i in range(r.range(0, 3)):
        nm = "e%d" % i
        binds.append((nm, g.stateful(vars_)))
        vars_.append(nm)
    if shape == "sum":
        cond = ("gt", ("var", r.choice(vars_)), r.range(0, 6))
        va = [g.pure(vars_)]                    # One(float)
        vb = [g.pure(vars_), g.pure(vars_)]     # Two((float,float))
        res = (cond, va, vb)
        nullary_first = r.chance(1, 3)          # type S = Zero | One(float) | Two((float,float)): zero-initialised self = Zero
    else:
        res = [("add", ("var", c), g.pure(vars_)) if r.chance(2, 3) else g.pure(vars_) for c in comps]
        nullary_first = False
    return {"i": fi, "shape": shape, "comps": comps, "binds": binds, "res": res, "nullary_first": nullary_first}


def pp_wide_fun(f):
    i, shape = f["i"], f["shape"]
    L = []
    if shape == "sum":
        tn = "S%d" % i
        vs = (["Zero%d" % i] if f["nullary_first"] else []) + ["One%d(float)" % i, "Two%d((float, float))" % i]
        L.append("type %s = %s" % (tn, " | ".join(vs)))
        arms = (["Zero%d => 0.0" % i] if f["nullary_first"] else []) + ["One%d(v) => v" % i, "Two%d((v, w)) => v * 7.0 + w" % i]
        L.append("fn red%d(s: %s) -> float {\n    match s { %s }\n}" % (i, tn, ", ".join(arms)))
        body = ["    let p = red%d(self)" % i]
        for nm, e in f["binds"]:
            body.append("    let %s = %s" % (nm, pp(e)))
        cond, va, vb = f["res"]
        body.append("    if (%s) { Two%d((%s, %s)) } else { One%d(%s) }" % (pp(cond), i, pp(vb[0]), pp(vb[1]), i, pp(va[0])))
        L.append("fn w%d(x: float) -> %s {\n%s\n}" % (i, tn, "\n".join(body)))
        return "\n".join(L)
    comps = f["comps"]
    if shape == "tuple":
        rty = "(" + ", ".join(["float"] * len(comps)) + ")"
        pat = "let (%s) = self" % ", ".join(comps)
        mk = lambda xs: "(" + ", ".join(xs) + ")"
        red = "let (%s) = v\n    %s" % (", ".join(comps), " + ".join("%s * %d.0" % (c, k + 1) for k, c in enumerate(comps)))
    elif shape == "nested":
        rty = "(float, (float, float))"
        pat = "let (a0, (a1, a2)) = self"
        mk = lambda xs: "(%s, (%s, %s))" % tuple(xs)
        red = "let (a0, (a1, a2)) = v\n    a0 + a1 * 2.0 + a2 * 3.0"
    else:
        rty = "{" + ", ".join("%s: float" % c for c in comps) + "}"
        pat = "let {%s} = self" % ", ".join("%s = %s" % (c, c) for c in comps)
        mk = lambda xs: "{" + ", ".join("%s = %s" % (c, x) for c, x in zip(comps, xs)) + "}"
        red = "let {%s} = v\n    %s" % (", ".join("%s = %s" % (c, c) for c in comps), " + ".join("%s * %d.0" % (c, k + 1) for k, c in enumerate(comps)))
    L.append("fn red%d(v: %s) -> float {\n    %s\n}" % (i, rty, red))
    body = ["    " + pat]
    for nm, e in f["binds"]:
        body.append("    let %s = %s" % (nm, pp(e)))
    body.append("    " + mk([pp(e) for e in f["res"]]))
    L.append("fn w%d(x: float) -> %s {\n%s\n}" % (i, rty, "\n".join(body)))
    return "\n".join(L)


def call_wide(f, x, st, path, now):
    """returns red(w(x)) for the call site `path`"""
    key = (path, "self")
    shape = f["shape"]
    if shape == "sum":
        prev = st.get(key, ("zero",))
        if prev[0] == "zero": p = 0
        elif prev[0] == "one": p = prev[1]
        else: p = prev[1] * 7 + prev[2]
        env = {"x": x, "p": p}
    else:
        prev = st.get(key, tuple(0 for _ in f["comps"]))
        env = {"x": x}
        env.update(dict(zip(f["comps"], prev)))
    for nm, e in f["binds"]:
        env[nm] = ev(e, env, st, path, now)
    if shape == "sum":
        cond, va, vb = f["res"]
        if ev(cond, env, st, path, now) > 0:
            new = ("two", ev(vb[0], env, st, path, now), ev(vb[1], env, st, path, now))
            out = new[1] * 7 + new[2]
        else:
            new = ("one", ev(va[0], env, st, path, now))
            out = new[1]
        st[key] = new
        return out
    new = tuple(ev(e, env, st, path, now) for e in f["res"])
    st[key] = new
    if shape == "nested":
        return new[0] + new[1] * 2 + new[2] * 3
    return sum(v * (k + 1) for k, v in enumerate(new))


def gen_case(rng, n_samples):
    """-> {"src": source text, "expect": [[out0, out1, ..] per sample], "shapes": [...]}"""
    g = Gen(rng)
    funs = [gen_wide_fun(g, i) for i in range(rng.range(1, 2))]
    # dsp: a few call sites (each owns its state), optionally inside an `if`, plus ordinary cells around them
    calls = []      # (kind, payload)
    nsite = rng.range(1, 3)
    outs = []
    lines = []
    dsp_binds = []
    for ci in range(nsite):
        f = rng.choice(funs)
        arg = rng.choice([("now",), ("add", ("now",), ("lit", rng.range(1, 3))), ("lit", rng.range(1, 4)), ("mulk", ("now",), 2)])
        guarded = rng.chance(1, 4)
        dsp_binds.append(("c%d" % ci, f, arg, guarded, rng.range(0, 5)))
    extra = g.stateful([], allow_if=False) if rng.chance(1, 2) else None
    src = ["fn cnt(i){ self + i }"] + [pp_wide_fun(f) for f in funs]
    body = []
    for nm, f, arg, guarded, thr in dsp_binds:
        call = "red%d(w%d(%s))" % (f["i"], f["i"], pp(arg))
        if guarded:
            body.append("    let %s = if (now > %d.0) { %s } else { 0.0 - 1.0 }" % (nm, thr, call))
        else:
            body.append("    let %s = %s" % (nm, call))
    if extra is not None:
        body.append("    let z = %s" % pp(extra))
    names = [b[0] for b in dsp_binds] + (["z"] if extra is not None else [])
    if len(names) >= 2 and rng.chance(1, 2):
        body.append("    (%s, %s)" % (names[0], " + ".join(names[1:])))
        two = True
    else:
        body.append("    " + " + ".join(names))
        two = False
    src.append("fn dsp(){\n%s\n}" % "\n".join(body))
    # reference stream
    st = {}
    expect = []
    for now in range(n_samples):
        vals = []
        for nm, f, arg, guarded, thr in dsp_binds:
            if guarded and not (now > thr):
                vals.append(-1)
                continue
            x = ev(arg, {}, st, ("dsp", nm, "arg"), now)
            vals.append(call_wide(f, x, st, ("dsp", nm), now))
        if extra is not None:
            vals.append(ev(extra, {}, st, ("dsp", "z"), now))
        expect.append([vals[0], sum(vals[1:])] if two else [sum(vals)])
    return {"src": "\n".join(src) + "\n", "expect": expect, "shapes": [f["shape"] for f in funs]}
