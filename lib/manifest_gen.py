#!/usr/bin/env python3
"""Regenerates /verif/MANIFEST.json from the table below (kept next to the checks so the two stay in sync)."""
import json, os
VERIF = os.path.dirname(os.path.dirname(os.path.abspath(__file__)))
PROPS = [json.loads(l)["id"] for l in open(os.path.join(VERIF, "properties.jsonl"))]

# id -> (category, engine, technique, level text, level note)
CHECKS = {
 "C08": ("proof", "coq-statetree", "machine-checked proof in Coq + extracted-model/implementation correspondence",
         "Coq theorems (all layout pairs, unbounded) over a complete Gallina transcription of the state-tree crate: same-shape, in-bounds, disjoint, order, zero-elsewhere, permutation-invariance, survivors (coverage, count and whole-subtree identity form); model tied to the crate by exhaustive small pairs + random edit-script pairs",
         "trusted: Coq kernel, extraction (ExtrOcamlBasic/ExtrOcamlString), OCaml driver, Rust harness, python clause oracle; usize overflow outside the model; defects F1/F1b repaired by fix: commits"),
 "C05": ("proof", "coq-lmmm", "machine-checked proof in Coq + trace/skeleton/state correspondence (hook H1)",
         "Coq: for every wf program of the Lmmm fragment and every run length, every state access of the compiled cursor machine hits exactly a cell of the published skeleton, cursor home after each dsp call, storage = layout size; compile/machine mirror mirgen.rs bookkeeping and vm.rs/wasm.rs primitives; tied to the code by skeleton/trace/cursor/words comparison",
         "fragment: named first-order functions, let, if (stateful arms allowed since fix F2), self, mem, delay, now, dsp input, tuple outputs; bytecodegen/wasmgen, closures' private storages, tuple-valued self not modelled; defects F2 F3 F12 repaired"),
 "C02": ("proof", "coq-lmmm", "machine-checked proof in Coq (semantic preservation; reference semantics for closures etc. with conservativity proof) + differential execution on VM and WASM against the extracted reference",
         "C02_preservation: compiled cursor machine = reference call-by-value semantics with per-call-site state tree, all wf fragment programs, all run lengths and inputs; ring-buffer refinement; real compiler tied by bit-exact outputs on both backends. EXTENSION (Props/C02_ext.v, theory Lmmx): a Coq reference semantics for the rest of the property's core language — closures that read and assign captured variables (cells captured by reference), closure instances owning their state, higher-order functions, function names as values, pipes, default and named arguments, tuples, records and destructuring — proved to conserve the first-order reference incl. the state tree (C02_ext_conservative, so C02_preservation speaks about the same semantics), fuel-monotone and deterministic, site-local in its state (C02_ext_site_state_local), with the sugar equations and instance-stability facts; the real compiler is compared with the extracted reference bit for bit on VM and WASM on generated well-typed programs. A third stream (wide self: tuple / record / sum-typed feedback values, python evaluator of the property text) covers multi-word state cells",
         "numbers restricted to integer-valued f64 (exact); lower.rs, convert_pronoun, typing, bytecodegen, wasmgen only through correspondence; preservation is PROVED for the first-order fragment only, closures etc. are specified in Coq and compared, not proved; capture-free stateful lambdas, tuple-valued self (python stream only), field assignment, recursion, `_` partial application outside the reference; known findings X1 X2 X5 X6 V1; defects F3 F13 F47 repaired"),
 "C06": ("proof", "coq-lmmm", "machine-checked proof in Coq + direct hot-swap execution on both runtimes",
         "C06_swap_identity/C06_swaps_identity over Lmmm machine + HotSwap model (plan None => clone); real VM new_resume and WASM try_hot_swap exercised at split points incl. 0 with k consecutive swaps, bit-identical to uninterrupted runs",
         "harness replicates mimium-cli's WASM payload preparation (CLI code itself not linked); defect F19 repaired"),
 "C07": ("proof", "coq-lmmm", "machine-checked proof in Coq + model-of-swap correspondence + standalone-voice oracle",
         "C07_untouched_voice_continues / C07_new_voice_fresh / C07_failed_edit_noop / C07_voice_local over Lmmm + HotSwap + StateTree (C08_survivors_whole gives the carried-patch hypothesis for voice insert/delete); real runtimes: edit histories over voice programs, every channel compared with the voice simulated alone",
         "theorem needs the hypothesis that a patch carries the voice's range (provided by C08_survivors_whole for top-level insert/delete); identically shaped siblings may exchange state (allowed by the property); known findings F24 (replaced site inherits cells), F25 (WASM channel count)"),
 "C01": ("other", "coq-lmmm", "Coq theorem for the modelled state layer + differential VM-vs-WASM search",
         "PARTIAL: C01_core_agree/C01_agree_unless_fault (VM-style and WASM-style state machines agree on every wf fragment program, every run length); beyond the model a search: bitwise VM vs WASM on generated first-order programs, programs with tuple/record parameters read across branches and recursion, stateful match arms, a FIXED stream of closure / higher-order / tuple / record / sum-type / array programs (generator of C18), all shipped sources and mutants, scheduler loaded",
         "bytecodegen.rs / wasmgen.rs lowering not modelled; known findings F17 F48 F62 F65 F13w X3 X4 W7 W8 W9; defects F3 F13 F15 F23 F46 F63 F64w repaired"),
 "C03": ("other", "coq-lmmm", "Coq safety theorem for the modelled state layer + verified bytecode verifier (translation validation of the real compiler's bytecode) + supervised crash oracle",
         "PARTIAL: C03_safety (no fault, accesses in bounds, declared output arity) for wf fragment programs on both disciplines. BYTECODE PART (Props/C03_bvm.v, theory Bvm): an executable Gallina model of the bytecode VM (vm.rs execute / call_function / return_general / StateStorage / ring buffer; one constructor per bytecode::Instruction variant, pinned each run) that runs the REAL compiler's bytecode and agrees with the real VM bit for bit per sample, and a bytecode VERIFIER with a machine-checked soundness theorem (C03_bvm_verified_safe / _main_safe / _session_safe: accepted bytecode never faults — stack, constants, function indices, jumps, globals, state storage — for any arithmetic, input and number of samples; dsp leaves exactly its declared words; storage = published size; cursor home; C03_bvm_fuel: explicit fuel bound). The verifier is run on the bytecode of every generated and shipped program: a rejection of compiler-emitted bytecode is a failing input covering ALL paths. Beyond that a crash oracle (panic/abort/SIGSEGV/timeout, H1 bounds) on accepted generated programs (first order, closures / boxes / scheduler tasks, wide self), near-miss mutants and shipped sources",
         "Rust unsafe memory safety not proved; closures/upvalues, heap boxes, arrays, integer instructions and machine integer widths outside the bytecode model (crash oracle only); WASM side by crash oracle only; compiler robustness defects recorded as known findings by panic site / construct class (F26 F30 F31 F37-F41 F61 F64 X7; F3 F4 F33 F34 F36 repaired)"),
 "C20": ("proof", "coq-fficodec", "machine-checked proof in Coq + byte-level correspondence + tables regenerated from source",
         "round-trip / refusal theorems for FfiValue, Value, Type and macro args over a byte-level model of bincode 1.3 and the hand-written serde; variant tables regenerated from the Rust source each run",
         "bincode/serde derive/slotmap/string-interner modelled not verified; keys and ids session-local; known finding F10 (ErrorV -> Unit)"),
 "C11": ("proof", "coq-sched", "machine-checked proof in Coq + task-set correspondence on VM and WASM",
         "exactly-once-at-its-sample theorems for both schedulers and backend agreement for any task multiset, any tie order, any rescheduling chain; correspondence on generated task sets through real programs",
         "mpsc channel modelled as FIFO drained atomically; known finding (C11/F13 wasm tick-allocated closure)"),
 "C17": ("proof", "coq-modules", "machine-checked proof in Coq + resolution-pass correspondence",
         "resolution pass proved private-route-free and path-faithful for inline module trees under three decidable restrictions; local shadowing; four routes refuted with witnesses",
         "external file modules, type aliases in modules, macros not modelled; known findings F8 F9 F17a F17b"),
 "C13": ("proof", "coq-lexer", "machine-checked proof in Coq + exhaustive short-string correspondence",
         "tiling / re-split / trivia-once theorems for every input and every character classification over a transcription of tokenizer.rs + preparser.rs with tables regenerated from source; CST-leaves clause: theorem C13_cst_leaves over the complete parser model (Props/C04.v, rebuilt by the C04 check) and checked on the real code here",
         "chumsky combinator semantics trusted as transcribed; known finding F5"),
 "C09": ("proof", "coq-staging", "machine-checked proof in Coq + expanded-AST / output correspondence + tables regenerated from source",
         "quote/splice identity, whole-program expansion agreement, f!(a) = splice of f(a), exact lifting, combinator arity tables (regenerated from translate_staging.rs / codegen_combinators.rs) over a transcription of the staging translation and the stage-0 combinator evaluator",
         "no Coq semantics of main-stage code (normal form vs original meaning covered by output comparison); plugin macros, stage-0 type checker outside the model; known findings F27 F28; F19 (half-float immediates) repaired"),
 "C10": ("proof", "coq-staging", "machine-checked proof in Coq (refutation + restricted theorem) + renaming correspondence",
         "hygiene is REFUTED on the code (C10_hygiene_refuted, witness replayed on the real compiler) and proved under the freshness restriction (C10_hygiene_fresh, expansion commutes with renaming)",
         "alpha-equivalence of main-stage code not mechanised; known finding F7"),
 "C16": ("other", "coq-lmmm", "Coq alpha-invariance theorems for the fragment + source-to-source transformation search",
         "PARTIAL: C16_alpha_ref / C16_alpha_machine (reference semantics, compiled machine and published skeleton invariant under injective renaming of variables and functions, all programs / all wf programs); on the real compiler: renaming to arbitrary and compiler-looking names, redundant parentheses, layout/comments inside brackets, agreeing annotations on generated programs and shipped sources, both backends",
         "parser layout sensitivity and type inference not modelled (search only); known findings F43 F44 F45; defect F14 repaired"),
 "C15": ("other", "coq-interner", "Coq theorems for the interner/arena model and the order-insensitive idioms + site audit regenerated from source + differential compilation",
         "PARTIAL (narrow): history independence of any symbol program (logical relation), sort-on-unique-keys and running-maximum permutation invariance, every HashMap/HashSet iteration site found by the translator is classified (finite audit regenerated from source); beyond that a differential search: same source compiled alone, after shuffled histories and in 8 fresh processes must give byte-identical Mir, bytecode, WASM, skeleton, outputs, diagnostics",
         "that the compiler uses symbols only through intern/equality/resolve is not proved; hash containers with inferred types are invisible to the regex translator; defects F20-F23 repaired by fix: commits"),
 "C19": ("other", "coq-interner", "Coq interleaving theorem for the interner model + multi-threaded differential runs",
         "PARTIAL (narrow): for every history, thread set and schedule each thread's observations equal its solo run (atomic interner operations), split lookup/insert refuted, env-var register race exhibited; real threads (K = 2..16) compile and run distinct/identical sources and are compared with solo runs, deadlock = timeout",
         "real schedules are sampled, Mutex atomicity trusted; known finding F11 (env var); defect F24 (dangling as_str) repaired"),
 "C04": ("other", "coq-parser", "machine-checked proof in Coq for tokenizer, preparser and the complete CST parser + supervised totality oracle on all compile entry points",
         "PROVED: the scanner, preparser (Lexer theory, C04_lex_total …) and a complete model of cst_parser.rs never run out of fuel 12(n+1), never panic, every error index is inside the input and its span lies on character boundaries (given C13_tiling), CST leaves = token indices (C13_cst_leaves). NOT modelled: lowering, type checker, code generators — for these a supervised crash/hang/span oracle on exhaustive short token sequences, grammar-generated and mutated programs, all shipped sources, random Unicode",
         "type checking and compile entry points only by oracle; stated nesting bound 200; 14 known findings (panics on erroneous or unusual text, identified by panic site + construct); F40 F45 F46 F47 F51 F52 F53 repaired"),
 "C12": ("other", "coq-heap", "Coq theorems for the heap/closure model (verified monitor) + event-log replay (hook H2) + steady-state counting",
         "PARTIAL: heap invariant (present iff allocs+retains > releases), soundness of the executable monitor `balanced` (accepted trace => no use after release, live set = positive counts), steady state for balanced net-zero periods, closure-layer operations replayed by the monitor; real VM: H2 event logs of ~450 programs replayed by the extracted monitor, closures.len()/heap.len() at N/2, N, 2N. the steady-state sentence is REFUTED on the current tree (C12_steady_state_refuted) and recorded as findings",
         "compiled programs are not proved to emit balanced traces (they do not); WASM heap observed through outputs only; known findings F22 F23 F24 (F21 and the use-after-release F25 repaired)"),
 "C18": ("other", "coq-rustrt", "Coq theorems for the runtime scaffold's state primitives (pinned to the template text) + three-way execution (rustc-compiled output vs VM vs reference semantics)",
         "PARTIAL: the template's StateStorage push/pop/get/set/mem/delay (regenerated and pinned from mimium_placeholder.rs.template each run) equal the cursor machine's VM-discipline primitives on every state and every operation sequence where the machine is defined (C18_template_prims_agree), and its grow-on-demand discipline except zero-length ring buffers; so C02_preservation carries over to the state layer of generated Rust. rustgen.rs itself is NOT modelled: emitted Rust for the 134 fixtures, a function-name pool, plugin probes and two program generators (first-order three-way; closures/HOF/tuples/records/sum types/match/arrays two-way) is compiled with rustc and compared bit for bit with the real VM; clause (c): refused or failing late with the missing external named",
         "rustgen.rs lowering, the closure/array/memory-store runtime of the template and hot swap only by comparison; known findings F22 F26 F27 F28 (F20 F21 F23 F24 repaired)"),
 "C14": ("other", "coq-fmt", "Coq theorems over all admissible layouts of the formatter's documents (fragment) + direct checking of the three facts on the real formatter",
         "PARTIAL: for the expression/statement fragment every rendering of a document has the source's token and comment sequence, and under `safe_breaks` every rendering gives the parser the same line-break flags at every sensitive position (hence every width and indent parses alike); idempotence given the re-parse hypothesis; nine positive examples for the repaired defect classes. Real formatter: output re-parses to the same AST, same comment sequence, fixed point — on generated programs, all shipped sources and layout mutants at 5 widths x 2 indents",
         "`pretty`'s width algorithm not modelled; match / type declarations / modules outside the model; eleven printer defects repaired by fix: commits (all 263 valid shipped files now satisfy the three facts); known finding FM10 (parser)"),
}
PENDING_REASON = "check under construction in this session (see DESIGN.md section 4); not yet claimed"

def main():
    man = {"version": 1, "setup_cmd": "./check setup",
           "hooks": {"guard": "--cfg mimium_verif",
                     "enable": "RUSTFLAGS=\"--cfg mimium_verif\" cargo build --offline (harness crates under /verif/harness with path dependencies on /repo)",
                     "baseline_off_cmd": "cd /repo && (cargo nextest run --workspace --no-fail-fast --test-threads 8 --offline || cargo test --workspace --no-fail-fast --offline)",
                     "source_commits": ["856382e", "9469074"], "add_only": True},
           "engines": [], "checks": [], "notes": "see DESIGN.md; ./check <id> --tier quick|thorough [--replay file]", "not_applicable": []}
    engines = {}
    for pid in PROPS:
        if pid in CHECKS:
            cat, eng, tech, text, note = CHECKS[pid]
            engines.setdefault(eng, []).append(pid)
            man["checks"].append({"property_id": pid, "quick_cmd": f"./check {pid} --tier quick", "thorough_cmd": f"./check {pid} --tier thorough",
                                  "evidence_file": f"/verif/evidence/{pid}.json", "replay_cmd_template": f"./check {pid} --replay {{path}}", "engine": eng,
                                  "level_claimed": {"category": cat, "text": text, "design_ref": f"DESIGN.md section 4, {pid}"},
                                  "level_note": note, "technique": tech})
        else:
            man["not_applicable"].append({"property_id": pid, "reason": PENDING_REASON})
    for e, ps in engines.items():
        man["engines"].append({"name": e, "path": "coq/theories", "serves_properties": ps, "kind_free_text": "Gallina model + Coq proofs + extracted OCaml driver vs Rust harness"})
    json.dump(man, open(os.path.join(VERIF, "MANIFEST.json"), "w"), indent=1)
    # per-property table of DESIGN.md section 0.7
    import re
    rows = ["| id | level | technique | what the claim covers | assumed / not covered / findings |", "|---|---|---|---|---|"]
    for pid in PROPS:
        if pid in CHECKS:
            cat, eng, tech, text, note = CHECKS[pid]
            rows.append(f"| {pid} | {cat} | {tech} | {text} | {note} |")
        else:
            rows.append(f"| {pid} | — | — | not claimed yet | {PENDING_REASON} |")
    dp = os.path.join(VERIF, "DESIGN.md")
    d = open(dp).read()
    if "<!-- PROP_TABLE_BEGIN -->" in d:
        d = re.sub(r"(<!-- PROP_TABLE_BEGIN -->).*?(<!-- PROP_TABLE_END -->)", lambda m: m.group(1) + "\n" + "\n".join(rows) + "\n" + m.group(2), d, flags=re.S)
        open(dp, "w").write(d)

if __name__ == "__main__":
    main()
