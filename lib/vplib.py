#!/usr/bin/env python3
"""Shared machinery for the /verif checks (see DESIGN.md section 2).

A check is a python module checks/Cxx.py with a function `run(ck: Check)`.
`./check Cxx --tier quick|thorough [--replay file]` drives it.
"""
import argparse, fcntl, hashlib, importlib.util, json, os, re, shutil, subprocess, sys, time
from contextlib import contextmanager

VERIF = os.path.dirname(os.path.dirname(os.path.abspath(__file__)))
REPO = os.environ.get("VERIF_REPO", "/repo")
CACHE = os.path.join(VERIF, ".cache")
COQ = os.path.join(VERIF, "coq")
ALT = os.path.realpath(REPO) != "/repo"
if ALT:
    # mutation self-tests against a private checkout: tables are regenerated from THAT checkout, so the whole Coq
    # development is built in a private copy (the shared coq/ tree must keep the tables of the real /repo)
    _tag = hashlib.sha256(os.path.realpath(REPO).encode()).hexdigest()[:10]
    COQ = os.path.join(CACHE, "alt", _tag, "coq")
    os.makedirs(os.path.dirname(COQ), exist_ok=True)
    subprocess.run(["rsync", "-a", "--delete", "--exclude", "theories/Tables/*.v", "--exclude", "Makefile*", "--exclude", ".Makefile*",
                    "--exclude", "_CoqProject", os.path.join(VERIF, "coq") + "/", COQ + "/"], check=False)
# a run against a private checkout keeps its evidence and replay files apart from those of the real /repo
OUT = os.path.join(CACHE, "alt", _tag) if ALT else VERIF
HOOK_CFG = "mimium_verif"
NPROC = os.cpu_count() or 4


def coq_jobs():
    """parallel coqc jobs: one per core but never more than the available memory allows (~0.8 GB per coqc here)"""
    try:
        avail_kb = int([l for l in open("/proc/meminfo") if l.startswith("MemAvailable")][0].split()[1])
        cg = "/sys/fs/cgroup/memory.max"
        if os.path.exists(cg):
            v = open(cg).read().strip()
            if v.isdigit():
                avail_kb = min(avail_kb, int(v) // 1024)
        return max(1, min(NPROC, avail_kb // (900 * 1024)))
    except Exception:
        return min(NPROC, 4)

OFFLINE_ENV = {"CARGO_NET_OFFLINE": "true", "GOPROXY": "off", "PIP_NO_INDEX": "1"}

FORBIDDEN = [r"\bAdmitted\b", r"\badmit\b", r"\bAxiom\b", r"\bAxioms\b", r"\bParameter\b", r"\bParameters\b",
             r"\bConjecture\b", r"Unset\s+Guard", r"bypass_check", r"type-in-type",
             r"Admit\s+Obligations", r"impredicative-set", r"Unset\s+Positivity", r"Unset\s+Universe",
             r"\bgive_up\b"]


def log(*a):
    print("[verif]", *a, file=sys.stderr, flush=True)


@contextmanager
def flock(name):
    os.makedirs(CACHE, exist_ok=True)
    f = open(os.path.join(CACHE, name + ".lock"), "w")
    fcntl.flock(f, fcntl.LOCK_EX)
    try:
        yield
    finally:
        fcntl.flock(f, fcntl.LOCK_UN)
        f.close()


def sh(cmd, cwd=None, timeout=None, env=None, input=None):
    e = dict(os.environ)
    e.update(OFFLINE_ENV)
    if env:
        e.update(env)
    t0 = time.time()
    try:
        p = subprocess.run(cmd, cwd=cwd, env=e, input=input, stdout=subprocess.PIPE, stderr=subprocess.STDOUT,
                           timeout=timeout, shell=isinstance(cmd, str), text=True, errors="replace")
        return p.returncode, p.stdout, time.time() - t0
    except subprocess.TimeoutExpired as ex:
        out = ex.stdout or ""
        if isinstance(out, bytes):
            out = out.decode(errors="replace")
        return 124, out + "\n[TIMEOUT]", time.time() - t0


def write_if_changed(path, content):
    os.makedirs(os.path.dirname(path), exist_ok=True)
    try:
        if open(path).read() == content:
            return False
    except FileNotFoundError:
        pass
    with open(path, "w") as f:
        f.write(content)
    return True


# --------------------------------------------------------------------------
# SplitMix64 PRNG: every random choice of every check derives from VERIF_SEED
# --------------------------------------------------------------------------
class Rng:
    M = (1 << 64) - 1

    def __init__(self, seed):
        self.s = seed & self.M

    def next(self):
        self.s = (self.s + 0x9E3779B97F4A7C15) & self.M
        z = self.s
        z = ((z ^ (z >> 30)) * 0xBF58476D1CE4E5B9) & self.M
        z = ((z ^ (z >> 27)) * 0x94D049BB133111EB) & self.M
        return z ^ (z >> 31)

    def below(self, n):
        return self.next() % n if n > 0 else 0

    def range(self, a, b):  # inclusive
        return a + self.below(b - a + 1)

    def choice(self, xs):
        return xs[self.below(len(xs))]

    def chance(self, num, den):
        return self.below(den) < num

    def fork(self, tag):
        h = int.from_bytes(hashlib.sha256(f"{self.s}:{tag}".encode()).digest()[:8], "little")
        return Rng(h)


# --------------------------------------------------------------------------
# Coq side
# --------------------------------------------------------------------------
def strip_coq_comments(src):
    out, depth, i, n = [], 0, 0, len(src)
    in_str = False
    while i < n:
        if not in_str and src.startswith("(*", i):
            depth += 1
            i += 2
            continue
        if not in_str and depth > 0 and src.startswith("*)", i):
            depth -= 1
            i += 2
            continue
        c = src[i]
        if depth == 0:
            if c == '"':
                in_str = not in_str
            out.append(c)
        elif c == "\n":
            out.append(c)
        i += 1
    return "".join(out)


def load_translators():
    mods = []
    tdir = os.path.join(VERIF, "translators")
    for fn in sorted(os.listdir(tdir)):
        if fn.endswith(".py"):
            spec = importlib.util.spec_from_file_location("tr_" + fn[:-3], os.path.join(tdir, fn))
            m = importlib.util.module_from_spec(spec)
            spec.loader.exec_module(m)
            mods.append((fn[:-3], m))
    return mods


# every translators/<name>.py defines TARGET = "<File>.v" (under coq/theories/Tables) and generate(repo) -> str


def regen_tables(only=None):
    """Regenerate Tables/*.v from /repo's working tree. Returns list of (name, error)."""
    errs = []
    for name, mod in load_translators():
        if not hasattr(mod, "TARGET"):
            continue
        if only is not None and name not in only:
            continue
        target = os.path.join(COQ, "theories", "Tables", mod.TARGET)
        try:
            content = mod.generate(REPO)
            write_if_changed(target, content)
        except Exception as ex:  # translator refuses to emit a partial table
            errs.append((name, str(ex)))
            # a stale table must not let the proofs pass: poison it
            write_if_changed(target, "(* translator failed: %s *)\nFail Fail Definition translator_failed := 0.\n"
                             "Definition translator_failed : True := 0.\n" % str(ex).replace("*)", "* )"))
    return errs


def coq_files():
    out = []
    for root, _, files in os.walk(os.path.join(COQ, "theories")):
        for fn in files:
            if fn.endswith(".v"):
                out.append(os.path.relpath(os.path.join(root, fn), COQ))
    return sorted(out)


def coq_prepare():
    files = coq_files()
    proj = "-Q theories Mimium\n-arg -w -arg -notation-overridden,-deprecated-hint-without-locality,-deprecated-instance-without-locality\n" + "\n".join(files) + "\n"
    changed = write_if_changed(os.path.join(COQ, "_CoqProject"), proj)
    if changed or not os.path.exists(os.path.join(COQ, "Makefile")):
        rc, out, _ = sh(["coq_makefile", "-f", "_CoqProject", "-o", "Makefile"], cwd=COQ, timeout=120)
        if rc != 0:
            raise RuntimeError("coq_makefile failed:\n" + out)


def vo_deps_fresh(target):
    """True when `target` (.vo) exists and is newer than every .v it transitively depends on (per coqdep's .Makefile.d);
    used to avoid waiting for the shared build lock when nothing has to be rebuilt."""
    vo = os.path.join(COQ, target)
    dfile = os.path.join(COQ, ".Makefile.d")
    if not (os.path.exists(vo) and os.path.exists(dfile)):
        return False
    deps = {}
    for line in open(dfile):
        if ":" not in line:
            continue
        lhs, rhs = line.split(":", 1)
        for t in lhs.split():
            if t.endswith(".vo"):
                deps[t] = [d for d in rhs.split() if d.endswith(".v") or d.endswith(".vo")]
    seen, todo = set(), [target]
    mt = os.path.getmtime(vo)
    while todo:
        t = todo.pop()
        if t in seen:
            continue
        seen.add(t)
        if t not in deps:
            return False
        for d in deps[t]:
            if d.endswith(".v"):
                pth = os.path.join(COQ, d)
                if not os.path.exists(pth) or os.path.getmtime(pth) > mt:
                    return False
            elif d.startswith("theories/"):
                todo.append(d)
    return True


def coq_make(targets, timeout=1500):
    """Full .vo build (never -vos) of the given targets, e.g. theories/Props/C08.vo."""
    if all(t.endswith(".vo") and vo_deps_fresh(t) for t in targets):
        return 0, "up to date", 0.0
    with flock("coq"):
        coq_prepare()
        rc, out, dt = sh(["make", "-j%d" % coq_jobs(), "-k"] + list(targets), cwd=COQ, timeout=timeout)
    return rc, out, dt


def coq_audit_sources():
    """grep the whole development (comments stripped) for forbidden constructs."""
    hits = []
    for rel in coq_files():
        if rel.startswith("theories/Tables/"):
            pass
        src = strip_coq_comments(open(os.path.join(COQ, rel)).read())
        depth = 0
        for ln, line in enumerate(src.split("\n"), 1):
            if re.match(r"\s*(Section|Module\s+Type)\b", line):
                depth += 1
            if re.match(r"\s*End\b", line) and depth > 0:
                depth -= 1
            for pat in FORBIDDEN:
                if re.search(pat, line):
                    hits.append(f"{rel}:{ln}: {line.strip()[:120]}")
            if depth == 0 and re.match(r"\s*(Variable|Variables|Hypothesis|Hypotheses|Context)\b", line):
                hits.append(f"{rel}:{ln}: (outside section) {line.strip()[:120]}")
    return hits


def props_theorems(pid):
    """Names of the Theorem/Example statements in Props/<pid>.v"""
    path = os.path.join(COQ, "theories", "Props", pid + ".v")
    src = strip_coq_comments(open(path).read())
    thms = re.findall(r"^\s*Theorem\s+(\w+)", src, re.M)
    exs = re.findall(r"^\s*Example\s+(\w+)", src, re.M)
    return thms, exs


def coq_print_assumptions(pid, names):
    """Run coqc on a generated audit file; returns {name: [axiom names]} or raises."""
    d = os.path.join(CACHE, "audit")
    os.makedirs(d, exist_ok=True)
    path = os.path.join(d, f"Audit_{pid}.v")
    lines = [f"From Mimium Require Import Props.{pid}."]
    for nm in names:
        lines.append(f'Goal True. idtac "@@MARK {nm}". Abort.')
        lines.append(f"Print Assumptions {nm}.")
    lines.append('Goal True. idtac "@@END". Abort.')
    open(path, "w").write("\n".join(lines) + "\n")
    rc, out, _ = sh(["coqc", "-noglob", "-Q", os.path.join(COQ, "theories"), "Mimium", path], cwd=d, timeout=600)
    if rc != 0:
        raise RuntimeError("audit coqc failed:\n" + out[-3000:])
    res, cur = {}, None
    for line in out.split("\n"):
        m = re.match(r"@@MARK (\w+)", line)
        if m:
            cur = m.group(1)
            res[cur] = []
            continue
        if line.startswith("@@END"):
            cur = None
            continue
        if cur is None:
            continue
        if "Closed under the global context" in line or line.strip() in ("Axioms:", ""):
            continue
        m = re.match(r"^([A-Za-z_][\w.']*)\s*:", line)
        if m:
            res[cur].append(m.group(1))
    return res


def first_coq_error(out):
    m = re.search(r'File "([^"]+)", line (\d+), characters[^\n]*\n(?:.*\n)*?Error:[^\n]*(?:\n(?![A-Z]|make)[^\n]*){0,6}', out)
    return m.group(0)[:1500] if m else out[-1500:]


def theorem_at(file_rel, line):
    """Name of the Lemma/Theorem enclosing `line` in a Coq file."""
    try:
        src = open(os.path.join(COQ, file_rel)).read().split("\n")
    except OSError:
        return None
    for i in range(min(line, len(src)) - 1, -1, -1):
        m = re.match(r"\s*(?:Local\s+|Global\s+)?(Theorem|Lemma|Example|Corollary|Definition|Fixpoint|Fact|Remark|Proposition)\s+(\w+)", src[i])
        if m:
            return m.group(2)
    return None


# --------------------------------------------------------------------------
# Rust harness / OCaml drivers
# --------------------------------------------------------------------------
def cargo_build(crate, bins=None, hooks=True, release=False, timeout=3000):
    """Build harness crate `crate` (dir under /verif/harness) against the repository's working tree.
    With VERIF_REPO=<other checkout> (mutation self-tests in a private worktree) a copy of the harness crate with its path
    dependencies redirected to that checkout is built in a separate target directory."""
    cdir = os.path.join(VERIF, "harness", crate)
    tdir = os.path.join(CACHE, "target", crate)
    if os.path.realpath(REPO) != "/repo":
        tag = hashlib.sha256(os.path.realpath(REPO).encode()).hexdigest()[:10]
        alt = os.path.join(CACHE, "alt", tag, crate)
        if os.path.exists(alt):
            shutil.rmtree(alt)
        shutil.copytree(cdir, alt, ignore=shutil.ignore_patterns("target", "Cargo.lock"))
        ct = os.path.join(alt, "Cargo.toml")
        txt = open(ct).read()
        open(ct, "w").write(txt.replace('"/repo/', '"' + os.path.realpath(REPO) + '/'))
        cdir = alt
        tdir = os.path.join(CACHE, "alt", tag, "target-" + crate)
    os.makedirs(tdir, exist_ok=True)
    with flock("cargo-" + crate + ("" if os.path.realpath(REPO) == "/repo" else "-" + os.path.basename(os.path.dirname(cdir)))):
        lock_src = os.path.join(REPO, "Cargo.lock")
        lock_dst = os.path.join(cdir, "Cargo.lock")
        if not os.path.exists(lock_dst):
            shutil.copy(lock_src, lock_dst)
        cmd = ["cargo", "build", "--offline"]
        if release:
            cmd.append("--release")
        for b in bins or []:
            cmd += ["--bin", b]
        env = {"CARGO_TARGET_DIR": tdir}
        if hooks:
            env["RUSTFLAGS"] = f"--cfg {HOOK_CFG} -Awarnings"
        else:
            env["RUSTFLAGS"] = "-Awarnings"
        rc, out, dt = sh(cmd, cwd=cdir, env=env, timeout=timeout)
        if rc != 0 and "Cargo.lock" in out and ("needs to be updated" in out or "lock file" in out):
            shutil.copy(lock_src, lock_dst)
            rc, out, dt = sh(cmd, cwd=cdir, env=env, timeout=timeout)
    return rc, out, os.path.join(tdir, "release" if release else "debug")


def ocaml_build(name, extracted, driver):
    """Compile extracted module(s) + driver with ocamlfind ocamlopt into .cache/ocaml/<name>/<name>.
    `extracted`: list of basenames (without extension) of files produced in coq/ by Extraction."""
    d = os.path.join(CACHE, "ocaml", name)
    os.makedirs(d, exist_ok=True)
    with flock("ocaml-" + name):
        srcs = []
        for base in extracted:
            for ext in (".mli", ".ml"):
                p = os.path.join(COQ, base + ext)
                if not os.path.exists(p):
                    return 1, f"extracted file {p} missing", None
                write_if_changed(os.path.join(d, base + ext), open(p).read())
                srcs.append(base + ext)
        write_if_changed(os.path.join(d, os.path.basename(driver)), open(driver).read())
        srcs.append(os.path.basename(driver))
        exe = os.path.join(d, name)
        newest = max(os.path.getmtime(os.path.join(d, s)) for s in srcs)
        if os.path.exists(exe) and os.path.getmtime(exe) >= newest:
            return 0, "", exe
        rc, out, _ = sh(["ocamlfind", "ocamlopt", "-O2", "-w", "-a", "-o", exe] + srcs, cwd=d, timeout=900)
        if rc != 0:
            rc, out, _ = sh(["ocamlfind", "ocamlopt", "-w", "-a", "-o", exe] + srcs, cwd=d, timeout=900)
    return rc, out, exe


# --------------------------------------------------------------------------
# Known findings
# --------------------------------------------------------------------------
def known_findings(pid):
    """Entries of KNOWN_FINDINGS.txt for a property: list of dicts {id, cls, text}. `fixed:` lines suppress nothing."""
    res = []
    path = os.path.join(VERIF, "KNOWN_FINDINGS.txt")
    if not os.path.exists(path):
        return res
    for line in open(path):
        line = line.strip()
        m = re.match(r"finding:\s+property=(\w+)\s+id=(\w+)\s+class=(\S+)\s+(.*)", line)
        if m and m.group(1) == pid:
            res.append({"id": m.group(2), "cls": m.group(3), "text": m.group(4)})
    return res


# --------------------------------------------------------------------------
# The check object
# --------------------------------------------------------------------------
class Check:
    def __init__(self, pid, argv=None):
        ap = argparse.ArgumentParser()
        ap.add_argument("--tier", default=os.environ.get("VERIF_TIER", "quick"), choices=["quick", "thorough"])
        ap.add_argument("--replay", default=None)
        a = ap.parse_args(argv)
        self.pid = pid
        self.tier = a.tier
        self.replay = a.replay
        try:
            self.seed = int(os.environ.get("VERIF_SEED", "0"))
        except ValueError:
            self.seed = 0
        self.rng = Rng(self.seed)
        self.t0 = time.time()
        self.level = "proof"
        self.coverage = {"samples": []}
        self.assumptions = []
        self.violations = []   # (replay_path, no_input)
        self.known_printed = set()
        self.obligations = 0
        self.discharged = 0
        self.broken = []       # names of theorems / correspondences that no longer check
        if not self.replay:
            shutil.rmtree(os.path.join(OUT, "replay", self.pid), ignore_errors=True)

    # -- evidence ---------------------------------------------------------
    def sample(self, x, cap=6):
        if len(self.coverage["samples"]) < cap:
            self.coverage["samples"].append(x)

    def add(self, key, n=1):
        self.coverage[key] = self.coverage.get(key, 0) + n

    # -- violations ---------------------------------------------------------
    def violation(self, what, replay_obj, no_input=False):
        d = os.path.join(OUT, "replay", self.pid)
        os.makedirs(d, exist_ok=True)
        body = json.dumps({"property": self.pid, "what": what, "no_failing_input_found": no_input,
                           "tier": self.tier, "seed": self.seed, "replay": replay_obj}, indent=1, sort_keys=True)
        h = hashlib.sha256(body.encode()).hexdigest()[:12]
        path = os.path.join(d, h + ".json")
        open(path, "w").write(body + "\n")
        self.violations.append((path, no_input))
        print(f"VIOLATION property={self.pid} replay={path}" + (" no-failing-input-found" if no_input else ""), flush=True)

    def known(self, finding, detail):
        key = finding["id"]
        if key not in self.known_printed:
            self.known_printed.add(key)
            print(f"KNOWN-FINDING: property={self.pid} {finding['id']} {finding['text']} [e.g. {detail}]", flush=True)

    # -- coq ------------------------------------------------------------
    def prove(self, allow_axioms=(), tables=None, extra_targets=()):
        """Regenerate tables, build Props/<pid>.vo (full proofs), audit. Returns True when every
        obligation is discharged; otherwise records the broken obligations in self.broken."""
        pid = self.pid
        if os.environ.get("VERIF_DEV_NOPROVE") == "1":   # development only: exercise the correspondence part alone
            regen_tables(tables)
            self.coverage["dev_noprove"] = True
            self.broken.append("dev: proofs not checked (VERIF_DEV_NOPROVE)")
            return True
        terrs = regen_tables(tables)
        for name, err in terrs:
            self.broken.append(f"translator:{name}: {err}")
        target = f"theories/Props/{pid}.vo"
        rc, out, dt = coq_make([target] + list(extra_targets))
        self.coverage["coq_build_s"] = round(dt, 1)
        thms, exs = props_theorems(pid)
        self.obligations = len(thms) + len(exs)
        self.coverage["theorems"] = thms
        self.coverage["examples"] = exs
        checker = f"cd {COQ} && coq_makefile -f _CoqProject -o Makefile && make -j{NPROC} {target}  # coqc 8.16.1 full .vo build, then Print Assumptions per theorem"
        self.coverage["checker_cmd"] = checker
        if rc != 0:
            err = first_coq_error(out)
            m = re.search(r'File "\./?([^"]+)", line (\d+)', err)
            nm = theorem_at(m.group(1), int(m.group(2))) if m else None
            self.broken.append(f"coq:{m.group(1) if m else '?'}:{nm or '?'}: " + err.replace("\n", " | ")[:600])
            self.discharged = 0
            log("coq build failed:\n" + err)
            return False
        hits = coq_audit_sources()
        if hits:
            self.broken.append("audit: forbidden construct: " + "; ".join(hits[:5]))
            return False
        try:
            ax = coq_print_assumptions(pid, thms)
        except RuntimeError as ex:
            self.broken.append("audit: " + str(ex)[:500])
            return False
        self.coverage["print_assumptions"] = {k: (v or ["Closed under the global context"]) for k, v in ax.items()}
        bad = {k: [a for a in v if a not in allow_axioms] for k, v in ax.items()}
        bad = {k: v for k, v in bad.items() if v}
        if bad or set(ax) != set(thms):
            self.broken.append("audit: unexpected axioms " + json.dumps(bad))
            return False
        self.discharged = self.obligations
        if self.tier == "thorough":
            # independent re-check of the compiled theorems and everything they depend on
            rc, out, dt = sh(["coqchk", "-o", "-silent", "-Q", "theories", "Mimium", f"Mimium.Props.{pid}"], cwd=COQ, timeout=1800)
            m = re.search(r"\* Axioms:(.*?)\n\s*\n", out + "\n\n", re.S)
            axioms = [a.strip() for a in (m.group(1) if m else "?").split("\n") if a.strip()]
            self.coverage["coqchk"] = {"rc": rc, "wall_s": round(dt, 1), "axioms": axioms}
            bad = [a for a in axioms if a != "<none>" and not any(a.startswith(x) for x in allow_axioms)]
            if rc != 0 or bad:
                self.broken.append("coqchk: rc=%s axioms=%s" % (rc, bad))
                return False
        return len(self.broken) == 0

    # -- finish -----------------------------------------------------------
    def finish(self, explanation, trusted_base, rule=None):
        cov = self.coverage
        cov["obligations"] = self.obligations
        cov["discharged"] = self.discharged
        cov.setdefault("checker_cmd", "n/a")
        cov["trusted_base"] = trusted_base
        cov["explanation"] = explanation
        if rule:
            cov["rule"] = rule
        cov.setdefault("evaluations", 0)
        cov.setdefault("distinct_nontrivial", 0)
        cov["broken_obligations"] = self.broken
        # the evidence level is the level claimed for this property in MANIFEST.json (single source: lib/manifest_gen.py)
        try:
            man = json.load(open(os.path.join(VERIF, "MANIFEST.json")))
            for c in man.get("checks", []):
                if c["property_id"] == self.pid:
                    self.level = c["level_claimed"]["category"]
        except Exception:
            pass
        cov["known_findings_reported"] = sorted(self.known_printed)
        ev = {"property_id": self.pid, "tier": self.tier, "seed": self.seed, "level": self.level,
              "coverage": cov, "assumptions": self.assumptions + trusted_base,
              "wall_s": round(time.time() - self.t0, 2), "violations": len(self.violations)}
        os.makedirs(os.path.join(OUT, "evidence"), exist_ok=True)
        with open(os.path.join(OUT, "evidence", self.pid + ".json"), "w") as f:
            json.dump(ev, f, indent=1, sort_keys=True)
            f.write("\n")
        if self.violations:
            log(f"{self.pid}: {len(self.violations)} violation(s)")
            sys.exit(1)
        log(f"{self.pid}: ok ({ev['wall_s']} s)")
        sys.exit(0)


def run_lines(exe, input_text, timeout=1800, env=None, args=()):
    rc, out, dt = sh([exe] + list(args), input=input_text, timeout=timeout, env=env)
    return rc, out.split("\n"), dt
