#!/usr/bin/env python3
"""Regenerate, in DESIGN.md, the table of repaired defects (from the `fixed:` lines of KNOWN_FINDINGS.txt and the /repo log)
and the list of recorded findings per property (between the FIXED_TABLE / FINDING_LIST markers)."""
import os, re, subprocess
VERIF = os.path.dirname(os.path.dirname(os.path.abspath(__file__)))
kf = open(os.path.join(VERIF, "KNOWN_FINDINGS.txt")).read().split("\n")
log = subprocess.run(["git", "-C", "/repo", "log", "--format=%h %s", "-200"], stdout=subprocess.PIPE, text=True).stdout.split("\n")
order = {l.split()[0]: i for i, l in enumerate(reversed([l for l in log if l.strip()]))}
fixed = {}
for l in kf:
    m = re.match(r"fixed:\s+property=(C\d+)\s+([0-9a-f]{7,})\s+(.*)", l)
    if m:
        p, h, txt = m.groups()
        fixed.setdefault(h[:7], {"props": [], "txt": txt})["props"].append(p)
rows = ["| commit | properties | defect |", "|---|---|---|"]
for h in sorted(fixed, key=lambda h: order.get(h, 10**6)):
    t = fixed[h]["txt"].replace("|", "\\|")
    if len(t) > 330: t = t[:327] + "..."
    rows.append(f"| {h} | {' '.join(sorted(set(fixed[h]['props'])))} | {t} |")
missing = [h for h in fixed if h not in order]
per = {}
for l in kf:
    m = re.match(r"finding:\s+property=(C\d+)\s+id=(\S+)\s+class=(\S+)", l)
    if m:
        per.setdefault(m.group(1), []).append(m.group(2))
flist = ["%d `fix:` commits repair %d (property, defect) entries; %d findings stay recorded: " % (len(fixed), sum(len(v['props']) for v in fixed.values()), sum(map(len, per.values())))
         + "; ".join(f"{p}: {', '.join(ids)}" for p, ids in sorted(per.items())) + "."]
d = open(os.path.join(VERIF, "DESIGN.md")).read()
def put(d, tag, body):
    b, e = f"<!-- {tag}_BEGIN -->", f"<!-- {tag}_END -->"
    assert b in d and e in d, tag
    return d[:d.index(b) + len(b)] + "\n" + body + "\n" + d[d.index(e):]
d = put(d, "FIXED_TABLE", "\n".join(rows))
d = put(d, "FINDING_LIST", "\n".join(flist))
open(os.path.join(VERIF, "DESIGN.md"), "w").write(d)
print(len(fixed), "fix commits;", "not in /repo log:", missing)
