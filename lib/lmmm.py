"""Shared machinery for the Lmmm-based checks (C01 C02 C03 C05 C06 C07 ...):
program generator over the Lmmm AST, s-expression printer (for the extracted Coq model),
mimium pretty-printer (for the real compiler), batch runners for model and implementation."""
import json, os, struct, subprocess, sys
from vplib import *

BINOPS = ["add", "sub", "mul", "lt", "le", "gt", "ge", "eq", "ne", "and", "or", "min", "max"]
SYM = {"add": "+", "sub": "-", "mul": "*", "lt": "<", "le": "<=", "gt": ">", "ge": ">=", "eq": "==", "ne": "!=",
       "and": "&&", "or": "||"}

# ---------------------------------------------------------------------------
# AST: tuples  ('lit',z) ('var',x) ('now',) ('sr',) ('self',) ('bin',op,a,b) ('neg',a) ('let',x,a,b)
#              ('if',c,t,e) ('call',f,[args]) ('mem',a) ('delay',n,a,t)
# program: dict(funs=[(name,[params],body)], inputs=[ids], lets=[(x,e)], outs=[e])
# ---------------------------------------------------------------------------

def sx(e):
    k = e[0]
    if k == 'lit': return f"(lit {e[1]})"
    if k == 'var': return f"(var {e[1]})"
    if k in ('now', 'sr', 'self'): return k
    if k == 'bin': return f"(bin {e[1]} {sx(e[2])} {sx(e[3])})"
    if k == 'neg': return f"(neg {sx(e[1])})"
    if k == 'let': return f"(let {e[1]} {sx(e[2])} {sx(e[3])})"
    if k == 'if': return f"(if {sx(e[1])} {sx(e[2])} {sx(e[3])})"
    if k == 'call': return "(call " + " ".join([str(e[1])] + [sx(a) for a in e[2]]) + ")"
    if k == 'mem': return f"(mem {sx(e[1])})"
    if k == 'delay': return f"(delay {e[1]} {sx(e[2])} {sx(e[3])})"
    raise ValueError(e)


def prog_sx(p):
    funs = " ".join(f"(fun {n} ({' '.join(map(str, ps))}) {sx(b)})" for n, ps, b in p['funs'])
    lets = " ".join(f"({x} {sx(e)})" for x, e in p['lets'])
    outs = " ".join(sx(e) for e in p['outs'])
    return f"(prog (funs {funs}) (inputs {' '.join(map(str, p['inputs']))}) (lets {lets}) (outs {outs}))"


def vname(x, ren=None):
    return (ren or {}).get(('v', x), f"v{x}")


def fname(f, ren=None):
    return (ren or {}).get(('f', f), f"f{f}")


def pp(e, ren=None):
    """expression in operand position (self-delimiting)"""
    k = e[0]
    if k == 'lit':
        return f"{e[1]}.0" if e[1] >= 0 else f"(-{-e[1]}.0)"
    if k == 'var': return vname(e[1], ren)
    if k == 'now': return "now"
    if k == 'sr': return "samplerate"
    if k == 'self': return "self"
    if k == 'bin':
        if e[1] in ('min', 'max'):
            return f"{e[1]}({pp(e[2], ren)}, {pp(e[3], ren)})"
        return f"({pp(e[2], ren)} {SYM[e[1]]} {pp(e[3], ren)})"
    if k == 'neg': return f"(-{pp(e[1], ren)})"
    if k == 'let': return "{ " + pp_block(e, ren, "  ") + " }"
    if k == 'if': return f"(if ({pp(e[1], ren)}) {{ {pp(e[2], ren)} }} else {{ {pp(e[3], ren)} }})"
    if k == 'call': return f"{fname(e[1], ren)}({', '.join(pp(a, ren) for a in e[2])})"
    if k == 'mem': return f"mem({pp(e[1], ren)})"
    if k == 'delay':
        # a non-integer maximum is truncated by the compiler (max_time as u64): `delay(3.5, ..)` must behave like `delay(3.0, ..)`
        frac = "5" if (ren or {}).get(('opt', 'frac_delay')) else "0"
        return f"delay({e[1]}.{frac}, {pp(e[2], ren)}, {pp(e[3], ren)})"
    raise ValueError(e)


def pp_block(e, ren=None, ind="  "):
    """statement sequence: let chains on their own lines"""
    if e[0] == 'let':
        return f"let {vname(e[1], ren)} = {pp(e[2], ren)}\n{ind}" + pp_block(e[3], ren, ind)
    return pp(e, ren)


def pp_prog(p, ren=None, dsp_name="dsp"):
    out = []
    for n, ps, b in p['funs']:
        out.append(f"fn {fname(n, ren)}({', '.join(vname(x, ren) for x in ps)}){{\n  {pp_block(b, ren)}\n}}")
    body = ""
    for x, e in p['lets']:
        body += f"  let {vname(x, ren)} = {pp(e, ren)}\n"
    if len(p['outs']) == 1:
        body += "  " + pp(p['outs'][0], ren)
    else:
        body += "  (" + ", ".join(pp(e, ren) for e in p['outs']) + ")"
    out.append(f"fn {dsp_name}({', '.join(vname(x, ren) + ':float' for x in p['inputs'])}){{\n{body}\n}}")
    return "\n".join(out) + "\n"


# ---------------------------------------------------------------------------
# features / classes
# ---------------------------------------------------------------------------
def subexprs(e):
    yield e
    k = e[0]
    if k == 'bin': yield from subexprs(e[2]); yield from subexprs(e[3])
    elif k == 'neg' or k == 'mem': yield from subexprs(e[1])
    elif k == 'let': yield from subexprs(e[2]); yield from subexprs(e[3])
    elif k == 'if':
        for x in e[1:]: yield from subexprs(x)
    elif k == 'call':
        for a in e[2]: yield from subexprs(a)
    elif k == 'delay': yield from subexprs(e[2]); yield from subexprs(e[3])


def all_bodies(p):
    for n, ps, b in p['funs']:
        yield ('f', n), b
    for x, e in p['lets']:
        yield ('let', x), e
    for i, e in enumerate(p['outs']):
        yield ('out', i), e


def stateful_funs(p):
    """names of functions whose skeleton is non-empty"""
    sf = set()
    for n, ps, b in p['funs']:
        if expr_stateful(b, sf):
            sf.add(n)
    return sf


def expr_stateful(e, sf, count_self=True):
    for s in subexprs(e):
        if s[0] in ('mem', 'delay') or (count_self and s[0] == 'self'): return True
        if s[0] == 'call' and s[1] in sf: return True
    return False


def has_stateful_arm(p):
    """(former finding F2, repaired) a stateful construct inside a conditional arm"""
    sf = stateful_funs(p)
    for _, b in all_bodies(p):
        for s in subexprs(b):
            if s[0] == 'if' and (expr_stateful(s[2], sf, False) or expr_stateful(s[3], sf, False)):
                return True
    return False


def multi_delay_sizes(p):
    """class predicate of finding F3: one function (or dsp) contains two `delay`s of different sizes"""
    groups = [[b] for n, ps, b in p['funs']] + [[e for _, e in p['lets']] + list(p['outs'])]
    for g in groups:
        sizes = set()
        for b in g:
            for s in subexprs(b):
                if s[0] == 'delay': sizes.add(s[1])
        if len(sizes) > 1:
            return True
    return False


def if_in_tuple(p):
    """class predicate of finding F13: an `if` expression lexically inside an element of a tuple literal
    (dsp returning >= 2 channels with an `if` somewhere in an output expression)"""
    if len(p['outs']) < 2:
        return False
    return any(s[0] == 'if' for e in p['outs'] for s in subexprs(e))


def features(p):
    f = {"funs": len(p['funs']), "nodes": 0, "self": 0, "mem": 0, "delay": 0, "if": 0, "call": 0, "let": 0, "now": 0,
         "inputs": len(p['inputs']), "outs": len(p['outs'])}
    for _, b in all_bodies(p):
        for s in subexprs(b):
            f["nodes"] += 1
            if s[0] in f: f[s[0]] += 1
    return f


# ---------------------------------------------------------------------------
# generator
# ---------------------------------------------------------------------------
class Gen:
    def __init__(self, rng, stateful_arms=False, max_funs=4, depth=4, allow_mul=True, inputs=True, block_lets=False):
        self.rng = rng
        self.stateful_arms = stateful_arms
        self.max_funs = max_funs
        self.depth = depth
        self.allow_mul = allow_mul
        self.inputs = inputs
        self.next_id = 10
        self.block_lets = block_lets
        self.cur_delay = None

    def fresh(self):
        self.next_id += 1
        return self.next_id

    def expr(self, depth, vars_, funs, in_fun, stateless=False):
        r = self.rng
        if depth <= 0 or r.chance(1, 5):
            c = r.below(10)
            if c < 4 and vars_: return ('var', r.choice(vars_))
            if c < 5 and in_fun and not stateless: return ('self',)
            if c < 6 and r.chance(1, 3): return ('now',)
            return ('lit', r.range(-3, 6))
        c = r.below(20)
        if c < 6:
            ops = ["add", "sub", "add", "sub", "lt", "le", "gt", "ge", "eq", "ne", "and", "or", "min", "max"]
            if self.allow_mul and r.chance(1, 3): ops.append("mul")
            return ('bin', r.choice(ops), self.expr(depth - 1, vars_, funs, in_fun, stateless), self.expr(depth - 1, vars_, funs, in_fun, stateless))
        if c < 7:
            return ('neg', self.expr(depth - 1, vars_, funs, in_fun, stateless))
        if c < 9:
            if self.block_lets and r.chance(1, 2):
                # a block expression `{ let x = a  b }` in operand position; the binder sometimes SHADOWS a variable in scope
                x = r.choice(vars_) if (vars_ and r.chance(1, 3)) else self.fresh()
                return ('let', x, self.expr(depth - 1, vars_, funs, in_fun, stateless), self.expr(depth - 1, vars_ + [x], funs, in_fun, stateless))
            return ('bin', r.choice(["add", "sub", "max", "min"]), self.expr(depth - 1, vars_, funs, in_fun, stateless), self.expr(depth - 1, vars_, funs, in_fun, stateless))
        if c < 11:
            arm_stateless = stateless or not self.stateful_arms
            return ('if', self.expr(depth - 1, vars_, funs, in_fun, stateless),
                    self.expr(depth - 1, vars_, funs, in_fun, arm_stateless), self.expr(depth - 1, vars_, funs, in_fun, arm_stateless))
        if c < 15 and funs:
            cands = [f for f in funs if not (stateless and f[2])]
            if cands:
                f = r.choice(cands)
                return ('call', f[0], [self.expr(depth - 1, vars_, funs, in_fun, stateless) for _ in range(f[1])])
        if stateless:
            return ('lit', r.range(-2, 4))
        if c < 17:
            return ('mem', self.expr(depth - 1, vars_, funs, in_fun))
        if c < 19:
            n = self.cur_delay if (self.cur_delay and r.chance(1, 2)) else r.choice([1, 2, 3, 4, 6])
            t = ('lit', r.range(-1, n + 1)) if r.chance(3, 4) else self.expr(1, vars_, funs, in_fun, True)
            return ('delay', n, self.expr(depth - 1, vars_, funs, in_fun), t)
        if in_fun:
            return ('self',)
        return ('lit', 1)

    def body(self, depth, vars_, funs, in_fun):
        """a chain of lets followed by an expression (statement level)"""
        r = self.rng
        vars_ = list(vars_)
        lets = []
        for _ in range(r.choice([0, 0, 1, 1, 2])):
            x = r.choice(vars_) if (self.block_lets and vars_ and r.chance(1, 4)) else self.fresh()
            lets.append((x, self.expr(depth - 1, vars_, funs, in_fun)))
            vars_.append(x)
        e = self.expr(depth, vars_, funs, in_fun)
        for x, a in reversed(lets):
            e = ('let', x, a, e)
        return e

    def program(self):
        r = self.rng
        funs = []   # (name, arity, stateful)
        fdefs = []
        sf = set()
        for _ in range(r.below(self.max_funs + 1)):
            name = self.fresh()
            self.cur_delay = r.choice([1, 2, 3, 4, 6])
            ps = [self.fresh() for _ in range(r.below(3))]
            body = self.body(r.range(1, self.depth), ps, funs, True)
            fdefs.append((name, ps, body))
            st = expr_stateful(body, sf)
            if st: sf.add(name)
            funs.append((name, len(ps), st))
        inputs = [self.fresh()] if (self.inputs and r.chance(1, 3)) else []
        vars_ = list(inputs)
        self.cur_delay = r.choice([1, 2, 3, 4, 6])
        lets = []
        for _ in range(r.below(3)):
            x = self.fresh()
            lets.append((x, self.expr(r.range(1, self.depth), vars_, funs, False)))
            vars_.append(x)
        outs = [self.expr(r.range(1, self.depth), vars_, funs, False) for _ in range(r.choice([1, 1, 2, 2, 3]))]
        if len(outs) >= 2 and r.chance(1, 2):
            # (an `if` inside a tuple literal used to be finding F13, now repaired) half of the time bind such outputs with a let
            for i, o in enumerate(outs):
                if any(s_[0] == 'if' for s_ in subexprs(o)):
                    x = self.fresh()
                    lets.append((x, o))
                    outs[i] = ('var', x)
        return {"funs": fdefs, "inputs": inputs, "lets": lets, "outs": outs}


def gen_inputs(rng, n, k):
    return [[rng.range(-4, 5) for _ in range(k)] for _ in range(n)]


# ---------------------------------------------------------------------------
# runners
# ---------------------------------------------------------------------------
def _big_stack():
    """the extracted interpreters recurse deeply on long runs: give the driver process an unlimited stack"""
    import resource
    want = 1 << 30          # 1 GiB: deep enough for every sane case, small enough that a runaway recursion dies quickly
    try:
        soft, hard = resource.getrlimit(resource.RLIMIT_STACK)
        lim = want if hard == resource.RLIM_INFINITY else min(want, hard)
        resource.setrlimit(resource.RLIMIT_STACK, (lim, hard))
    except (ValueError, OSError):
        pass


MODEL_CHUNK_TIMEOUT_S = 240      # a chunk of 400 cases takes a few seconds; a case that runs away is discarded and counted


def _run_model_chunk(exe, lines):
    """one driver process per chunk; when the process dies (stack overflow of the extracted interpreter on a very deep evaluation)
    the case it died on is answered {"big": true} (discarded and counted by the checks like an inexact case) and the rest is re-run"""
    res = []
    todo = list(lines)
    while todo:
        try:
            pr = subprocess.run([exe], input="\n".join(todo) + "\n", stdout=subprocess.PIPE, stderr=subprocess.PIPE, text=True,
                                timeout=MODEL_CHUNK_TIMEOUT_S, preexec_fn=_big_stack)
            stdout, stderr, rc = pr.stdout, pr.stderr, pr.returncode
        except subprocess.TimeoutExpired as ex:
            stdout = ex.stdout.decode(errors="replace") if isinstance(ex.stdout, bytes) else (ex.stdout or "")
            stderr, rc = "timeout: the extracted interpreter did not answer a case within the chunk's time limit", 124
        class _P: pass
        pr = _P(); pr.stdout, pr.stderr, pr.returncode = stdout, stderr, rc
        out = [l for l in pr.stdout.split("\n") if l]
        good = []
        for l in out:
            try:
                good.append(json.loads(l))
            except ValueError:
                break
        res += good
        if len(good) >= len(todo):
            break
        if pr.returncode == 0 and len(good) < len(todo) and not pr.stderr:
            raise RuntimeError(f"model driver answered {len(good)}/{len(todo)} lines without failing")
        res.append({"big": True, "model_crash": (pr.stderr or "")[-200:]})
        todo = todo[len(good) + 1:]
    return res


def run_model(exe, cases):
    """cases: list of (prog, inputs_rows) -> list of dicts (parsed JSON of the driver); sharded over the cores"""
    from concurrent.futures import ThreadPoolExecutor
    lines = []
    for p, rows in cases:
        n = len(rows)
        k = len(p['inputs'])
        flat = " ".join(str(v) for r in rows for v in r)
        lines.append(f"{n} {k} {flat} | {prog_sx(p)}")
    size = 400
    chunks = [lines[i:i + size] for i in range(0, len(lines), size)]
    with ThreadPoolExecutor(max_workers=max(1, min(len(chunks), (os.cpu_count() or 4)))) as ex:
        parts = list(ex.map(lambda c: _run_model_chunk(exe, c), chunks))
    out = [r for part in parts for r in part]
    if len(out) != len(lines):
        raise RuntimeError(f"model driver answered {len(out)}/{len(lines)} lines")
    return out


def _run_batch(exe, todo, timeout):
    text = "\n".join(json.dumps(r) for r in todo) + "\n"
    try:
        pr = subprocess.run([exe], input=text, stdout=subprocess.PIPE, stderr=subprocess.PIPE, text=True, errors="replace",
                            timeout=timeout, env={**os.environ, "RUST_LOG": "off"})
        out, rc = pr.stdout, pr.returncode
        if rc != 0 and "overflowed its stack" in (pr.stderr or "")[-2000:]:
            rc = "stack-overflow"
    except subprocess.TimeoutExpired as ex:
        out = ex.stdout.decode(errors="replace") if isinstance(ex.stdout, bytes) else (ex.stdout or "")
        rc = "timeout"
    res = []
    for l in out.split("\n"):
        if not l.startswith("@@RES "):
            continue
        try:
            res.append(json.loads(l[6:]))
        except ValueError:
            pass
    return res, rc


def run_impl(exe, reqs, timeout_per_batch=600, shards=None):
    """reqs: list of dict requests for the harness (each gets an 'id' = index). Supervised: when the harness process
    dies (abort, memory corruption, timeout) before answering everything, the first unanswered request is re-run ALONE in a
    fresh process: if it dies again it is the culprit ({'crash': rc}); if it survives alone, the corruption came from an
    earlier request of the same process, so every request that process had answered is re-run alone as well and the ones that
    die or answer differently are marked ({'crash': rc} / 'unstable': True)."""
    import concurrent.futures
    for i, r in enumerate(reqs):
        r['id'] = i
    results = [None] * len(reqs)
    iso = [r for r in reqs if r.get('isolate')]
    reqs_shared = [r for r in reqs if not r.get('isolate')]
    shards = shards or min(NPROC, max(1, len(reqs_shared) // 8))
    chunks = [reqs_shared[i::shards] for i in range(shards)]

    def alone(r):
        res, rc = _run_batch(exe, [r], min(120, timeout_per_batch))
        if res:
            return res[0]
        return {"id": r['id'], "crash": rc}

    def work(chunk):
        todo = list(chunk)
        while todo:
            res, rc = _run_batch(exe, todo, timeout_per_batch)
            for o in res:
                results[o['id']] = o
            if len(res) >= len(todo):
                break
            bad = todo[len(res)]
            a = alone(bad)
            results[bad['id']] = a
            if 'crash' not in a:
                # corruption came from an earlier request in this process: re-run those alone
                for r in todo[:len(res)]:
                    b = alone(r)
                    if 'crash' in b:
                        results[r['id']] = b
                    elif json.dumps(b, sort_keys=True) != json.dumps(results[r['id']], sort_keys=True):
                        b['unstable'] = True
                        results[r['id']] = b
            todo = todo[len(res) + 1:]
    with concurrent.futures.ThreadPoolExecutor(max_workers=shards) as ex:
        list(ex.map(work, chunks))
    if iso:
        with concurrent.futures.ThreadPoolExecutor(max_workers=NPROC) as ex:
            for r, a in zip(iso, ex.map(alone, iso)):
                results[r['id']] = a
    return results


def bits_to_float(h):
    if h == "NaN":
        return float('nan')
    return struct.unpack(">d", bytes.fromhex(h))[0]


def word_to_float(w):
    return struct.unpack("<d", struct.pack("<Q", w))[0]


def skel_leaves(s):
    """parse '[[E1] [M1 D3]]' -> list of (kind, n, offset) leaves in DFS order, total size"""
    pos = [0]
    off = [0]
    leaves = []

    def sk():
        while s[pos[0]] == ' ': pos[0] += 1
        c = s[pos[0]]
        if c in "DME":
            pos[0] += 1
            st = pos[0]
            while pos[0] < len(s) and s[pos[0]].isdigit(): pos[0] += 1
            n = int(s[st:pos[0]])
            sz = n + 2 if c == 'D' else n
            leaves.append((c, n, off[0], sz))
            off[0] += sz
            return
        assert c == '['
        pos[0] += 1
        while True:
            while s[pos[0]] == ' ': pos[0] += 1
            if s[pos[0]] == ']':
                pos[0] += 1
                return
            sk()
    sk()
    return leaves, off[0]


def decode_words(words, skel):
    """real u64 state words -> integers as the model sees them (ring indices raw, data as f64 values);
    returns None if a data word is not an integer-valued float"""
    leaves, total = skel_leaves(skel)
    raw = set()
    for (c, n, o, sz) in leaves:
        if c == 'D':
            raw.add(o); raw.add(o + 1)
    res = []
    for i, w in enumerate(words):
        if i in raw:
            res.append(w)
        else:
            f = word_to_float(w)
            if f != f or f in (float('inf'), float('-inf')) or f != int(f):
                return None
            res.append(int(f))
    return res


# ---------------------------------------------------------------------------
# one exploration = generated programs run on the extracted model and on the real VM + WASM runtimes
# ---------------------------------------------------------------------------
OCAML = [("lmmm_drv", ["lmmm_model"], "ocaml/lmmm_drv.ml")]
HARNESS = [("lang", ["lmmm_run"], True)]
EXTRACT_TARGET = "theories/Extract/LmmmExtract.vo"


def build_sides(ck):
    """build the extracted model driver and the Rust harness; returns (model_exe|None, impl_exe|None)"""
    rc, out, dt = coq_make([EXTRACT_TARGET])
    mexe = None
    if rc == 0:
        rc, out, mexe = ocaml_build("lmmm_drv", ["lmmm_model"], os.path.join(VERIF, "ocaml", "lmmm_drv.ml"))
        if rc != 0:
            mexe = None
    if mexe is None:
        ck.broken.append("model-build(Lmmm): " + out[-400:])
    rc, out, bindir = cargo_build("lang", ["lmmm_run"], hooks=True)
    if rc != 0:
        ck.broken.append("harness-build: " + out[-800:])
        return mexe, None
    return mexe, os.path.join(bindir, "lmmm_run")


def classes_of(p):
    c = set()
    return c


def gen_cases(ck, n_cases, n_samples, tag="gen", stateful_arms_share=8):
    """list of (prog, rows); one case in `stateful_arms_share` allows stateful constructs in `if` arms (class F2)"""
    cases = []
    for i in range(n_cases):
        r = ck.rng.fork((tag, i))
        g = Gen(r, stateful_arms=(stateful_arms_share and i % stateful_arms_share == stateful_arms_share - 1),
                max_funs=r.choice([1, 2, 3, 4, 5]), depth=r.choice([2, 3, 3, 4, 4, 5]), block_lets=(i % 3 == 1))
        p = g.program()
        rows = gen_inputs(r.fork("in"), n_samples, len(p['inputs']))
        cases.append((p, rows))
    return cases


def load_corpus(name):
    """corpus/<name>/*.json: {"prog": <python AST as json>, "rows": [[..]]}"""
    d = os.path.join(VERIF, "corpus", name)
    out = []
    if os.path.isdir(d):
        for fn in sorted(os.listdir(d)):
            if fn.endswith(".json"):
                j = json.load(open(os.path.join(d, fn)))
                out.append((unjson(j["prog"]), j["rows"]))
    return out


def tojson(p):
    return p


def unjson(p):
    def e(x):
        if isinstance(x, list):
            k = x[0]
            if k == 'call':
                return ('call', x[1], [e(a) for a in x[2]])
            return tuple([k] + [e(a) if isinstance(a, list) else a for a in x[1:]])
        return x
    return {"funs": [(f[0], list(f[1]), e(f[2])) for f in p["funs"]], "inputs": list(p["inputs"]),
            "lets": [(l[0], e(l[1])) for l in p["lets"]], "outs": [e(o) for o in p["outs"]]}


def impl_requests(cases, extra=None):
    reqs = []
    n_iso = [0]
    for ci, (p, rows) in enumerate(cases):
        # every 4th program is printed with non-integer delay maxima (same meaning: the compiler truncates them)
        r = {"src": pp_prog(p, {('opt', 'frac_delay'): True} if ci % 4 == 3 else None), "n": len(rows)}
        if p['inputs']:
            r["inputs"] = [[float(v) for v in row] for row in rows]
        if extra:
            r.update(extra)
        # class F3 is known to corrupt the VM's memory: keep it away from the shared VM process
        # (the first few are run on the VM too, each alone in its own process)
        if "F3" in classes_of(p):
            if n_iso[0] < 12:
                n_iso[0] += 1
                r["isolate"] = True
            else:
                r["backends"] = ["wasm"]
        reqs.append(r)
    return reqs


def sample_outs(b, t):
    """decoded float outputs of backend answer b at sample t, or ('panic', msg)"""
    s = b['samples'][t]
    if 'panic' in s:
        return ('panic', s['panic'])
    return [bits_to_float(h) for h in s['out']]


def events_hit_cells(skel, trace):
    """the C05 predicate evaluated on a real VM trace: every access event (kind 0/1/2) hits exactly one cell of the
    published skeleton, of the right kind and size, inside the storage; returns list of offending events"""
    leaves, total = skel_leaves(skel)
    at = {}
    for (c, n, o, sz) in leaves:
        at.setdefault(o, []).append((c, n, sz))
    bad = []
    for ev in trace:
        k, pos, sz = ev[0], ev[1], ev[2]
        ln = ev[3] if len(ev) > 3 else total
        if k > 2:
            continue
        cells = at.get(pos, [])
        ok = False
        for (c, n, csz) in cells:
            if k == 0 and c == 'E' and sz == csz: ok = True
            if k == 1 and c in 'EM' and sz == csz: ok = True
            if k == 2 and c == 'D' and sz == csz: ok = True
        if pos + sz > ln or pos + sz > total:
            ok = False
        if not ok:
            bad.append(ev)
    return bad


# ---------------------------------------------------------------------------------------------------------------------
# programs OUTSIDE the Lmmm fragment: `match` (integer literals, sum types, tuples) with stateful arms.
# No Coq model behind them: the checks evaluate the property's own predicates on the implementation's answers
# (H1 trace vs published skeleton, cursor home, storage = layout, VM = WASM).
def gen_match_source(rng):
    lits = ["1.0", "2.0", "3.0", "5.0", "10.0", "100.0"]
    def atom(vars_):
        k = rng.below(6)
        if k == 0 and vars_: return rng.choice(vars_)
        if k == 1: return "cnt(%s)" % rng.choice(lits)
        if k == 2: return "mem(%s)" % (rng.choice(vars_) if vars_ and rng.chance(1, 2) else rng.choice(lits))
        if k == 3: return "delay(%d.0, %s, %d.0)" % (rng.range(2, 5), rng.choice(vars_) if vars_ else rng.choice(lits), rng.range(0, 2))
        if k == 4: return "acc()"
        return rng.choice(lits)
    def expr(vars_, d=0):
        k = rng.below(5)
        if k == 0 or d > 1: return atom(vars_)
        if k == 1: return "%s + %s" % (atom(vars_), expr(vars_, d + 1))
        if k == 2: return "(%s) * %s" % (expr(vars_, d + 1), rng.choice(lits))
        if k == 3: return "(if (%s > %s) { %s } else { %s })" % (atom(vars_), rng.choice(lits), expr(vars_, d + 1), expr(vars_, d + 1))
        return atom(vars_)
    # one match in four gets an EXTRA arm at a random place: a pattern that is already there (of two arms with the same pattern
    # the first is taken on both backends: the repaired C01/M3) or a general arm before more specific ones (the arms behind it
    # are dead: the repaired C02/M1)
    def extra(arms, pats):
        if rng.chance(1, 4):
            arms.insert(rng.below(len(arms) + 1), "%s => %s" % (rng.choice(pats), expr_of[0]()))
        return arms
    expr_of = [None]
    def int_match(scrut, vars_):
        n = rng.range(1, 3)
        arms = ["%d => %s" % (i, expr(vars_)) for i in range(n)]
        arms.append("_ => %s" % expr(vars_))
        expr_of[0] = lambda: expr(vars_)
        return "match %s { %s }" % (scrut, ", ".join(extra(arms, ["0", "1", "_"])))
    def sum_match(scrut, vars_):
        arms = ["Up => %s" % expr(vars_), "Down => %s" % expr(vars_)]
        if rng.chance(1, 2):
            arms.append("Mid(r) => %s" % expr(vars_ + ["r"]))
        else:
            arms.append("_ => %s" % expr(vars_))
        expr_of[0] = lambda: expr(vars_)
        return "match %s { %s }" % (scrut, ", ".join(extra(arms, ["Up", "Down", "Mid(_)", "_"])))
    def tup_match(p, q, vars_):
        arms = ["(0, 0) => %s" % expr(vars_), "(0, 1) => %s" % expr(vars_)]
        if rng.chance(1, 2): arms.append("(1, _) => %s" % expr(vars_))
        arms.append("_ => %s" % expr(vars_))
        expr_of[0] = lambda: expr(vars_)
        return "match (%s, %s) { %s }" % (p, q, ", ".join(extra(arms, ["(0, 0)", "(0, _)", "(_, 1)", "(_, _)", "_"])))
    lines = ["type Dir = Up | Down | Mid(float)", "fn cnt(x){ self + x }", "fn acc(){ self * 2.0 + 1.0 }"]
    nf = rng.range(1, 2)
    calls = []
    for fi in range(nf):
        kind = rng.below(3)
        body = []
        vars_ = ["x"]
        nst = rng.range(1, 3)
        for si in range(nst):
            v = "v%d" % si
            if rng.chance(2, 3):
                if kind == 0: rhs = int_match("q", vars_)
                elif kind == 1: rhs = sum_match("q", vars_)
                else: rhs = tup_match("p", "q", vars_)
            else:
                rhs = expr(vars_)
            body.append("    let %s = %s" % (v, rhs))
            vars_.append(v)
        body.append("    " + " + ".join(vars_[1:] + [atom(vars_)]))
        if kind == 0:
            lines.append("fn f%d(q, x){\n%s\n}" % (fi, "\n".join(body)))
            calls += ["f%d(%s, %s)" % (fi, rng.choice(["now % 3.0", "now % 2.0", "0.0", "1.0", "2.0"]), rng.choice(lits + ["now"])) for _ in range(rng.range(1, 2))]
        elif kind == 1:
            lines.append("fn f%d(q: Dir, x: float) -> float {\n%s\n}" % (fi, "\n".join(body)))
            calls += ["f%d(%s, %s)" % (fi, rng.choice(["Up", "Down", "Mid(%s)" % rng.choice(lits)]), rng.choice(lits + ["now"])) for _ in range(rng.range(1, 3))]
        else:
            lines.append("fn f%d(p, q, x){\n%s\n}" % (fi, "\n".join(body)))
            calls += ["f%d(%s, %s, %s)" % (fi, rng.choice(["now % 2.0", "0.0", "1.0"]), rng.choice(["now % 2.0", "(now % 4.0 > 1.5)", "0.0", "1.0"]), rng.choice(lits + ["now"])) for _ in range(rng.range(1, 2))]
    tail = " + ".join(calls + (["cnt(1000.0)"] if rng.chance(1, 2) else []))
    lines.append("fn dsp(){\n    %s\n}" % tail)
    return "\n".join(lines) + "\n"


def impl_layout_predicates(vm, ws):
    """C05's clauses evaluated on the implementation's answers for one program: [] or [(what, detail)]"""
    bad = []
    if vm is None or ws is None or 'samples' not in vm or 'samples' not in ws:
        return bad
    if vm['skel'] != ws['skel']:
        return [("skeleton differs between backends", [vm['skel'], ws['skel']])]
    _, total = skel_leaves(vm['skel'])
    for t, s in enumerate(vm['samples']):
        if 'panic' in s:
            return [("vm panic at sample %d" % t, s['panic'])]
        off = events_hit_cells(vm['skel'], s['trace'])
        if off:
            return [("state access outside / not at a cell of the published layout (sample %d)" % t, off[:4])]
        if s['pos'] != 0:
            return [("state cursor not back at the origin after dsp (sample %d)" % t, s['pos'])]
        if len(s['words']) != total:
            return [("storage size differs from layout size", [len(s['words']), total])]
        w = ws['samples'][t] if t < len(ws['samples']) else None
        if w is None or 'panic' in w:
            return [("wasm panic", w)]
        ww = w['words'] + [0] * max(0, total - len(w['words']))
        if ww[:total] != s['words'] or any(x != 0 for x in ww[total:]):
            return [("flat state words differ between VM and WASM (sample %d)" % t, [s['words'], ww])]
    return bad


def match_stream(ck, iexe, n, n_samples, tag):
    """n generated programs with stateful `match` arms, run on both backends: [(src, result)]"""
    rng = ck.rng.fork("match-" + tag)
    srcs = [gen_match_source(rng.fork(i)) for i in range(n)]
    res = run_impl(iexe, [{"src": s, "n": n_samples, "state": True, "typecheck": True} for s in srcs])
    return list(zip(srcs, res))


# ---------------------------------------------------------------------------------------------------------------------
# programs OUTSIDE the Lmmm fragment with a WIDE `self` (tuple / record / nested tuple / sum type with payload), see lib/wideself.py.
# Each case carries the stream the property text of C02 prescribes (python reference evaluator), so the checks can evaluate
# C05's layout clauses and C02's output clause on the real compiler.
def wide_stream(ck, iexe, n, n_samples, tag):
    """[(case, result)]: case = {"src", "expect", "shapes"}"""
    import wideself
    rng = ck.rng.fork("wide-" + tag)
    cases = [wideself.gen_case(rng.fork(i), n_samples) for i in range(n)]
    res = run_impl(iexe, [{"src": c["src"], "n": n_samples, "state": True, "typecheck": True} for c in cases])
    return list(zip(cases, res))


WIDE_EXACT_BOUND = 2 ** 40     # feedback values grow geometrically; intermediates stay below 2^53 while the outputs are below this


def wide_output_mismatch(case, r):
    """C02's clause on one wide-self case: None, or a description of the first difference from the reference stream"""
    for be in ("vm", "wasm"):
        b = r.get(be)
        if b is None or 'samples' not in b:
            return "%s rejects/panics at compile time: %s" % (be, str((b or {}).get('compile') or (b or {}).get('compile_panic'))[:200])
        for t, row in enumerate(case["expect"]):
            if any(abs(v) > WIDE_EXACT_BOUND for v in row):
                break       # from here on the f64 arithmetic of the backends is no longer exact: the integer reference says nothing
            if t >= len(b['samples']):
                return "%s stopped at sample %d" % (be, t)
            o = sample_outs(b, t)
            if isinstance(o, tuple):
                return "%s panics at sample %d: %s" % (be, t, o[1][:120])
            if o != [float(v) for v in row]:
                return "%s output at sample %d is %s, call-by-value/per-call-site-state semantics gives %s" % (be, t, o, row)
    return None


# ---------------------------------------------------------------------------------------------------------------------
# programs OUTSIDE the Lmmm fragment: functions with MULTI-WORD parameters (tuples, nested tuples, records) that are read in
# `if` / `match` arms, after the merge, in both arms, and across recursive calls.  Integer arithmetic only (no `%`, no comparison
# on a projection: those are the recorded differences F62 / F46), so VM and WASM must agree bit for bit.
def gen_tuple_param_source(rng):
    r = rng
    lits = ["1.0", "2.0", "3.0", "5.0", "10.0"]
    shapes = {"t2": ("(float, float)", ["{p}.0", "{p}.1"], "let ({a}, {b}) = {p}", 2),
              "t3": ("(float, float, float)", ["{p}.0", "{p}.1", "{p}.2"], "let ({a}, {b}, {c}) = {p}", 3),
              "rec": ("{a: float, b: float}", ["{p}.a", "{p}.b"], "let {{a = {a}, b = {b}}} = {p}", 2),
              "nest": ("(float, (float, float))", ["{p}.0", "{p}.1.0", "{p}.1.1"], "let ({a}, ({b}, {c})) = {p}", 3)}
    def mkval(sh, xs):
        if sh == "t2": return "(%s, %s)" % (xs[0], xs[1])
        if sh == "t3": return "(%s, %s, %s)" % (xs[0], xs[1], xs[2])
        if sh == "rec": return "{a = %s, b = %s}" % (xs[0], xs[1])
        return "(%s, (%s, %s))" % (xs[0], xs[1], xs[2])
    lines = ["fn cnt(i){ self + i }"]
    calls = []
    for fi in range(r.range(1, 3)):
        sh = r.choice(list(shapes))
        ty, projs, pat, n = shapes[sh]
        P = "p"
        def rd(k=None):
            k = r.below(n) if k is None else k
            return projs[k].format(p=P)
        def arm(d=0):
            c = r.below(6)
            if c == 0:
                names = ["u%d" % r.below(90), "w%d" % r.below(90), "z%d" % r.below(90)]
                if len(set(names)) < 3: names = ["ua", "wb", "zc"]
                return "{ %s\n      %s * 2.0 + %s }" % (pat.format(p=P, a=names[0], b=names[1], c=names[2]), names[0], names[1])
            if c == 1: return "%s - %s" % (rd(), rd())
            if c == 2: return "%s + x" % rd()
            if c == 3: return "x * 3.0"                      # this arm does not read the parameter at all
            if c == 4 and d == 0: return "(if (x > %s) { %s } else { %s })" % (r.choice(lits), arm(1), arm(1))
            return "%s + mem(%s)" % (rd(), rd())
        kind = r.below(4)
        name = "tp%d" % fi
        if kind == 0:       # first read inside an arm, again in the other arm
            body = "  if (x > %s) { %s } else { %s }" % (r.choice(lits), arm(), arm())
        elif kind == 1:     # read inside one arm, then after the merge
            body = "  let r0 = if (x > %s) { %s } else { %s }\n  r0 + %s * 100.0" % (r.choice(lits), arm(), "x", rd())
        elif kind == 2:     # match on an integer selector
            body = "  let r0 = match sel { 0 => %s, 1 => %s, _ => %s }\n  r0 + %s" % (arm(1), arm(1), arm(1), rd())
        else:               # recursion: the parameter is read after the recursive call returns
            xs = [rd(k) + (" + 1.0" if k == 0 else "") for k in range(n)]
            body = "  if (x > 0.0) { %s(%s, x - 1.0%s) * 2.0 + %s } else { %s }" % (name, mkval(sh, xs), "", rd(), rd())
        if kind == 2:
            lines.append("fn %s(%s: %s, x: float, sel: float) -> float {\n%s\n}" % (name, P, ty, body))
        else:
            lines.append("fn %s(%s: %s, x: float) -> float {\n%s\n}" % (name, P, ty, body))
        for _ in range(r.range(1, 2)):
            vals = [r.choice(["now", "now + 1.0", "cnt(1.0)", r.choice(lits), "now * 2.0"]) for _ in range(3)]
            x = r.choice(["now", "now - 2.0", "3.0 - now", r.choice(lits), "cnt(2.0)"]) if kind != 3 else r.choice(["2.0", "3.0", "now", "1.0"])
            if kind == 3 and x == "now": x = "min(now, 4.0)"
            if kind == 2:
                calls.append("%s(%s, %s, %s)" % (name, mkval(sh, vals), x, r.choice(["0.0", "1.0", "2.0", "min(now, 2.0)", "now - 1.0"])))
            else:
                calls.append("%s(%s, %s)" % (name, mkval(sh, vals), x))
    lines.append("fn dsp(){\n  %s\n}" % " + ".join(calls))
    return "\n".join(lines) + "\n"


def tuple_param_stream(ck, iexe, n, n_samples, tag):
    rng = ck.rng.fork("tparam-" + tag)
    srcs = [gen_tuple_param_source(rng.fork(i)) for i in range(n)]
    res = run_impl(iexe, [{"src": s, "n": n_samples, "state": True, "typecheck": True} for s in srcs])
    return list(zip(srcs, res))


# ---------------------------------------------------------------------------------------------------------------------
# "side" programs: small families around defects that a seeding sub-agent met in passing and that no generator of ours produced
# (repaired as J1..J4; see KNOWN_FINDINGS.txt).  Every program is accepted, must not crash, and VM and WASM must agree.
def gen_side_source(rng):
    r = rng
    k = r.below(5)
    if k == 0:          # J1: a match on numbers whose scrutinee is -inf / +inf / NaN / huge / fractional on some samples
        lits = sorted(set(r.range(-3, 6) for _ in range(r.range(1, 4))))
        special = r.choice(["0.0 - 1.0/z", "1.0/z", "z/z", "1.0e300", "0.0 - 1.0e300", "0.5", "9.3e18", "0.0 - 9.3e18"])
        arms = ", ".join("%d => %d.0" % (l, 10 * (i + 1)) for i, l in enumerate(lits))
        wild = ", _ => %d.0" % r.range(90, 99)
        return ("fn dsp(){\n  let z = 0.0\n  let x = if (now %% 3.0 < 1.0) { %s } else { now - %d.0 }\n  match x { %s%s }\n}\n"
                % (special, r.range(0, 3), arms, wild))
    if k == 1:          # J2: array literals around the half-float boundary of the element index
        n = r.choice([2047, 2048, 2049, 2050, 2051, 3000, 4100])
        return ("fn dsp(){\n  let a = [" + ", ".join("%d.0" % ((i * 7) % 10) for i in range(n)) +
                "]\n  a[%d.0] * 10.0 + a[now] + a[%d.0]\n}\n" % (n - 1, r.below(n)))
    if k == 2:          # J3: binders of match patterns named like outer variables that are used after the match
        h = r.choice(["h", "v", "acc"])
        if r.chance(1, 2):
            return ("type O%d = Some%d(float) | None%d\nfn dsp(){\n  let o = if (now > 1.0) { Some%d(4.0 + now) } else { None%d }\n  let %s = (10.0, 20.0)\n"
                    "  let r = match o { Some%d(%s) => %s, None%d => 0.0 }\n  r + %s.1\n}\n" % ((k,) * 5 + (h, k, h, h, k, h)))
        return ("type O%d = Some%d(float) | None%d\nfn dsp(){\n  let %s = 100.0\n  let r = match (Some%d(now), 1.0) { (Some%d(%s), 1) => %s, _ => 0.0 }\n  r * 1000.0 + %s\n}\n"
                % (k, k, k, h, k, k, h, h, h))
    if k == 3:          # J4: a record with MORE fields assigned to a variable / field of a narrower record type
        where = r.choice(["global", "local", "field", "annot"])
        if where == "global":
            return "let r = {a = 1.0}\nlet z = 5.0\nfn dsp(){\n  r = {a = 2.0 + now, b = 3.0}\n  r.a * 10.0 + z\n}\n"
        if where == "local":
            return "fn dsp(){\n  let r = {a = 1.0, c = 9.0}\n  let z = 5.0\n  r = {a = 2.0, b = 3.0, c = 4.0 + now}\n  r.a * 100.0 + r.c * 10.0 + z\n}\n"
        if where == "field":
            return "fn dsp(){\n  let r = {a = {x = 1.0}, k = 7.0}\n  let z = 5.0\n  r.a = {x = 2.0, y = 3.0}\n  r.a.x * 100.0 + r.k * 10.0 + z + now\n}\n"
        return "fn dsp(){\n  let r:{b:float} = {a = 2.0, b = 3.0 + now}\n  let z = 7.0\n  r.b * 10.0 + z\n}\n"
    # a dsp with inputs is covered by C01's scheduler stream; here: tuples with many elements (neighbour of J2)
    n = r.choice([17, 64, 300])
    return ("fn dsp(){\n  let t = (" + ", ".join("%d.0" % (i % 9) for i in range(n)) + ")\n  t.%d + t.0 * 10.0 + now\n}\n" % (n - 1))
