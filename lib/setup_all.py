"""./check setup — build everything from files on disk (offline): Coq theories (full .vo), extracted OCaml drivers, Rust harness crates."""
import os, sys
from vplib import *

OCAML_DRIVERS = [("st_drv", ["st_model"], "ocaml/st_drv.ml")]
HARNESS = [("st", None, False)]  # (crate, bins, hooks)

def main():
    ok = True
    errs = regen_tables()
    for e in errs:
        log("translator error:", e); ok = False
    coq_prepare()
    rc, out, dt = coq_make(["all"], timeout=3400)
    log(f"coq build rc={rc} in {dt:.0f}s")
    if rc != 0:
        log(out[-4000:]); ok = False
    for name, ex, drv in OCAML_DRIVERS:
        rc, out, exe = ocaml_build(name, ex, os.path.join(VERIF, drv))
        log(f"ocaml {name} rc={rc}")
        if rc != 0:
            log(out[-2000:]); ok = False
    for crate, bins, hooks in HARNESS:
        rc, out, _ = cargo_build(crate, bins, hooks=hooks)
        log(f"cargo {crate} rc={rc}")
        if rc != 0:
            log(out[-4000:]); ok = False
    return 0 if ok else 1
