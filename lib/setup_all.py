"""./check setup — build everything from files on disk (offline): Coq theories (full .vo), extracted OCaml
drivers, Rust harness crates. Each checks/Cxx.py may declare
   OCAML   = [(driver_name, [extracted basenames], "ocaml/<driver>.ml")]
   HARNESS = [(crate, [bins], hooks_on)]"""
import importlib.util, os, sys
from vplib import *

def check_modules():
    d = os.path.join(VERIF, "checks")
    for fn in sorted(os.listdir(d)):
        if fn.endswith(".py"):
            spec = importlib.util.spec_from_file_location("check_" + fn[:-3], os.path.join(d, fn))
            m = importlib.util.module_from_spec(spec)
            spec.loader.exec_module(m)
            yield fn[:-3], m

def main():
    ok = True
    for e in regen_tables():
        log("translator error:", e); ok = False
    coq_prepare()
    # build what the REGISTERED checks need: their Props files and every extraction file (a broken file of a check that is
    # not registered yet must not break setup)
    import json as _json
    registered = [c["property_id"] for c in _json.load(open(os.path.join(VERIF, "MANIFEST.json")))["checks"]]
    props = [f"theories/Props/{pid}.vo" for pid in registered if os.path.exists(os.path.join(COQ, "theories", "Props", pid + ".v"))]
    extr = sorted("theories/Extract/" + f[:-2] + ".vo" for f in os.listdir(os.path.join(COQ, "theories", "Extract")) if f.endswith(".v"))
    rc, out, dt = coq_make(props, timeout=3400)
    log(f"coq build of {len(props)} Props targets rc={rc} in {dt:.0f}s")
    if rc != 0:
        log(out[-4000:]); ok = False
    rc2, out2, dt2 = coq_make(extr, timeout=1800)
    log(f"coq build of extraction targets rc={rc2} in {dt2:.0f}s")
    if rc2 != 0:
        log(out2[-2000:])
    ocaml, harness = {}, {}
    for name, m in check_modules():
        if name not in registered:
            continue
        for o in getattr(m, "OCAML", []):
            ocaml[o[0]] = o
        for crate, bins, hooks in getattr(m, "HARNESS", []):
            harness.setdefault((crate, hooks), set()).update(bins or [])
    for name, ex, drv in ocaml.values():
        rc, out, exe = ocaml_build(name, ex, os.path.join(VERIF, drv))
        log(f"ocaml {name} rc={rc}")
        if rc != 0:
            log(out[-2000:]); ok = False
    for (crate, hooks), bins in harness.items():
        rc, out, _ = cargo_build(crate, sorted(bins), hooks=hooks)
        log(f"cargo {crate} {sorted(bins)} rc={rc}")
        if rc != 0:
            log(out[-4000:]); ok = False
    return 0 if ok else 1
