"""Class predicates for the findings of builder fixer4 (candidates that are recorded, not repaired).
Each predicate takes the source text (and, where the class is tied to a symptom, the panic / error message)
and is meant to be narrow: a failing program outside the class is still a VIOLATION.
`python3 predicates.py` runs the self-test at the bottom."""
import re

_IDENT = r"[A-Za-z_][A-Za-z0-9_]*"


def _strip_comments(src):
    return re.sub(r"//[^\n]*", "", src)


def _matching(src, i, op, cl):
    """index of the bracket closing the one at src[i] (src[i] == op), or -1"""
    d = 0
    for j in range(i, len(src)):
        if src[j] == op:
            d += 1
        elif src[j] == cl:
            d -= 1
            if d == 0:
                return j
    return -1


def _split_top(s):
    """split at commas that are not nested in brackets"""
    out, d, cur = [], 0, ""
    for ch in s:
        if ch in "([{":
            d += 1
        elif ch in ")]}":
            d -= 1
        if ch == "," and d == 0:
            out.append(cur)
            cur = ""
        else:
            cur += ch
    if cur.strip():
        out.append(cur)
    return [x.strip() for x in out]


def _array_literals(src):
    """texts between the brackets of every ARRAY LITERAL (a `[` that does not follow an operand)"""
    res = []
    for m in re.finditer(r"\[", src):
        i = m.start()
        k = i - 1
        while k >= 0 and src[k] in " \t":
            k -= 1
        if k >= 0 and (src[k].isalnum() or src[k] in "_)]"):
            continue  # an index expression a[i]
        j = _matching(src, i, "[", "]")
        if j > i:
            res.append(src[i + 1:j])
    return res


def _function_valued_names(src):
    """names bound to a lambda literal by `let`, and names defined by `fn`"""
    names = set(re.findall(r"\blet\s+(" + _IDENT + r")\s*(?::[^=\n]*)?=\s*\(*\s*\|", src))
    names |= set(re.findall(r"\bfn\s+(" + _IDENT + r")\s*\(", src))
    return names


# ---------------------------------------------------------------------------------------------------------------
# B1  property=C03 (and C01)  class=closure-stored-in-array
def closure_stored_in_array(src, message=""):
    """VM panic `Invalid indirect callable` AND the source has an array literal one of whose elements is a lambda
    literal or a name bound to a lambda / function."""
    if "Invalid indirect callable" not in message:
        return False
    src = _strip_comments(src)
    fnames = _function_valued_names(src)
    for lit in _array_literals(src):
        for el in _split_top(lit):
            if el.startswith("|") or el in fnames:
                return True
    return False


# ---------------------------------------------------------------------------------------------------------------
# C2  property=C03  class=match-literals-far-apart
SPARSE_SPAN = 1 << 28


def match_literals_far_apart(src, message=""):
    """a `match` whose number-literal patterns span SPARSE_SPAN or more (the VM's dense jump table has one entry per
    integer between the smallest and the largest literal)"""
    src = _strip_comments(src)
    for m in re.finditer(r"\bmatch\b", src):
        i = src.find("{", m.end())
        if i < 0:
            continue
        j = _matching(src, i, "{", "}")
        if j < 0:
            continue
        body = src[i + 1:j]
        lits = []
        for p in re.finditer(r"(?:^|[,{(\n])\s*\(?\s*(\d+(?:\.\d+)?)\s*(?:=>|,|\))", body):
            v = float(p.group(1))
            lits.append(int(min(v, 9.3e18)))
        if len(lits) >= 2 and max(lits) - min(lits) >= SPARSE_SPAN:
            return True
    return False


# ---------------------------------------------------------------------------------------------------------------
# D2  property=C03  class=literal-with-tens-of-thousands-of-elements
def huge_array_literal(src, message=""):
    """an array literal with 25000 elements or more (WASM: `too many locals`; VM from 65536 registers on: compile
    panic `attempt to add with overflow`)"""
    return any(len(_split_top(lit)) >= 25000 for lit in _array_literals(_strip_comments(src)))


# ---------------------------------------------------------------------------------------------------------------
# T4 (extension)  property=C03 / C02  class=assignment-to-lambda-bound-name
def _enclosing_brace(src, pos):
    """index of the innermost `{` that is open at src[pos], or -1"""
    d = 0
    for k in range(pos - 1, -1, -1):
        if src[k] == "}":
            d += 1
        elif src[k] == "{":
            if d == 0:
                return k
            d -= 1
    return -1


def _is_record_field(src, pos):
    """src[pos:] starts `NAME =` -- is it a field of a record literal (and not an assignment inside a block)?
    A record literal stands in value position (after = ( , [ or an operator) and consists of `key = e` items."""
    i = _enclosing_brace(src, pos)
    if i < 0:
        return False
    k = i - 1
    while k >= 0 and src[k] in " \t\n":
        k -= 1
    if k < 0 or src[k] not in "=(,[+-*/":
        return False
    j = _matching(src, i, "{", "}")
    return j > i and _record_keys(src[i + 1:j]) is not None


def assignment_to_lambda_bound_name(src, message=""):
    """a name bound by `fn NAME(` or by `let NAME = |..| ..` (a lambda literal) is the target of an assignment"""
    src = _strip_comments(src)
    for name in _function_valued_names(src):
        for m in re.finditer(r"(?<![A-Za-z0-9_.])" + re.escape(name) + r"\s*=(?!=|>)", src):
            if re.search(r"\blet\s*$", src[:m.start()]):
                continue  # the binding itself
            if _is_record_field(src, m.start()):
                continue
            return True
    return False


# ---------------------------------------------------------------------------------------------------------------
# A2  property=C03 / C01  class=record-assigned-without-a-field-of-its-target
def _record_keys(text):
    """keys of a record literal `{k = e, ..}` given the text between its braces, or None when it is not one"""
    keys = []
    for el in _split_top(text):
        m = re.match(r"(" + _IDENT + r")\s*=(?!=)", el)
        if not m:
            return None
        keys.append(m.group(1))
    return set(keys) if keys else None


def _record_literal_after(src, pos):
    m = re.match(r"\s*\{", src[pos:])
    if not m:
        return None
    i = pos + m.end() - 1
    j = _matching(src, i, "{", "}")
    return _record_keys(src[i + 1:j]) if j > i else None


def record_assigned_without_a_field(src, message=""):
    """`let NAME = {k1 = .., k2 = ..}` and an assignment `NAME = {..}` of a record literal that lacks one of the keys
    (accepted by the type checker; the missing fields keep their old value on the VM, a global reads 0 on WASM)"""
    src = _strip_comments(src)
    bound = {}
    for m in re.finditer(r"\blet\s+(" + _IDENT + r")\s*=", src):
        ks = _record_literal_after(src, m.end())
        if ks:
            bound[m.group(1)] = ks
    for name, ks in bound.items():
        for m in re.finditer(r"(?<![A-Za-z0-9_.])" + re.escape(name) + r"\s*=(?!=|>)", src):
            if re.search(r"\blet\s*$", src[:m.start()]):
                continue
            got = _record_literal_after(src, m.end())
            if got is not None and not ks <= got:
                return True
    return False


# ---------------------------------------------------------------------------------------------------------------
# A3  property=C02  class=wider-record-variable-as-sole-argument
def wider_record_as_sole_argument(src, message=""):
    """fn F(P:{k..}) with ONE parameter of record type, called as F(V) / F({..}) with a record that has further
    fields: the argument is unpacked as a parameter pack and its first field is passed as P"""
    src = _strip_comments(src)
    bound = {}
    for m in re.finditer(r"\blet\s+(" + _IDENT + r")\s*=", src):
        ks = _record_literal_after(src, m.end())
        if ks:
            bound[m.group(1)] = ks
    for m in re.finditer(r"\bfn\s+(" + _IDENT + r")\s*\(\s*" + _IDENT + r"\s*:\s*\{([^{}]*)\}\s*\)", src):
        f = m.group(1)
        pkeys = set(re.findall(r"(" + _IDENT + r")\s*:", m.group(2)))
        for c in re.finditer(r"(?<![A-Za-z0-9_])" + re.escape(f) + r"\s*\(", src):
            if re.search(r"\bfn\s*$", src[:c.start()]):
                continue
            arg = src[c.end():_matching(src, c.end() - 1, "(", ")")].strip()
            akeys = bound.get(arg)
            if akeys is None and arg.startswith("{"):
                akeys = _record_keys(arg[1:-1])
            if akeys and pkeys < akeys:
                return True
    return False


# ---------------------------------------------------------------------------------------------------------------
# G2  property=C01  class=untyped-let-bound-lambda-applied-to-tuple
def untyped_let_lambda_applied_to_tuple(src, message=""):
    """`let NAME = |x| ..` with an un-annotated parameter, applied to a tuple literal NAME((..)) (the lambda's MIR
    keeps the parameter type `unknown`; WASM plays 0.0)"""
    src = _strip_comments(src)
    for m in re.finditer(r"\blet\s+(" + _IDENT + r")\s*=\s*\|\s*" + _IDENT + r"\s*\|", src):
        if re.search(r"(?<![A-Za-z0-9_])" + re.escape(m.group(1)) + r"\s*\(\s*\(", src):
            return True
    return False


if __name__ == "__main__":
    B = "fn make(){\n  let c = 0.0\n  let f = | | { c = c + 1.0  c }\n  [f]\n}\nfn dsp(){ make()[0]() }\n"
    B2 = "fn make(n){\n  [| | { n + 1.0 }, | | { n + 2.0 }]\n}\nlet fs = make(10.0)\nfn dsp(){ fs[0]() + fs[1]() * 100.0 }\n"
    msg = "Invalid indirect callable: raw=4294967297, heap=DefaultKey(1v1), func_i=3, pc=5"
    assert closure_stored_in_array(B, msg) and closure_stored_in_array(B2, msg)
    assert not closure_stored_in_array(B, "attempt to subtract with overflow")
    assert not closure_stored_in_array("fn dsp(){ let a = [1.0, 2.0]  let f = | | 1.0  a[0] + f() }", msg)
    assert match_literals_far_apart("fn dsp(){ match now { 1 => 10.0, 1000000000 => 20.0, _ => 30.0 } }")
    assert match_literals_far_apart("fn dsp(){ match now { 0 => 10.0, 9223372036854775807 => 20.0, _ => 30.0 } }")
    assert not match_literals_far_apart("fn dsp(){ match now { 1 => 10.0, 2 => 1000000000.0, _ => 30.0 } }")
    F1 = "let g = |x:float|->float {x}\nfn dsp(){\n  g = |x:float|->float {x + 1.0}\n  g(1.0)\n}\n"
    F2 = "fn dsp(){\n  let g = |x:float|->float {x}\n  g = |x:float|->float {x + 1.0}\n  g(1.0)\n}\n"
    F3 = "fn g(x:float)->float {x}\nfn dsp(){\n  let h = | | { g = |x:float|->float {x + 1.0}  0.0 }\n  h() + g(1.0)\n}\n"
    assert all(assignment_to_lambda_bound_name(s) for s in (F1, F2, F3))
    assert not assignment_to_lambda_bound_name("fn mk(n:float){ |x:float| { x + n } }\nlet g = mk(0.0)\nfn dsp(){ g = mk(1.0)  g(1.0) }")
    assert not assignment_to_lambda_bound_name("fn g(x){x}\nfn dsp(){ let c = 1.0  c = g(c)  if (c == 1.0) 1.0 else 2.0 }")
    assert not assignment_to_lambda_bound_name("fn g(x){x}\nfn dsp(){ let r = {g = 1.0, h = 2.0}  r.g }")
    A2 = "let r = {a = 1.0, b = 7.0}\nlet z = 5.0\nfn dsp(){\n  r = {a = 2.0}\n  r.a * 100.0 + r.b * 10.0 + z\n}\n"
    A1 = "let r = {a = 1.0}\nlet z = 5.0\nfn dsp(){\n  r = {a = 2.0, b = 3.0}\n  z\n}\n"
    assert record_assigned_without_a_field(A2) and not record_assigned_without_a_field(A1)
    A3 = "fn f(r:{b:float}){ r.b }\nfn dsp(){\n  let q = {a = 2.0, b = 3.0}\n  f(q)\n}\n"
    assert wider_record_as_sole_argument(A3)
    assert not wider_record_as_sole_argument("fn f(r:{b:float}){ r.b }\nfn dsp(){\n  let q = {b = 3.0}\n  f(q)\n}\n")
    assert untyped_let_lambda_applied_to_tuple("fn dsp(){\n  let id = |x| x\n  let t = id((1.0,2.0))\n  t.0\n}\n")
    assert not untyped_let_lambda_applied_to_tuple("fn dsp(){\n  let id = |x:(float,float)| x\n  let t = id((1.0,2.0))\n  t.0\n}\n")
    big = "fn dsp(){ let a = [" + ", ".join("1.0" for _ in range(30000)) + "]  a[0] }"
    assert huge_array_literal(big) and not huge_array_literal(B)
    print("predicates: self-test passed")


# ---------------------------------------------------------------------------------------------------------------
# ML  property=C03 / C01  class=match-arm-value-is-lambda
def match_arm_value_is_lambda(src, message=""):
    """VM compile panic `value function N not found` AND a `match` arm whose value is a lambda literal (`=> |..|`)"""
    if not re.search(r"value function \d+ not found", message):
        return False
    return bool(re.search(r"=>\s*\(*\s*\|", _strip_comments(src)))
