"""Type-directed generator of WELL-TYPED Lmmx programs (see lmmx.py for the AST).

Every construct of the extended core language is produced with measurable frequency: closures capturing read-only,
capturing and assigning, escaping closures (returned from functions, stored in tuples), counters made of closures,
higher-order functions taking (stateful) named functions, stateful lambdas, pipes, default arguments (named-argument
calls), tuple / record construction, projection and destructuring, global variables assigned from dsp, all mixed with
self / mem / delay / if.

DISCIPLINE (each rule fences off a class where the real backends are KNOWN to leave the reference semantics; every class
has a witness program in corpus/lmmx/findings and is reported by checks/lmmx_part.py; generated programs stay outside):
  R1  parameters are never assigned                              (WASM ignores the assignment: finding X3)
  R2  a local variable is assigned only by its own frame and by lambdas written directly in that frame
      (an assignment from a lambda nested two levels deep is lost on both backends: finding X1)
  R3  a lambda that mentions an ASSIGNED local variable of its frame ("tainted") is only called by that frame or
      returned as (part of) the frame's result; it is never passed as an argument
      (the VM copies the captured cells when a closure is passed: finding X2)
  R4  instances created while dsp runs are stateless, except in the `dyn` share of programs, which is compared with the
      VM only when the reference reports a dynamically created stateful instance (WASM keys closure state by linear-
      memory address: finding X4)
  R5  a capture-free lambda bound by a local `let` is stateless; at top level stateful lambdas are written as `fn`
      (the compiler treats a capture-free lambda as a function constant: direct calls, per-call-site state)
  R6  default expressions are closed (literals, arithmetic, global variables); named-argument calls never use `..`
      (`{x = a, ..}` passes 0 instead of the default: finding X5)
  R7  a lambda let-bound inside an inner block `{ let f = |..| ..  e }` mentions neither assigned locals (R3: it is closed
      when the block ends) nor function-typed parameters (VM SIGSEGV: finding X7)
  no stateful direct call at top level (finding X6); immediately applied lambda literals are stateless (R5).
Classes that are NOT avoided but recognised by predicates of lmmx.known_classes (the backend concerned is exempt only when
it actually deviates): W5 PROJ W7 W9 (WASM), V1 (VM), X4 (dynamic, WASM).  One program in 8 keeps projections in the
positions of class PROJ (the others get `+ 0.0` there), one in 8 may create stateful instances while dsp runs.

SUM TYPES, MATCH, WIDE SELF.  About half of the programs declare one or two sum types (constructors without payload, with a
number, with a (nested) tuple of numbers); values of these types are let-bound, passed, returned, stored in tuples and fed
back through `self`; `match` is generated on numbers (integer literal arms + `_`), on sum values (constructor arms with
payload binders, exhaustive or with `_`) and on tuples of numbers / sum values (tuple patterns + `_`), with stateful arms.
Functions and lambdas whose return type is a tuple / record / sum / nested data type use `self` at that type.
  R8  an arm of a tuple match that the decision tree compiles more than once is stateless; one match in ten is left as
      generated (class M2 of lmmx.known_classes: a backend is exempt only when it deviates).
REPAIRED classes that the generator used to avoid and now PRODUCES (a deviation is a VIOLATION): M1 (a `_` arm or a more
general tuple arm BEFORE other arms: one match in three gets such an arm), M3 (two arms with the same literal / constructor),
M5 (nested tuple patterns with variables in the payload of a constructor pattern inside a tuple pattern), W11 (a lambda in
the arm captures such a payload binder), W12 (a variable bound by a pattern on a wide `self` used directly as a component of
the rebuilt value), S1 (record patterns on `self` are printed with shuffled fields by lmmx.PP), W10 / W13 / MG (never
avoided, only excused).
"""
from lmmx import *

F = 'F'


def T(*ts): return ('T', list(ts))
def R(*fs): return ('R', list(fs))
def Fn(ps, r): return ('Fn', list(ps), r)
def S(tid): return ('S', tid)


def is_data(t):
    """a first-order data type: numbers, tuples / records of data, declared sums"""
    if t == F: return True
    if isinstance(t, tuple):
        if t[0] == 'T': return all(is_data(x) for x in t[1])
        if t[0] == 'R': return all(is_data(x) for _, x in t[1])
        if t[0] == 'S': return True
    return False


class Var:
    def __init__(self, id, ty, kind, depth, mutable=False, tainted=False, stateful=False):
        self.id, self.ty, self.kind, self.depth = id, ty, kind, depth
        self.mutable, self.tainted, self.stateful = mutable, tainted, stateful


class Fun:
    def __init__(self, id, ptys, rty, stateful, defaults=None, pids=None, role='runtime'):
        self.id, self.ptys, self.rty, self.stateful = id, ptys, rty, stateful
        self.defaults = defaults or [False] * len(ptys)
        self.pids = pids or []
        self.role = role          # 'runtime': callable from dsp; 'maker': only called by top-level lets


class Scope:
    def __init__(self, vars_, funs, depth, self_ok, state_ok, lam_state_ok, phase):
        self.vars, self.funs, self.depth = vars_, funs, depth
        self.self_ok, self.state_ok, self.lam_state_ok, self.phase = self_ok, state_ok, lam_state_ok, phase
        self.used_state = False      # a stateful construct was generated in this function / lambda body
        self.touched_mut = False     # a lambda body mentioned an assigned local of an enclosing frame

    def child(self, **kw):
        s = Scope(list(self.vars), self.funs, self.depth, self.self_ok, self.state_ok, self.lam_state_ok, self.phase)
        s.parent = self
        s.self_ty = getattr(self, 'self_ty', None)
        for k, v in kw.items():
            setattr(s, k, v)
        return s


class XGen:
    def __init__(self, rng, depth=3, dyn=False, ext=False):
        self.rng = rng
        self.depth = depth
        self.dyn = dyn
        self.ext = ext            # sum types, match, wide self (False: the language of the first version of this generator)
        self.next_id = 10
        self.cur_delay = None
        self.sumtys = {}          # tid -> [payload type | None]
        self.funs_of_prog = []

    # ---- sum types -----------------------------------------------------------------------------------------
    def declare_sum(self):
        r = self.rng
        tid = self.fresh()
        n = r.choice([2, 2, 3, 3, 4])
        pay = [r.choice([None, None, F, F, T(F, F), T(F, F), T(F, T(F, F)), T(F, F, F)]) for _ in range(n)]
        self.sumtys[tid] = pay
        return tid

    def shape_of(self, t):
        if t == F: return 'N'
        if t[0] == 'T': return ('st', [self.shape_of(x) for x in t[1]])
        if t[0] == 'R': return ('sr', [(f, self.shape_of(x)) for f, x in t[1]])
        if t[0] == 'S': return ('ss', t[1], [None if x is None else self.shape_of(x) for x in self.sumtys[t[1]]])
        raise ValueError(t)

    def sum_ty(self):
        return S(self.rng.choice(sorted(self.sumtys)))

    def fresh(self):
        self.next_id += 1
        return self.next_id

    # ---- types -------------------------------------------------------------------------------------------
    def small_fn_ty(self):
        r = self.rng
        sigs = getattr(self, 'known_sigs', [])
        if sigs and r.chance(1, 2):
            return r.choice(sigs)
        if self.ext and r.chance(1, 8):
            # a closure with a wide feedback value
            return Fn([F] * r.choice([0, 1, 1]), r.choice([T(F, F), T(F, F), R((0, F), (2, F))] + ([self.sum_ty()] if self.sumtys else [])))
        return Fn([F] * r.choice([0, 1, 1, 1, 2]), F)

    def value_ty(self, d=1):
        """type of a let-bound / passed value"""
        r = self.rng
        c = r.below(12)
        if self.sumtys and r.chance(1, 6): return self.sum_ty()
        if c < 6 or d <= 0: return F
        if c < 8: return T(*[self.value_ty(d - 1) if r.chance(1, 4) else F for _ in range(r.choice([2, 2, 3]))])
        if c < 10:
            n = r.choice([2, 2, 3])
            fs = sorted(self.pick_fields(n))
            return R(*[(f, F if r.chance(3, 4) else self.value_ty(0)) for f in fs])
        return self.small_fn_ty()

    def pick_fields(self, n):
        pool = list(range(len(FIELD_NAMES)))
        out = []
        for _ in range(n):
            out.append(pool.pop(self.rng.below(len(pool))))
        return out

    # ---- expressions ---------------------------------------------------------------------------------------
    def mark_state(self, sc):
        sc.used_state = True

    def vars_of(self, sc, ty, pred=None):
        return [v for v in sc.vars if v.ty == ty and self.readable(sc, v) and (pred is None or pred(v))]

    def readable(self, sc, v):
        # R2 (reading side): an assigned local is mentioned only by its frame and by directly nested lambdas
        if v.mutable and v.kind == 'local' and sc.depth - v.depth > 1:
            return False
        return True

    def note_use(self, sc, v):
        if v.kind == 'local' and sc.depth > v.depth and (v.mutable or v.tainted):
            s = sc
            while s is not None and s.depth > v.depth:
                s.touched_mut = True
                s = getattr(s, 'parent', None)
        if v.stateful:
            # calling / passing a stateful instance: the enclosing function does not become stateful (rule I)
            pass

    def leafF(self, sc):
        r = self.rng
        c = r.below(12)
        vs = self.vars_of(sc, F)
        if c < 5 and vs:
            v = r.choice(vs)
            self.note_use(sc, v)
            return ('var', v.id)
        if c < 6 and sc.self_ok and sc.state_ok:
            self.mark_state(sc)
            return ('self',)
        if c < 7 and r.chance(1, 2):
            return ('now',)
        if c < 9:
            # projection / field of an aggregate variable
            ag = [v for v in sc.vars if isinstance(v.ty, tuple) and v.ty[0] in ('T', 'R') and self.readable(sc, v)]
            cands = []
            for v in ag:
                if v.ty[0] == 'T':
                    cands += [('proj', ('var', v.id), i, v) for i, t in enumerate(v.ty[1]) if t == F]
                else:
                    cands += [('fld', ('var', v.id), f, v) for f, t in v.ty[1] if t == F]
            if cands:
                k, b, i, v = r.choice(cands)
                self.note_use(sc, v)
                return (k, b, i)
        return ('lit', r.range(-3, 6))

    def expr(self, sc, ty, d):
        if ty == F: return self.exprF(sc, d)
        if ty[0] == 'T': return self.exprT(sc, ty, d)
        if ty[0] == 'R': return self.exprR(sc, ty, d)
        if ty[0] == 'S': return self.exprS(sc, ty, d)
        return self.exprFn(sc, ty, d, as_arg=True)

    def wide_self(self, sc, ty):
        """`self` at the (wide) return type of the running function, when that is ty"""
        if getattr(sc, 'self_ty', None) == ty and ty != F and sc.state_ok and self.rng.chance(1, 3):
            self.mark_state(sc)
            if self.has_tuple(ty):
                # R9: the real type checker gives `self` its type too late for a tuple projection (`self.0`, `let v = self  v.0`
                # are rejected even with a return-type annotation): take it apart by a pattern and build it again
                pat, back = self.full_pattern(ty)
                return ('let', pat, ('selfs', self.shape_of(ty)), back)
            return ('selfs', self.shape_of(ty))
        return None

    def has_tuple(self, t):
        """a tuple or a record (the same holds for `self.f`: the field constraint arrives before the record type)"""
        return t != F and t[0] in ('T', 'R')

    def full_pattern(self, t):
        """(pattern binding every number / sum component of a value of type t, expression that builds the value again)"""
        if t == F or t[0] == 'S':
            x = self.fresh()
            # the variable directly as a component of the result in one case of two (the repaired W12: WASM leaked an address)
            return ('pv', x), (('bin', 'add', ('var', x), ('lit', 0)) if (t == F and self.rng.chance(1, 2)) else ('var', x))
        if t[0] == 'T':
            parts = [self.full_pattern(x) for x in t[1]]
            return ('pt', [q for q, _ in parts]), ('tup', [e for _, e in parts])
        parts = [(f, self.full_pattern(x)) for f, x in t[1]]
        return ('pr', [(f, q) for f, (q, _) in parts]), ('rec', [(f, e) for f, (_, e) in parts])

    def closure_call(self, sc, ty, d):
        """call of a closure-valued variable whose result has the (data) type ty"""
        r = self.rng
        if d <= 0 or not r.chance(1, 2): return None
        cands = [v for v in sc.vars if isinstance(v.ty, tuple) and v.ty[0] == 'Fn' and v.ty[2] == ty and v in self.closure_vars(sc, v.ty)]
        if not cands: return None
        v = r.choice(cands)
        self.note_use(sc, v)
        return ('app', ('var', v.id), self.args_for(sc, v.ty[1], d - 1))

    def exprS(self, sc, ty, d):
        r = self.rng
        w = self.wide_self(sc, ty)
        if w is not None: return w
        vs = self.vars_of(sc, ty)
        if vs and r.chance(1, 3):
            v = r.choice(vs)
            self.note_use(sc, v)
            return ('var', v.id)
        fs = self.callable_funs(sc, ty)
        if fs and d > 0 and r.chance(1, 3):
            return self.call_fun(sc, r.choice(fs), d)
        cl = self.closure_call(sc, ty, d)
        if cl is not None: return cl
        if d > 1 and r.chance(1, 6):
            return ('if', self.exprF(sc, d - 1), self.exprS(sc, ty, d - 1), self.exprS(sc, ty, d - 1))
        pay = self.sumtys[ty[1]]
        tag = r.below(len(pay))
        return ('con', ty[1], tag, None if pay[tag] is None else self.expr(sc, pay[tag], d - 1))

    # ---- match ---------------------------------------------------------------------------------------------
    def payload_pat(self, sc, t, vs, in_tuple=False, nested=False):
        """binding pattern for a payload of type t (variables / `_` / tuples of them); appends the new Vars to vs.
        (in_tuple: the constructor pattern is a component of a tuple pattern; nested tuple patterns with variables and captures
        of the binders are generated there too since the repairs of M5 and W11)"""
        r = self.rng
        if isinstance(t, tuple) and t[0] == 'T' and r.chance(3, 4):
            return ('pt', [self.payload_pat(sc, x, vs, in_tuple, True) for x in t[1]])
        if r.chance(1, 6):
            return ('pw',)
        x = self.fresh()
        v = Var(x, t, 'local', sc.depth)
        vs.append(v)
        return ('pv', x)

    def cell_pat(self, sc, t, vs, wild=(1, 3)):
        """one component of a tuple pattern / a scalar arm pattern for a scrutinee component of type t"""
        r = self.rng
        if r.chance(*wild):
            return ('mw',)
        if t == F:
            return ('ml', r.range(0, 3))
        pay = self.sumtys[t[1]]
        tag = r.below(len(pay))
        return ('mc', t[1], tag, None if pay[tag] is None else self.payload_pat(sc, pay[tag], vs, in_tuple=True))

    def arm_body(self, sc, vs, d, stateless):
        sub = sc.child()
        sub.parent = sc
        if stateless:
            sub.state_ok = False
            sub.lam_state_ok = False
        sub.vars = list(sc.vars) + vs
        b = self.exprF(sub, d)
        sc.used_state = sc.used_state or sub.used_state
        sc.touched_mut = sc.touched_mut or sub.touched_mut
        return b

    def matchF(self, sc, d):
        """a match expression of type float"""
        r = self.rng
        kind = r.below(3) if self.sumtys else r.choice([0, 0, 2])
        free = r.chance(1, 10)                 # leave the arms as generated (class M2)
        early = r.chance(1, 3)                 # a `_` / general arm before other arms, or two arms with the same pattern (repaired M1 / M3)
        for attempt in range(4):
            binders = []
            if kind == 0:
                scrut = r.choice([self.leafF(sc), self.exprF(sc, d - 1), ('bin', 'sub', ('now',), ('lit', r.range(0, 3)))])
                pats = [('ml', k) for k in (r.choice([[0], [0, 1], [1, 2], [0, 1, 2], [2, 0], [1, 3, 0]]))]
                pats.append(('mw',))
                if early:
                    pats.insert(r.below(len(pats)), r.choice([('mw',), ('ml', r.range(0, 2)), ('ml', r.range(0, 2))]))
                binders = [[] for _ in pats]
                ncols = None
            elif kind == 1:
                ty = self.sum_ty()
                scrut = self.exprS(sc, ty, d - 1)
                pay = self.sumtys[ty[1]]
                tags = list(range(len(pay)))
                for i in range(len(tags) - 1, 0, -1):
                    j = r.below(i + 1); tags[i], tags[j] = tags[j], tags[i]
                if r.chance(1, 2):
                    tags = tags[:r.range(1, len(tags))]
                    wild = True
                else:
                    wild = r.chance(1, 8)
                pats = []
                for tg in tags:
                    vs = []
                    pats.append(('mc', ty[1], tg, None if pay[tg] is None else self.payload_pat(sc, pay[tg], vs)))
                    binders.append(vs)
                if wild:
                    pats.append(('mw',)); binders.append([])
                if early:
                    k = r.below(len(pats))
                    vs = []
                    tg = r.below(len(pay))
                    pats.insert(k, r.choice([('mw',), ('mc', ty[1], tg, None if pay[tg] is None else self.payload_pat(sc, pay[tg], vs))]))
                    binders.insert(k, vs if pats[k][0] == 'mc' else [])
                ncols = None
            else:
                ncols = r.choice([2, 2, 3])
                ctys = [self.sum_ty() if (self.sumtys and r.chance(1, 3)) else F for _ in range(ncols)]
                scrut = ('tup', [self.expr(sc, t, d - 1) if t != F else r.choice([self.leafF(sc), self.exprF(sc, d - 1), ('now',)]) for t in ctys])
                pats = []
                for _ in range(r.choice([1, 2, 2, 3, 4])):
                    vs = []
                    pats.append(('mt', [self.cell_pat(sc, t, vs) for t in ctys]))
                    binders.append(vs)
                if early:
                    k = r.below(len(pats) + 1)
                    if r.chance(1, 2) or not pats:
                        pats.insert(k, r.choice([('mw',), ('mt', [('mw',)] * ncols)])); binders.insert(k, [])
                    else:
                        j = r.below(len(pats))      # the same pattern twice (binders renamed)
                        vs = []
                        pats.insert(k, self.rename_mpat(sc, pats[j], binders[j], vs)); binders.insert(k, vs)
                pats.append(('mw',)); binders.append([])
            sel = match_selection(pats, self.sumtys, ncols)
            if not sel['first_match_everywhere']:
                raise AssertionError("lmmx.match_selection: the model of the compiler's arm selection leaves first-match order on %r" % (pats,))
            if not sel['no_arm']:
                break
        else:
            pats, binders = [('mw',)], [[]]
            sel = match_selection(pats, self.sumtys, ncols)
        arms = []
        for i, (m, vs) in enumerate(zip(pats, binders)):
            arms.append((m, self.arm_body(sc, vs, d - 1, stateless=(sel['copies'][i] != 1 and not free))))
        return ('match', scrut, arms)


    def rename_mpat(self, sc, m, old_vars, vs):
        """a copy of the match pattern m with fresh binders (appended to vs with the types of the old ones)"""
        tys = {v.id: v.ty for v in old_vars}
        def pat(q):
            if q[0] == 'pv':
                x = self.fresh()
                vs.append(Var(x, tys.get(q[1], F), 'local', sc.depth))
                return ('pv', x)
            if q[0] == 'pt': return ('pt', [pat(x) for x in q[1]])
            if q[0] == 'pr': return ('pr', [(f, pat(x)) for f, x in q[1]])
            return q
        def go(m):
            if m[0] == 'mc': return ('mc', m[1], m[2], None if m[3] is None else pat(m[3]))
            if m[0] == 'mt': return ('mt', [go(x) for x in m[1]])
            return m
        return go(m)

    def args_for(self, sc, ptys, d):
        return [self.arg(sc, t, d) for t in ptys]

    def arg(self, sc, t, d):
        """an argument of type t: closures passed as arguments must not be tainted (R3)"""
        if isinstance(t, tuple) and t[0] == 'Fn':
            return self.exprFn(sc, t, d, as_arg=True)
        return self.expr(sc, t, d)

    def callable_funs(self, sc, rty, stateless=False):
        out = []
        for f in sc.funs:
            if f.rty != rty: continue
            if f.role == 'maker' and sc.phase != 'global': continue
            if f.stateful and (stateless or not sc.state_ok): continue
            out.append(f)
        return out

    def call_fun(self, sc, f, d):
        r = self.rng
        if f.stateful:
            self.mark_state(sc)
        if any(f.defaults) and r.chance(2, 3):
            # named-argument call: every parameter without default is given, the others sometimes
            given = [(pid, self.arg(sc, t, d - 1)) for pid, t, hasd in zip(f.pids, f.ptys, f.defaults) if (not hasd) or r.chance(1, 3)]
            if given:
                return ('cnamed', f.id, given)
        args = self.args_for(sc, f.ptys, d - 1)
        if len(args) == 1 and f.ptys[0] == F and r.chance(1, 4):
            return ('pipe', args[0], ('var', f.id))
        return ('app', ('var', f.id), args)

    def closure_vars(self, sc, fty, as_arg=False):
        out = []
        for v in sc.vars:
            if v.ty != fty or not self.readable(sc, v): continue
            if v.tainted and (as_arg or sc.depth != v.depth): continue      # R3: tainted closures are called by their frame only
            out.append(v)
        return out

    def exprF(self, sc, d):
        r = self.rng
        if d <= 0 or r.chance(1, 6):
            return self.leafF(sc)
        c = r.below(30)
        if c < 7:
            ops = ["add", "sub", "add", "sub", "lt", "le", "gt", "ge", "eq", "ne", "and", "or", "min", "max"]
            if r.chance(1, 3): ops.append("mul")
            return ('bin', r.choice(ops), self.exprF(sc, d - 1), self.exprF(sc, d - 1))
        if c < 8:
            return ('neg', self.exprF(sc, d - 1))
        if c < 10:
            return ('if', self.exprF(sc, d - 1), self.exprF(sc, d - 1), self.exprF(sc, d - 1))
        if c < 13:
            fs = self.callable_funs(sc, F)
            if fs:
                return self.call_fun(sc, r.choice(fs), d)
        if c < 17:
            # call of a closure-valued variable
            cands = [v for v in sc.vars if isinstance(v.ty, tuple) and v.ty[0] == 'Fn' and v.ty[2] == F and v in self.closure_vars(sc, v.ty)]
            if cands:
                v = r.choice(cands)
                self.note_use(sc, v)
                args = self.args_for(sc, v.ty[1], d - 1)
                if len(args) == 1 and v.ty[1][0] == F and r.chance(1, 4):
                    return ('pipe', args[0], ('var', v.id))
                return ('app', ('var', v.id), args)
        if c < 18:
            # immediately applied lambda / pipe into a lambda
            fty = Fn([F] * r.choice([1, 1, 2]), F)
            lam = self.lam2(sc, fty, d - 1, force_state=False)[0]
            args = self.args_for(sc, fty[1], d - 1)
            if len(args) == 1 and r.chance(1, 2):
                return ('pipe', args[0], lam)
            return ('app', lam, args)
        if c < 19:
            # call of the result of a call: mk(a)(b)
            fs = [f for f in sc.funs if isinstance(f.rty, tuple) and f.rty[0] == 'Fn' and f.rty[2] == F
                  and (f.role != 'maker' or sc.phase == 'global') and (not f.stateful or sc.state_ok) and not any(f.defaults)]
            if fs:
                f = r.choice(fs)
                if f.stateful: self.mark_state(sc)
                inner = ('app', ('var', f.id), self.args_for(sc, f.ptys, d - 1))
                return ('app', inner, self.args_for(sc, f.rty[1], d - 1))
        if c < 20 and d > 0 and self.ext:
            return self.matchF(sc, d)
        if c < 22:
            return self.blockF(sc, d)
        if c < 24:
            # projection of a tuple-valued expression / field of a record-valued expression
            if r.chance(1, 2):
                n = r.choice([2, 3])
                i = r.below(n)
                return ('proj', self.exprT(sc, T(*[F] * n), d - 1), i)
            fs = sorted(self.pick_fields(2))
            return ('fld', self.exprR(sc, R((fs[0], F), (fs[1], F)), d - 1), r.choice(fs))
        if sc.state_ok:
            if c < 26:
                self.mark_state(sc)
                return ('mem', self.exprF(sc, d - 1))
            if c < 28:
                self.mark_state(sc)
                n = self.cur_delay if (self.cur_delay and r.chance(1, 2)) else r.choice([1, 2, 3, 4, 6])
                t = ('lit', r.range(-1, n + 1)) if r.chance(3, 4) else self.leafF(sc)
                return ('delay', n, self.exprF(sc, d - 1), t)
            if c < 29 and sc.self_ok:
                self.mark_state(sc)
                return ('self',)
        return ('bin', r.choice(["add", "sub", "max", "min"]), self.exprF(sc, d - 1), self.exprF(sc, d - 1))

    def exprT(self, sc, ty, d):
        r = self.rng
        w = self.wide_self(sc, ty)
        if w is not None: return w
        vs = self.vars_of(sc, ty)
        if vs and r.chance(1, 3):
            v = r.choice(vs)
            self.note_use(sc, v)
            return ('var', v.id)
        fs = self.callable_funs(sc, ty)
        if fs and d > 0 and r.chance(1, 3):
            return self.call_fun(sc, r.choice(fs), d)
        cl = self.closure_call(sc, ty, d)
        if cl is not None: return cl
        if d > 1 and r.chance(1, 8):
            return ('if', self.exprF(sc, d - 1), self.exprT(sc, ty, d - 1), self.exprT(sc, ty, d - 1))
        return ('tup', [self.expr(sc, t, d - 1) for t in ty[1]])

    def exprR(self, sc, ty, d):
        r = self.rng
        w = self.wide_self(sc, ty)
        if w is not None: return w
        vs = self.vars_of(sc, ty)
        if vs and r.chance(1, 3):
            v = r.choice(vs)
            self.note_use(sc, v)
            return ('var', v.id)
        fs = self.callable_funs(sc, ty)
        if fs and d > 0 and r.chance(1, 3):
            return self.call_fun(sc, r.choice(fs), d)
        cl = self.closure_call(sc, ty, d)
        if cl is not None: return cl
        return ('rec', [(f, self.expr(sc, t, d - 1)) for f, t in ty[1]])

    def exprFn(self, sc, fty, d, as_arg=False, no_stateful_name=False):
        """an expression of function type: closure variable, function name (value position), call of a maker, lambda"""
        r = self.rng
        c = r.below(10)
        named = [f for f in sc.funs if f.ptys == fty[1] and f.rty == fty[2] and not any(f.defaults)
                 and (f.role != 'maker' or sc.phase == 'global') and ((not f.stateful) or (sc.lam_state_ok and not no_stateful_name))]
        if named and r.chance(1, 2):
            return ('var', r.choice(named).id)
        if c < 3:
            vs = self.closure_vars(sc, fty, as_arg=as_arg)
            # a tainted closure may still be RETURNED by its frame: handled by stmts()
            if vs:
                v = r.choice(vs)
                self.note_use(sc, v)
                return ('var', v.id)
        if c < 5:
            # a named function used as a value creates an instance: stateful ones only where instances may have state
            fs = [f for f in sc.funs if f.ptys == fty[1] and f.rty == fty[2] and not any(f.defaults)
                  and (f.role != 'maker' or sc.phase == 'global') and ((not f.stateful) or (sc.lam_state_ok and not no_stateful_name))]
            if fs:
                return ('var', r.choice(fs).id)
        if c < 6 and d > 0:
            fs = [f for f in sc.funs if f.rty == fty and (f.role != 'maker' or sc.phase == 'global') and (not f.stateful or sc.state_ok)]
            if fs:
                f = r.choice(fs)
                if f.stateful: self.mark_state(sc)
                return self.call_fun(sc, f, d)
        lam, touched = self.lam2(sc, fty, d)
        if touched and as_arg:
            # R3: regenerate without access to assigned locals
            sc2 = sc.child()
            sc2.vars = [v for v in sc.vars if not (v.kind == 'local' and (v.mutable or v.tainted))]
            lam, _ = self.lam2(sc2, fty, d)
        return lam

    def lam(self, sc, fty, d):
        return self.lam2(sc, fty, d)[0]

    def lam2(self, sc, fty, d, force_state=None):
        """|params| body of type fty; returns (lambda, mentions-an-assigned-local-of-an-enclosing-frame)"""
        params = [(self.fresh(), t) for t in fty[1]]
        st = sc.lam_state_ok if force_state is None else force_state
        body_sc = sc.child(depth=sc.depth + 1, self_ok=(fty[2] == F), state_ok=st, used_state=False, touched_mut=False,
                           self_ty=(fty[2] if (is_data(fty[2]) and (self.ext or fty[2] == F)) else None))
        for x, t in params:
            body_sc.vars.append(Var(x, t, 'param', body_sc.depth))
        body = self.stmts(body_sc, fty[2], max(0, d), frame_is_lambda=True)
        sc.last_lam_stateful = body_sc.used_state
        if body_sc.touched_mut:
            s = sc
            # a lambda nested in a lambda that mentions an assigned local of an outer frame: propagate
            for v in sc.vars:
                pass
        lam = ('lam', [(x, None if (t == F and self.rng.chance(2, 3)) else t) for x, t in params], body)
        return lam, body_sc.touched_mut

    def captures_local(self, lam, sc):
        """does the lambda mention a non-global variable of the enclosing scopes?"""
        # a local bound to a capture-free lambda is a function constant for the compiler too: mentioning it is no capture
        loc = {v.id for v in sc.vars if v.kind != 'global' and not getattr(v, 'fun_const', False)}
        for x in subexprs(lam):
            if x[0] == 'var' and x[1] in loc: return True
            if x[0] == 'asg' and x[1] in loc: return True
        return False

    def blockF(self, sc, d):
        """{ let p = e  body } in operand position (never starts with an assignment)"""
        sub = sc.child()
        sub.parent = sc
        x, stmt = self.let_stmt(sub, d - 1, allow_mut=False, inner_block=True)
        body = self.exprF(sub, d - 1)
        sc.used_state = sc.used_state or sub.used_state
        sc.touched_mut = sc.touched_mut or sub.touched_mut
        return ('let', stmt[0], stmt[1], body)

    # ---- statements ------------------------------------------------------------------------------------------
    def let_stmt(self, sc, d, allow_mut=True, inner_block=False):
        """generate `let pat = e`, extend sc.vars; returns (var list, (pat, e))"""
        r = self.rng
        ty = self.value_ty(1)
        if isinstance(ty, tuple) and ty[0] == 'Fn' and inner_block:
            # the scope of this let ends before the frame does, and a function-typed local is CLOSED when its scope ends:
            # R3 (the lambda must not mention assigned locals) and R7 (nor function-typed parameters: finding X7)
            sc2 = sc.child()
            sc2.vars = [v for v in sc.vars if not (v.kind == 'local' and (v.mutable or v.tainted))
                        and not (v.kind == 'param' and isinstance(v.ty, tuple) and v.ty[0] == 'Fn')]
            e, _ = self.lam2(sc2, ty, d, force_state=False if not sc.lam_state_ok else None)
            if getattr(sc2, 'last_lam_stateful', False) and not self.captures_local(e, sc):
                e, _ = self.lam2(sc2, ty, d, force_state=False)
            x = self.fresh()
            v = Var(x, ty, 'local', sc.depth)
            v.fun_const = e[0] == 'lam' and not self.captures_local(e, sc)
            sc.vars.append(v)
            return [v], (('pv', x), e)
        if isinstance(ty, tuple) and ty[0] == 'Fn':
            # a let-bound lambda (or other function value)
            before = sc.touched_mut
            sc.touched_mut = False
            touched = False
            if r.chance(3, 4):
                e, touched = self.lam2(sc, ty, d)
                if getattr(sc, 'last_lam_stateful', False) and not self.captures_local(e, sc):
                    # R5: a capture-free let-bound lambda is a function constant for the compiler: keep it stateless
                    e, touched = self.lam2(sc, ty, d, force_state=False)
            else:
                e = self.exprFn(sc, ty, d, no_stateful_name=True)
                if e[0] == 'lam':
                    touched = sc.touched_mut
                    if getattr(sc, 'last_lam_stateful', False) and not self.captures_local(e, sc):
                        e, touched = self.lam2(sc, ty, d, force_state=False)
            sc.touched_mut = before
            x = self.fresh()
            v = Var(x, ty, 'global' if sc.phase == 'global' and sc.depth == 0 else 'local', sc.depth, tainted=touched)
            v.fun_const = e[0] == 'lam' and not self.captures_local(e, sc)
            sc.vars.append(v)
            return [v], (('pv', x), e)
        e = self.expr(sc, ty, d)
        if isinstance(ty, tuple) and ty[0] in ('T', 'R') and r.chance(1, 2):
            pat, vs = self.pattern(sc, ty)
            sc.vars.extend(vs)
            return vs, (pat, e)
        x = self.fresh()
        mutable = allow_mut and ty == F and r.chance(1, 3)
        v = Var(x, ty, 'global' if sc.phase == 'global' and sc.depth == 0 else 'local', sc.depth, mutable=mutable)
        sc.vars.append(v)
        return [v], (('pv', x), e)

    def pattern(self, sc, ty):
        r = self.rng
        kind = 'global' if sc.phase == 'global' and sc.depth == 0 else 'local'
        if ty[0] == 'T':
            ps, vs = [], []
            for t in ty[1]:
                if r.chance(1, 6):
                    ps.append(('pw',))
                elif isinstance(t, tuple) and t[0] in ('T', 'R') and r.chance(1, 2):
                    q, v2 = self.pattern(sc, t)
                    ps.append(q); vs += v2
                else:
                    x = self.fresh()
                    ps.append(('pv', x))
                    vs.append(Var(x, t, kind, sc.depth, stateful=isinstance(t, tuple) and t[0] == 'Fn'))
            return ('pt', ps), vs
        fps, vs = [], []
        for f, t in ty[1]:
            if isinstance(t, tuple) and t[0] in ('T', 'R') and r.chance(1, 2):
                q, v2 = self.pattern(sc, t)
                fps.append((f, q)); vs += v2
            else:
                x = self.fresh()
                fps.append((f, ('pv', x)))
                vs.append(Var(x, t, kind, sc.depth, stateful=isinstance(t, tuple) and t[0] == 'Fn'))
        return ('pr', fps), vs

    def data_pattern(self, sc, t):
        """a pattern that takes a data value apart down to its numbers / sum values (tuples are never bound whole: R9)"""
        if t == F or t[0] == 'S':
            if self.rng.chance(1, 8): return ('pw',), []
            x = self.fresh()
            return ('pv', x), [Var(x, t, 'local', sc.depth)]
        parts = [self.data_pattern(sc, x) for x in (t[1] if t[0] == 'T' else [x for _, x in t[1]])]
        vs = [v for _, l in parts for v in l]
        if t[0] == 'T': return ('pt', [q for q, _ in parts]), vs
        return ('pr', [(f, q) for (f, _), (q, _) in zip(t[1], parts)]), vs

    def assign_stmt(self, sc, d):
        """x = e for an assignable variable in reach (R1, R2), or None"""
        cands = [v for v in sc.vars if v.ty == F and (
            (v.kind == 'global' and v.mutable) or
            (v.kind == 'local' and v.mutable and 0 <= sc.depth - v.depth <= 1))]
        if not cands:
            return None
        v = self.rng.choice(cands)
        self.note_use(sc, v)
        return ('asg', v.id, self.exprF(sc, d))

    def stmts(self, sc, rty, d, frame_is_lambda=False, n_stmts=None):
        """body of a function / lambda: lets, assignments, expression statements, then the result of type rty"""
        r = self.rng
        items = []
        st = getattr(sc, 'self_ty', None)
        if st is not None and st != F and sc.state_ok and st == rty and r.chance(2, 3):
            self.mark_state(sc)
            if self.has_tuple(st):
                pat, vs = self.data_pattern(sc, st)
            else:
                x = self.fresh()
                pat, vs = ('pv', x), [Var(x, st, 'local', sc.depth)]
            sc.vars.extend(vs)
            items.append(('let', pat, ('selfs', self.shape_of(st))))
        n = n_stmts if n_stmts is not None else r.choice([0, 0, 1, 1, 2, 3])
        for _ in range(n):
            c = r.below(6)
            if c < 4:
                _, (pat, e) = self.let_stmt(sc, d)
                items.append(('let', pat, e))
            elif c < 5:
                a = self.assign_stmt(sc, d)
                if a is not None:
                    items.append(('stmt', a))
            else:
                # a call for its effect: a tainted closure of this frame, or any float expression
                ts = [v for v in sc.vars if v.tainted and v.depth == sc.depth and v.ty[2] == F]
                if ts:
                    v = r.choice(ts)
                    items.append(('stmt', ('app', ('var', v.id), self.args_for(sc, v.ty[1], d - 1))))
        # result: a frame may return its tainted closures (escape through the return value only)
        res = None
        if isinstance(rty, tuple) and rty[0] == 'Fn':
            ts = [v for v in sc.vars if v.ty == rty and v.depth == sc.depth and v.kind in ('local',) and r.chance(2, 3)]
            if ts:
                res = ('var', r.choice(ts).id)
            else:
                res = self.lam(sc, rty, d)   # a lambda in result position may mention assigned locals (closed at return)
        elif isinstance(rty, tuple) and rty[0] == 'T' and any(isinstance(t, tuple) and t[0] == 'Fn' for t in rty[1]):
            es = []
            for t in rty[1]:
                if isinstance(t, tuple) and t[0] == 'Fn':
                    ts = [v for v in sc.vars if v.ty == t and v.depth == sc.depth and v.kind == 'local']
                    es.append(('var', r.choice(ts).id) if ts and r.chance(2, 3) else self.lam(sc, t, d))
                else:
                    es.append(self.expr(sc, t, d - 1))
            res = ('tup', es)
        else:
            res = self.expr(sc, rty, d)
        e = res
        for it in reversed(items):
            if it[0] == 'let':
                e = ('let', it[1], it[2], e)
            else:
                e = ('seq', it[1], e)
        return e

    # ---- programs ------------------------------------------------------------------------------------------
    def fun_decl(self, sc_global, role):
        r = self.rng
        name = self.fresh()
        self.cur_delay = r.choice([1, 2, 3, 4, 6])
        if role == 'maker':
            nps = r.choice([0, 1, 1, 2])
            ptys = [r.choice([F, F, F, self.small_fn_ty()]) for _ in range(nps)]
            inner = self.small_fn_ty()
            rty = r.choice([inner, inner, T(inner, self.small_fn_ty()), T(inner, F)])
        else:
            nps = r.choice([0, 1, 1, 2, 2, 2, 3])
            ptys = []
            for i in range(nps):
                c = r.below(10)
                if c < 6: ptys.append(F)
                elif c < 8: ptys.append(self.small_fn_ty())
                elif nps >= 2: ptys.append(r.choice([T(F, F), R((0, F), (2, F))]))
                else: ptys.append(F)
            rty = r.choice([F, F, F, F, T(F, F), R((1, F), (3, F))])
            if self.ext and r.chance(1, 5):
                rty = r.choice([T(F, F, F), T(F, T(F, F)), R((0, F), (2, T(F, F)))] + ([self.sum_ty(), self.sum_ty(), T(F, self.sum_ty())] if self.sumtys else []))
            for i in range(len(ptys)):
                if self.sumtys and r.chance(1, 6):
                    ptys[i] = self.sum_ty()
        pids = [self.fresh() for _ in ptys]
        # defaults only on float parameters of functions with >= 2 parameters, at least one parameter without default
        defaults = [False] * len(ptys)
        dvals = [None] * len(ptys)
        if role == 'runtime' and len(ptys) >= 2 and all(t == F for t in ptys) and r.chance(3, 4):
            for i in range(1, len(ptys)):
                if r.chance(2, 3):
                    defaults[i] = True
                    gv = [v for v in sc_global.vars if v.kind == 'global' and v.ty == F]
                    if gv and r.chance(1, 4):
                        dvals[i] = ('bin', 'add', ('var', r.choice(gv).id), ('lit', r.range(0, 3)))
                    else:
                        dvals[i] = ('lit', r.range(-2, 9))
        body_sc = sc_global.child(depth=0, self_ok=(role == 'runtime' and rty == F), state_ok=(role == 'runtime'),
                                  lam_state_ok=(role == 'maker') or self.dyn, phase='fun', used_state=False, touched_mut=False,
                                  self_ty=(rty if role == 'runtime' and is_data(rty) and (self.ext or rty == F) else None))
        body_sc.vars = [v for v in sc_global.vars if v.kind == 'global']
        for x, t in zip(pids, ptys):
            body_sc.vars.append(Var(x, t, 'param', 0, stateful=isinstance(t, tuple) and t[0] == 'Fn'))
        body = self.stmts(body_sc, rty, r.range(1, self.depth))
        params = [(x, (None if (t == F and r.chance(1, 3) and not any(defaults)) else t), dv) for x, t, dv in zip(pids, ptys, dvals)]
        f = Fun(name, ptys, rty, body_sc.used_state, defaults, pids, role)
        if role == 'runtime' and rty == F and all(t == F for t in ptys) and len(ptys) <= 2 and not any(defaults):
            self.known_sigs = getattr(self, 'known_sigs', []) + [Fn(ptys, F)]
        ret = rty if (self.ext and is_data(rty) and rty != F and (body_sc.used_state or r.chance(1, 2))) else None
        return f, ('fun', name, params, body, ret)

    def program(self):
        r = self.rng
        g = Scope([], [], 0, False, False, True, 'global')
        decls = []
        if self.ext and r.chance(1, 2):
            for _ in range(r.choice([1, 1, 2])):
                self.declare_sum()
        n_decl = r.choice([2, 3, 4, 5, 6])
        for _ in range(n_decl):
            c = r.below(10)
            if c < 4:
                f, d = self.fun_decl(g, 'runtime')
                g.funs.append(f); decls.append(d)
            elif c < 6:
                f, d = self.fun_decl(g, 'maker')
                g.funs.append(f); decls.append(d)
            elif c < 7:
                x = self.fresh()
                g.vars.append(Var(x, F, 'global', 0, mutable=r.chance(2, 3)))
                decls.append(('glet', ('pv', x), ('lit', r.range(-2, 7))))
            else:
                # a top-level let: closures made by makers / higher-order functions, tuples of them, plain values
                sc = g.child(phase='global', state_ok=False, lam_state_ok=True, used_state=False, touched_mut=False)
                sc.vars = g.vars
                makers = [f for f in g.funs if f.role == 'maker']
                if makers and r.chance(3, 4):
                    f = r.choice(makers)
                    e = ('app', ('var', f.id), self.args_for(sc, f.ptys, 2))
                    ty = f.rty
                    if ty[0] == 'T':
                        pat, vs = self.pattern(sc, ty)
                        for v in vs: v.kind = 'global'; v.stateful = True
                        g.vars.extend(vs)
                        decls.append(('glet', pat, e))
                    else:
                        x = self.fresh()
                        g.vars.append(Var(x, ty, 'global', 0, stateful=True))
                        decls.append(('glet', ('pv', x), e))
                else:
                    vs, (pat, e) = self.let_stmt(sc, 2, allow_mut=False)
                    for v in vs: v.kind = 'global'
                    decls.append(('glet', pat, e))
        inputs = [self.fresh()] if r.chance(1, 4) else []
        dsp = g.child(depth=0, self_ok=False, state_ok=True, lam_state_ok=self.dyn, phase='dsp', used_state=False, touched_mut=False)
        dsp.vars = list(g.vars) + [Var(x, F, 'input', 0) for x in inputs]
        self.cur_delay = r.choice([1, 2, 3, 4, 6])
        lets = []
        for _ in range(r.choice([0, 1, 1, 2, 3, 4])):
            c = r.below(8)
            if c < 6:
                _, (pat, e) = self.let_stmt(dsp, r.range(1, self.depth))
                lets.append((pat, e))
            else:
                a = self.assign_stmt(dsp, 2)
                if a is not None:
                    lets.append((('pw',), a))
        outs = [self.exprF(dsp, r.range(1, self.depth)) for _ in range(r.choice([1, 1, 2, 2, 3]))]
        return {"globals": decls, "inputs": inputs, "lets": lets, "outs": outs, "types": sorted(self.sumtys.items())}


def gen_inputs(rng, n, k):
    return [[rng.range(-4, 5) for _ in range(k)] for _ in range(n)]


def gen_cases(rng, n_cases, n_samples, tag="lmmx", dyn_share=8, ext=False):
    """ext=False (default; other checks use this stream): the language of the first version of the generator (closures, HOF, pipes,
    defaults, tuples, records);  ext=True: plus sum types, match and wide self (checks/lmmx_part.py)"""
    cases = []
    for i in range(n_cases):
        r = rng.fork((tag, i))
        dyn = bool(dyn_share) and i % dyn_share == dyn_share - 1
        g = XGen(r, depth=r.choice([2, 3, 3, 4]), dyn=dyn, ext=ext)
        p = g.program()
        if i % 8 != 5:
            p = avoid_proj_class(p)     # 1 program in 8 keeps projections in the positions of class PROJ
        rows = gen_inputs(r.fork("in"), n_samples, len(p['inputs']))
        cases.append((p, rows, dyn))
    return cases


# ------------------------------------------------------------------------------------------------
# lib/wideself.py made redundant: its generator's programs, translated into the Lmmx AST, so that the extracted reference
# semantics can be shown to reproduce the streams of wideself's python evaluator (checks/lmmx_part.py wide_redundancy)
# ------------------------------------------------------------------------------------------------
def wide_case(rng, n_samples):
    """the case wideself.gen_case(rng, n_samples) generates (same random draws, same source text — checked by the caller) together
    with its translation: -> (case dict of wideself, Lmmx program)"""
    import wideself as W
    g = W.Gen(rng)
    funs = [W.gen_wide_fun(g, i) for i in range(rng.range(1, 2))]
    nsite = rng.range(1, 3)
    dsp_binds = []
    for ci in range(nsite):
        f = rng.choice(funs)
        arg = rng.choice([("now",), ("add", ("now",), ("lit", rng.range(1, 3))), ("lit", rng.range(1, 4)), ("mulk", ("now",), 2)])
        guarded = rng.chance(1, 4)
        dsp_binds.append(("c%d" % ci, f, arg, guarded, rng.range(0, 5)))
    extra = g.stateful([], allow_if=False) if rng.chance(1, 2) else None
    names = [b[0] for b in dsp_binds] + (["z"] if extra is not None else [])
    two = len(names) >= 2 and rng.chance(1, 2)

    # ---- translation ----
    ids = {}
    def vid(scope, name):
        return ids.setdefault((scope, name), 1000 + len(ids))
    CNT = 900
    def tr(e, scope):
        k = e[0]
        if k == "lit": return ('lit', e[1])
        if k == "var": return ('var', vid(scope, e[1]))
        if k == "now": return ('now',)
        if k == "add": return ('bin', 'add', tr(e[1], scope), tr(e[2], scope))
        if k == "sub": return ('bin', 'sub', tr(e[1], scope), tr(e[2], scope))
        if k == "mulk": return ('bin', 'mul', tr(e[1], scope), ('lit', e[2]))
        if k == "gt": return ('bin', 'gt', tr(e[1], scope), ('lit', e[2]))
        if k == "mem": return ('mem', tr(e[2], scope))
        if k == "delay": return ('delay', e[2], tr(e[3], scope), ('lit', e[4]))
        if k == "cnt": return ('app', ('var', CNT), [tr(e[2], scope)])
        if k == "if": return ('if', tr(e[1], scope), tr(e[2], scope), tr(e[3], scope))
        raise ValueError(e)
    globals_ = [('fun', CNT, [(901, None, None)], ('bin', 'add', ('self',), ('var', 901)), None)]
    types = []
    fids = {}
    for f in funs:
        i, shape = f["i"], f["shape"]
        red, w = 800 + 2 * i, 801 + 2 * i
        fids[i] = (red, w)
        sc = "w%d" % i
        x = vid(sc, "x")
        def lets(body):
            for nm, e in reversed(f["binds"]):
                body = ('let', ('pv', vid(sc, nm)), tr(e, sc), body)
            return body
        if shape == "sum":
            tid = 700 + i
            pay = ([None] if f["nullary_first"] else []) + ['F', ('T', ['F', 'F'])]
            types.append((tid, pay))
            o = 1 if f["nullary_first"] else 0
            sh = ('ss', tid, [None if t is None else ('N' if t == 'F' else ('st', ['N', 'N'])) for t in pay])
            rs = vid("red%d" % i, "s"); rv = vid("red%d" % i, "v"); rw = vid("red%d" % i, "w")
            arms = ([(('mc', tid, 0, None), ('lit', 0))] if f["nullary_first"] else []) + \
                   [(('mc', tid, o, ('pv', rv)), ('var', rv)),
                    (('mc', tid, o + 1, ('pt', [('pv', rv), ('pv', rw)])), ('bin', 'add', ('bin', 'mul', ('var', rv), ('lit', 7)), ('var', rw)))]
            globals_.append(('fun', red, [(rs, ('S', tid), None)], ('match', ('var', rs), arms), 'F'))
            cond, va, vb = f["res"]
            res = ('if', tr(cond, sc), ('con', tid, o + 1, ('tup', [tr(vb[0], sc), tr(vb[1], sc)])), ('con', tid, o, tr(va[0], sc)))
            body = ('let', ('pv', vid(sc, "p")), ('app', ('var', red), [('selfs', sh)]), lets(res))
            globals_.append(('fun', w, [(x, 'F', None)], body, ('S', tid)))
            continue
        comps = f["comps"]
        cv = [vid(sc, c) for c in comps]
        rvs = [vid("red%d" % i, c) for c in comps]
        rp = vid("red%d" % i, "v")
        if shape == "tuple":
            rty = ('T', ['F'] * len(comps)); sh = ('st', ['N'] * len(comps))
            pat = lambda vs: ('pt', [('pv', v) for v in vs])
            mk = lambda es: ('tup', es)
            weights = [k + 1 for k in range(len(comps))]
        elif shape == "nested":
            rty = ('T', ['F', ('T', ['F', 'F'])]); sh = ('st', ['N', ('st', ['N', 'N'])])
            pat = lambda vs: ('pt', [('pv', vs[0]), ('pt', [('pv', vs[1]), ('pv', vs[2])])])
            mk = lambda es: ('tup', [es[0], ('tup', [es[1], es[2]])])
            weights = [1, 2, 3]
        else:
            fld = {c: FIELD_NAMES.index("fa") + k for k, c in enumerate(comps)}     # a0 a1 .. -> fa fb ..: alphabetical like a0 a1 ..
            rty = ('R', [(fld[c], 'F') for c in comps]); sh = ('sr', [(fld[c], 'N') for c in comps])
            pat = lambda vs: ('pr', [(fld[c], ('pv', v)) for c, v in zip(comps, vs)])
            mk = lambda es: ('rec', [(fld[c], e) for c, e in zip(comps, es)])
            weights = [k + 1 for k in range(len(comps))]
        total = None
        for v, wt in zip(rvs, weights):
            t = ('var', v) if (shape == "nested" and wt == 1) else ('bin', 'mul', ('var', v), ('lit', wt))
            total = t if total is None else ('bin', 'add', total, t)
        globals_.append(('fun', red, [(rp, rty, None)], ('let', pat(rvs), ('var', rp), total), 'F'))
        body = ('let', pat(cv), ('selfs', sh), lets(mk([tr(e, sc) for e in f["res"]])))
        globals_.append(('fun', w, [(x, 'F', None)], body, rty))
    lets_ = []
    for nm, f, arg, guarded, thr in dsp_binds:
        red, w = fids[f["i"]]
        call = ('app', ('var', red), [('app', ('var', w), [tr(arg, "dsp")])])
        if guarded:
            call = ('if', ('bin', 'gt', ('now',), ('lit', thr)), call, ('bin', 'sub', ('lit', 0), ('lit', 1)))
        lets_.append((('pv', vid("dsp", nm)), call))
    if extra is not None:
        lets_.append((('pv', vid("dsp", "z")), tr(extra, "dsp")))
    def sumv(ns):
        t = None
        for n in ns:
            t = ('var', vid("dsp", n)) if t is None else ('bin', 'add', t, ('var', vid("dsp", n)))
        return t
    outs = [('var', vid("dsp", names[0])), sumv(names[1:])] if two else [sumv(names)]
    prog = {"globals": globals_, "inputs": [], "lets": lets_, "outs": outs, "types": types}
    return prog
