"""Type-directed generator of WELL-TYPED Lmmx programs (see lmmx.py for the AST).

Every construct of the extended core language is produced with measurable frequency: closures capturing read-only,
capturing and assigning, escaping closures (returned from functions, stored in tuples), counters made of closures,
higher-order functions taking (stateful) named functions, stateful lambdas, pipes, default arguments (named-argument
calls), tuple / record construction, projection and destructuring, global variables assigned from dsp, all mixed with
self / mem / delay / if.

DISCIPLINE (each rule fences off a class where the real backends are KNOWN to leave the reference semantics; every class
has a witness program in corpus/lmmx/findings and is reported by checks/lmmx_part.py; generated programs stay outside):
  R1  parameters are never assigned                              (WASM ignores the assignment: finding X3)
  R2  a local variable is assigned only by its own frame and by lambdas written directly in that frame
      (an assignment from a lambda nested two levels deep is lost on both backends: finding X1)
  R3  a lambda that mentions an ASSIGNED local variable of its frame ("tainted") is only called by that frame or
      returned as (part of) the frame's result; it is never passed as an argument
      (the VM copies the captured cells when a closure is passed: finding X2)
  R4  instances created while dsp runs are stateless, except in the `dyn` share of programs, which is compared with the
      VM only when the reference reports a dynamically created stateful instance (WASM keys closure state by linear-
      memory address: finding X4)
  R5  a capture-free lambda bound by a local `let` is stateless; at top level stateful lambdas are written as `fn`
      (the compiler treats a capture-free lambda as a function constant: direct calls, per-call-site state)
  R6  default expressions are closed (literals, arithmetic, global variables); named-argument calls never use `..`
      (`{x = a, ..}` passes 0 instead of the default: finding X5)
  R7  a lambda let-bound inside an inner block `{ let f = |..| ..  e }` mentions neither assigned locals (R3: it is closed
      when the block ends) nor function-typed parameters (VM SIGSEGV: finding X7)
  no stateful direct call at top level (finding X6); immediately applied lambda literals are stateless (R5).
Classes that are NOT avoided but recognised by predicates of lmmx.known_classes (the backend concerned is exempt only when
it actually deviates): W5 PROJ W7 W9 (WASM), V1 (VM), X4 (dynamic, WASM).  One program in 8 keeps projections in the
positions of class PROJ (the others get `+ 0.0` there), one in 8 may create stateful instances while dsp runs.
"""
from lmmx import *

F = 'F'


def T(*ts): return ('T', list(ts))
def R(*fs): return ('R', list(fs))
def Fn(ps, r): return ('Fn', list(ps), r)


class Var:
    def __init__(self, id, ty, kind, depth, mutable=False, tainted=False, stateful=False):
        self.id, self.ty, self.kind, self.depth = id, ty, kind, depth
        self.mutable, self.tainted, self.stateful = mutable, tainted, stateful


class Fun:
    def __init__(self, id, ptys, rty, stateful, defaults=None, pids=None, role='runtime'):
        self.id, self.ptys, self.rty, self.stateful = id, ptys, rty, stateful
        self.defaults = defaults or [False] * len(ptys)
        self.pids = pids or []
        self.role = role          # 'runtime': callable from dsp; 'maker': only called by top-level lets


class Scope:
    def __init__(self, vars_, funs, depth, self_ok, state_ok, lam_state_ok, phase):
        self.vars, self.funs, self.depth = vars_, funs, depth
        self.self_ok, self.state_ok, self.lam_state_ok, self.phase = self_ok, state_ok, lam_state_ok, phase
        self.used_state = False      # a stateful construct was generated in this function / lambda body
        self.touched_mut = False     # a lambda body mentioned an assigned local of an enclosing frame

    def child(self, **kw):
        s = Scope(list(self.vars), self.funs, self.depth, self.self_ok, self.state_ok, self.lam_state_ok, self.phase)
        s.parent = self
        for k, v in kw.items():
            setattr(s, k, v)
        return s


class XGen:
    def __init__(self, rng, depth=3, dyn=False):
        self.rng = rng
        self.depth = depth
        self.dyn = dyn
        self.next_id = 10
        self.cur_delay = None

    def fresh(self):
        self.next_id += 1
        return self.next_id

    # ---- types -------------------------------------------------------------------------------------------
    def small_fn_ty(self):
        r = self.rng
        sigs = getattr(self, 'known_sigs', [])
        if sigs and r.chance(1, 2):
            return r.choice(sigs)
        return Fn([F] * r.choice([0, 1, 1, 1, 2]), F)

    def value_ty(self, d=1):
        """type of a let-bound / passed value"""
        r = self.rng
        c = r.below(12)
        if c < 6 or d <= 0: return F
        if c < 8: return T(*[self.value_ty(d - 1) if r.chance(1, 4) else F for _ in range(r.choice([2, 2, 3]))])
        if c < 10:
            n = r.choice([2, 2, 3])
            fs = sorted(self.pick_fields(n))
            return R(*[(f, F if r.chance(3, 4) else self.value_ty(0)) for f in fs])
        return self.small_fn_ty()

    def pick_fields(self, n):
        pool = list(range(len(FIELD_NAMES)))
        out = []
        for _ in range(n):
            out.append(pool.pop(self.rng.below(len(pool))))
        return out

    # ---- expressions ---------------------------------------------------------------------------------------
    def mark_state(self, sc):
        sc.used_state = True

    def vars_of(self, sc, ty, pred=None):
        return [v for v in sc.vars if v.ty == ty and self.readable(sc, v) and (pred is None or pred(v))]

    def readable(self, sc, v):
        # R2 (reading side): an assigned local is mentioned only by its frame and by directly nested lambdas
        if v.mutable and v.kind == 'local' and sc.depth - v.depth > 1:
            return False
        return True

    def note_use(self, sc, v):
        if v.kind == 'local' and sc.depth > v.depth and (v.mutable or v.tainted):
            s = sc
            while s is not None and s.depth > v.depth:
                s.touched_mut = True
                s = getattr(s, 'parent', None)
        if v.stateful:
            # calling / passing a stateful instance: the enclosing function does not become stateful (rule I)
            pass

    def leafF(self, sc):
        r = self.rng
        c = r.below(12)
        vs = self.vars_of(sc, F)
        if c < 5 and vs:
            v = r.choice(vs)
            self.note_use(sc, v)
            return ('var', v.id)
        if c < 6 and sc.self_ok and sc.state_ok:
            self.mark_state(sc)
            return ('self',)
        if c < 7 and r.chance(1, 2):
            return ('now',)
        if c < 9:
            # projection / field of an aggregate variable
            ag = [v for v in sc.vars if isinstance(v.ty, tuple) and v.ty[0] in ('T', 'R') and self.readable(sc, v)]
            cands = []
            for v in ag:
                if v.ty[0] == 'T':
                    cands += [('proj', ('var', v.id), i, v) for i, t in enumerate(v.ty[1]) if t == F]
                else:
                    cands += [('fld', ('var', v.id), f, v) for f, t in v.ty[1] if t == F]
            if cands:
                k, b, i, v = r.choice(cands)
                self.note_use(sc, v)
                return (k, b, i)
        return ('lit', r.range(-3, 6))

    def expr(self, sc, ty, d):
        if ty == F: return self.exprF(sc, d)
        if ty[0] == 'T': return self.exprT(sc, ty, d)
        if ty[0] == 'R': return self.exprR(sc, ty, d)
        return self.exprFn(sc, ty, d, as_arg=True)

    def args_for(self, sc, ptys, d):
        return [self.arg(sc, t, d) for t in ptys]

    def arg(self, sc, t, d):
        """an argument of type t: closures passed as arguments must not be tainted (R3)"""
        if isinstance(t, tuple) and t[0] == 'Fn':
            return self.exprFn(sc, t, d, as_arg=True)
        return self.expr(sc, t, d)

    def callable_funs(self, sc, rty, stateless=False):
        out = []
        for f in sc.funs:
            if f.rty != rty: continue
            if f.role == 'maker' and sc.phase != 'global': continue
            if f.stateful and (stateless or not sc.state_ok): continue
            out.append(f)
        return out

    def call_fun(self, sc, f, d):
        r = self.rng
        if f.stateful:
            self.mark_state(sc)
        if any(f.defaults) and r.chance(2, 3):
            # named-argument call: every parameter without default is given, the others sometimes
            given = [(pid, self.arg(sc, t, d - 1)) for pid, t, hasd in zip(f.pids, f.ptys, f.defaults) if (not hasd) or r.chance(1, 3)]
            if given:
                return ('cnamed', f.id, given)
        args = self.args_for(sc, f.ptys, d - 1)
        if len(args) == 1 and f.ptys[0] == F and r.chance(1, 4):
            return ('pipe', args[0], ('var', f.id))
        return ('app', ('var', f.id), args)

    def closure_vars(self, sc, fty, as_arg=False):
        out = []
        for v in sc.vars:
            if v.ty != fty or not self.readable(sc, v): continue
            if v.tainted and (as_arg or sc.depth != v.depth): continue      # R3: tainted closures are called by their frame only
            out.append(v)
        return out

    def exprF(self, sc, d):
        r = self.rng
        if d <= 0 or r.chance(1, 6):
            return self.leafF(sc)
        c = r.below(30)
        if c < 7:
            ops = ["add", "sub", "add", "sub", "lt", "le", "gt", "ge", "eq", "ne", "and", "or", "min", "max"]
            if r.chance(1, 3): ops.append("mul")
            return ('bin', r.choice(ops), self.exprF(sc, d - 1), self.exprF(sc, d - 1))
        if c < 8:
            return ('neg', self.exprF(sc, d - 1))
        if c < 10:
            return ('if', self.exprF(sc, d - 1), self.exprF(sc, d - 1), self.exprF(sc, d - 1))
        if c < 13:
            fs = self.callable_funs(sc, F)
            if fs:
                return self.call_fun(sc, r.choice(fs), d)
        if c < 17:
            # call of a closure-valued variable
            cands = [v for v in sc.vars if isinstance(v.ty, tuple) and v.ty[0] == 'Fn' and v.ty[2] == F and v in self.closure_vars(sc, v.ty)]
            if cands:
                v = r.choice(cands)
                self.note_use(sc, v)
                args = self.args_for(sc, v.ty[1], d - 1)
                if len(args) == 1 and v.ty[1][0] == F and r.chance(1, 4):
                    return ('pipe', args[0], ('var', v.id))
                return ('app', ('var', v.id), args)
        if c < 18:
            # immediately applied lambda / pipe into a lambda
            fty = Fn([F] * r.choice([1, 1, 2]), F)
            lam = self.lam2(sc, fty, d - 1, force_state=False)[0]
            args = self.args_for(sc, fty[1], d - 1)
            if len(args) == 1 and r.chance(1, 2):
                return ('pipe', args[0], lam)
            return ('app', lam, args)
        if c < 19:
            # call of the result of a call: mk(a)(b)
            fs = [f for f in sc.funs if isinstance(f.rty, tuple) and f.rty[0] == 'Fn' and f.rty[2] == F
                  and (f.role != 'maker' or sc.phase == 'global') and (not f.stateful or sc.state_ok) and not any(f.defaults)]
            if fs:
                f = r.choice(fs)
                if f.stateful: self.mark_state(sc)
                inner = ('app', ('var', f.id), self.args_for(sc, f.ptys, d - 1))
                return ('app', inner, self.args_for(sc, f.rty[1], d - 1))
        if c < 22:
            return self.blockF(sc, d)
        if c < 24:
            # projection of a tuple-valued expression / field of a record-valued expression
            if r.chance(1, 2):
                n = r.choice([2, 3])
                i = r.below(n)
                return ('proj', self.exprT(sc, T(*[F] * n), d - 1), i)
            fs = sorted(self.pick_fields(2))
            return ('fld', self.exprR(sc, R((fs[0], F), (fs[1], F)), d - 1), r.choice(fs))
        if sc.state_ok:
            if c < 26:
                self.mark_state(sc)
                return ('mem', self.exprF(sc, d - 1))
            if c < 28:
                self.mark_state(sc)
                n = self.cur_delay if (self.cur_delay and r.chance(1, 2)) else r.choice([1, 2, 3, 4, 6])
                t = ('lit', r.range(-1, n + 1)) if r.chance(3, 4) else self.leafF(sc)
                return ('delay', n, self.exprF(sc, d - 1), t)
            if c < 29 and sc.self_ok:
                self.mark_state(sc)
                return ('self',)
        return ('bin', r.choice(["add", "sub", "max", "min"]), self.exprF(sc, d - 1), self.exprF(sc, d - 1))

    def exprT(self, sc, ty, d):
        r = self.rng
        vs = self.vars_of(sc, ty)
        if vs and r.chance(1, 3):
            v = r.choice(vs)
            self.note_use(sc, v)
            return ('var', v.id)
        fs = self.callable_funs(sc, ty)
        if fs and d > 0 and r.chance(1, 3):
            return self.call_fun(sc, r.choice(fs), d)
        if d > 1 and r.chance(1, 8):
            return ('if', self.exprF(sc, d - 1), self.exprT(sc, ty, d - 1), self.exprT(sc, ty, d - 1))
        return ('tup', [self.expr(sc, t, d - 1) for t in ty[1]])

    def exprR(self, sc, ty, d):
        r = self.rng
        vs = self.vars_of(sc, ty)
        if vs and r.chance(1, 3):
            v = r.choice(vs)
            self.note_use(sc, v)
            return ('var', v.id)
        fs = self.callable_funs(sc, ty)
        if fs and d > 0 and r.chance(1, 3):
            return self.call_fun(sc, r.choice(fs), d)
        return ('rec', [(f, self.expr(sc, t, d - 1)) for f, t in ty[1]])

    def exprFn(self, sc, fty, d, as_arg=False, no_stateful_name=False):
        """an expression of function type: closure variable, function name (value position), call of a maker, lambda"""
        r = self.rng
        c = r.below(10)
        named = [f for f in sc.funs if f.ptys == fty[1] and f.rty == fty[2] and not any(f.defaults)
                 and (f.role != 'maker' or sc.phase == 'global') and ((not f.stateful) or (sc.lam_state_ok and not no_stateful_name))]
        if named and r.chance(1, 2):
            return ('var', r.choice(named).id)
        if c < 3:
            vs = self.closure_vars(sc, fty, as_arg=as_arg)
            # a tainted closure may still be RETURNED by its frame: handled by stmts()
            if vs:
                v = r.choice(vs)
                self.note_use(sc, v)
                return ('var', v.id)
        if c < 5:
            # a named function used as a value creates an instance: stateful ones only where instances may have state
            fs = [f for f in sc.funs if f.ptys == fty[1] and f.rty == fty[2] and not any(f.defaults)
                  and (f.role != 'maker' or sc.phase == 'global') and ((not f.stateful) or (sc.lam_state_ok and not no_stateful_name))]
            if fs:
                return ('var', r.choice(fs).id)
        if c < 6 and d > 0:
            fs = [f for f in sc.funs if f.rty == fty and (f.role != 'maker' or sc.phase == 'global') and (not f.stateful or sc.state_ok)]
            if fs:
                f = r.choice(fs)
                if f.stateful: self.mark_state(sc)
                return self.call_fun(sc, f, d)
        lam, touched = self.lam2(sc, fty, d)
        if touched and as_arg:
            # R3: regenerate without access to assigned locals
            sc2 = sc.child()
            sc2.vars = [v for v in sc.vars if not (v.kind == 'local' and (v.mutable or v.tainted))]
            lam, _ = self.lam2(sc2, fty, d)
        return lam

    def lam(self, sc, fty, d):
        return self.lam2(sc, fty, d)[0]

    def lam2(self, sc, fty, d, force_state=None):
        """|params| body of type fty; returns (lambda, mentions-an-assigned-local-of-an-enclosing-frame)"""
        params = [(self.fresh(), t) for t in fty[1]]
        st = sc.lam_state_ok if force_state is None else force_state
        body_sc = sc.child(depth=sc.depth + 1, self_ok=(fty[2] == F), state_ok=st, used_state=False, touched_mut=False)
        for x, t in params:
            body_sc.vars.append(Var(x, t, 'param', body_sc.depth))
        body = self.stmts(body_sc, fty[2], max(0, d), frame_is_lambda=True)
        sc.last_lam_stateful = body_sc.used_state
        if body_sc.touched_mut:
            s = sc
            # a lambda nested in a lambda that mentions an assigned local of an outer frame: propagate
            for v in sc.vars:
                pass
        lam = ('lam', [(x, None if (t == F and self.rng.chance(2, 3)) else t) for x, t in params], body)
        return lam, body_sc.touched_mut

    def captures_local(self, lam, sc):
        """does the lambda mention a non-global variable of the enclosing scopes?"""
        loc = {v.id for v in sc.vars if v.kind != 'global'}
        for x in subexprs(lam):
            if x[0] == 'var' and x[1] in loc: return True
            if x[0] == 'asg' and x[1] in loc: return True
        return False

    def blockF(self, sc, d):
        """{ let p = e  body } in operand position (never starts with an assignment)"""
        sub = sc.child()
        sub.parent = sc
        x, stmt = self.let_stmt(sub, d - 1, allow_mut=False, inner_block=True)
        body = self.exprF(sub, d - 1)
        sc.used_state = sc.used_state or sub.used_state
        sc.touched_mut = sc.touched_mut or sub.touched_mut
        return ('let', stmt[0], stmt[1], body)

    # ---- statements ------------------------------------------------------------------------------------------
    def let_stmt(self, sc, d, allow_mut=True, inner_block=False):
        """generate `let pat = e`, extend sc.vars; returns (var list, (pat, e))"""
        r = self.rng
        ty = self.value_ty(1)
        if isinstance(ty, tuple) and ty[0] == 'Fn' and inner_block:
            # the scope of this let ends before the frame does, and a function-typed local is CLOSED when its scope ends:
            # R3 (the lambda must not mention assigned locals) and R7 (nor function-typed parameters: finding X7)
            sc2 = sc.child()
            sc2.vars = [v for v in sc.vars if not (v.kind == 'local' and (v.mutable or v.tainted))
                        and not (v.kind == 'param' and isinstance(v.ty, tuple) and v.ty[0] == 'Fn')]
            e, _ = self.lam2(sc2, ty, d, force_state=False if not sc.lam_state_ok else None)
            if getattr(sc2, 'last_lam_stateful', False) and not self.captures_local(e, sc):
                e, _ = self.lam2(sc2, ty, d, force_state=False)
            x = self.fresh()
            v = Var(x, ty, 'local', sc.depth)
            sc.vars.append(v)
            return [v], (('pv', x), e)
        if isinstance(ty, tuple) and ty[0] == 'Fn':
            # a let-bound lambda (or other function value)
            before = sc.touched_mut
            sc.touched_mut = False
            touched = False
            if r.chance(3, 4):
                e, touched = self.lam2(sc, ty, d)
                if getattr(sc, 'last_lam_stateful', False) and not self.captures_local(e, sc):
                    # R5: a capture-free let-bound lambda is a function constant for the compiler: keep it stateless
                    e, touched = self.lam2(sc, ty, d, force_state=False)
            else:
                e = self.exprFn(sc, ty, d, no_stateful_name=True)
                if e[0] == 'lam':
                    touched = sc.touched_mut
                    if getattr(sc, 'last_lam_stateful', False) and not self.captures_local(e, sc):
                        e, touched = self.lam2(sc, ty, d, force_state=False)
            sc.touched_mut = before
            x = self.fresh()
            v = Var(x, ty, 'global' if sc.phase == 'global' and sc.depth == 0 else 'local', sc.depth, tainted=touched)
            sc.vars.append(v)
            return [v], (('pv', x), e)
        e = self.expr(sc, ty, d)
        if isinstance(ty, tuple) and ty[0] in ('T', 'R') and r.chance(1, 2):
            pat, vs = self.pattern(sc, ty)
            sc.vars.extend(vs)
            return vs, (pat, e)
        x = self.fresh()
        mutable = allow_mut and ty == F and r.chance(1, 3)
        v = Var(x, ty, 'global' if sc.phase == 'global' and sc.depth == 0 else 'local', sc.depth, mutable=mutable)
        sc.vars.append(v)
        return [v], (('pv', x), e)

    def pattern(self, sc, ty):
        r = self.rng
        kind = 'global' if sc.phase == 'global' and sc.depth == 0 else 'local'
        if ty[0] == 'T':
            ps, vs = [], []
            for t in ty[1]:
                if r.chance(1, 6):
                    ps.append(('pw',))
                elif isinstance(t, tuple) and t[0] in ('T', 'R') and r.chance(1, 2):
                    q, v2 = self.pattern(sc, t)
                    ps.append(q); vs += v2
                else:
                    x = self.fresh()
                    ps.append(('pv', x))
                    vs.append(Var(x, t, kind, sc.depth, stateful=isinstance(t, tuple) and t[0] == 'Fn'))
            return ('pt', ps), vs
        fps, vs = [], []
        for f, t in ty[1]:
            if isinstance(t, tuple) and t[0] in ('T', 'R') and r.chance(1, 2):
                q, v2 = self.pattern(sc, t)
                fps.append((f, q)); vs += v2
            else:
                x = self.fresh()
                fps.append((f, ('pv', x)))
                vs.append(Var(x, t, kind, sc.depth, stateful=isinstance(t, tuple) and t[0] == 'Fn'))
        return ('pr', fps), vs

    def assign_stmt(self, sc, d):
        """x = e for an assignable variable in reach (R1, R2), or None"""
        cands = [v for v in sc.vars if v.ty == F and (
            (v.kind == 'global' and v.mutable) or
            (v.kind == 'local' and v.mutable and 0 <= sc.depth - v.depth <= 1))]
        if not cands:
            return None
        v = self.rng.choice(cands)
        self.note_use(sc, v)
        return ('asg', v.id, self.exprF(sc, d))

    def stmts(self, sc, rty, d, frame_is_lambda=False, n_stmts=None):
        """body of a function / lambda: lets, assignments, expression statements, then the result of type rty"""
        r = self.rng
        items = []
        n = n_stmts if n_stmts is not None else r.choice([0, 0, 1, 1, 2, 3])
        for _ in range(n):
            c = r.below(6)
            if c < 4:
                _, (pat, e) = self.let_stmt(sc, d)
                items.append(('let', pat, e))
            elif c < 5:
                a = self.assign_stmt(sc, d)
                if a is not None:
                    items.append(('stmt', a))
            else:
                # a call for its effect: a tainted closure of this frame, or any float expression
                ts = [v for v in sc.vars if v.tainted and v.depth == sc.depth and v.ty[2] == F]
                if ts:
                    v = r.choice(ts)
                    items.append(('stmt', ('app', ('var', v.id), self.args_for(sc, v.ty[1], d - 1))))
        # result: a frame may return its tainted closures (escape through the return value only)
        res = None
        if isinstance(rty, tuple) and rty[0] == 'Fn':
            ts = [v for v in sc.vars if v.ty == rty and v.depth == sc.depth and v.kind in ('local',) and r.chance(2, 3)]
            if ts:
                res = ('var', r.choice(ts).id)
            else:
                res = self.lam(sc, rty, d)   # a lambda in result position may mention assigned locals (closed at return)
        elif isinstance(rty, tuple) and rty[0] == 'T' and any(isinstance(t, tuple) and t[0] == 'Fn' for t in rty[1]):
            es = []
            for t in rty[1]:
                if isinstance(t, tuple) and t[0] == 'Fn':
                    ts = [v for v in sc.vars if v.ty == t and v.depth == sc.depth and v.kind == 'local']
                    es.append(('var', r.choice(ts).id) if ts and r.chance(2, 3) else self.lam(sc, t, d))
                else:
                    es.append(self.expr(sc, t, d - 1))
            res = ('tup', es)
        else:
            res = self.expr(sc, rty, d)
        e = res
        for it in reversed(items):
            if it[0] == 'let':
                e = ('let', it[1], it[2], e)
            else:
                e = ('seq', it[1], e)
        return e

    # ---- programs ------------------------------------------------------------------------------------------
    def fun_decl(self, sc_global, role):
        r = self.rng
        name = self.fresh()
        self.cur_delay = r.choice([1, 2, 3, 4, 6])
        if role == 'maker':
            nps = r.choice([0, 1, 1, 2])
            ptys = [r.choice([F, F, F, self.small_fn_ty()]) for _ in range(nps)]
            inner = self.small_fn_ty()
            rty = r.choice([inner, inner, T(inner, self.small_fn_ty()), T(inner, F)])
        else:
            nps = r.choice([0, 1, 1, 2, 2, 2, 3])
            ptys = []
            for i in range(nps):
                c = r.below(10)
                if c < 6: ptys.append(F)
                elif c < 8: ptys.append(self.small_fn_ty())
                elif nps >= 2: ptys.append(r.choice([T(F, F), R((0, F), (2, F))]))
                else: ptys.append(F)
            rty = r.choice([F, F, F, F, T(F, F), R((1, F), (3, F))])
        pids = [self.fresh() for _ in ptys]
        # defaults only on float parameters of functions with >= 2 parameters, at least one parameter without default
        defaults = [False] * len(ptys)
        dvals = [None] * len(ptys)
        if role == 'runtime' and len(ptys) >= 2 and all(t == F for t in ptys) and r.chance(3, 4):
            for i in range(1, len(ptys)):
                if r.chance(2, 3):
                    defaults[i] = True
                    gv = [v for v in sc_global.vars if v.kind == 'global' and v.ty == F]
                    if gv and r.chance(1, 4):
                        dvals[i] = ('bin', 'add', ('var', r.choice(gv).id), ('lit', r.range(0, 3)))
                    else:
                        dvals[i] = ('lit', r.range(-2, 9))
        body_sc = sc_global.child(depth=0, self_ok=(role == 'runtime' and rty == F), state_ok=(role == 'runtime'),
                                  lam_state_ok=(role == 'maker') or self.dyn, phase='fun', used_state=False, touched_mut=False)
        body_sc.vars = [v for v in sc_global.vars if v.kind == 'global']
        for x, t in zip(pids, ptys):
            body_sc.vars.append(Var(x, t, 'param', 0, stateful=isinstance(t, tuple) and t[0] == 'Fn'))
        body = self.stmts(body_sc, rty, r.range(1, self.depth))
        params = [(x, (None if (t == F and r.chance(1, 3) and not any(defaults)) else t), dv) for x, t, dv in zip(pids, ptys, dvals)]
        f = Fun(name, ptys, rty, body_sc.used_state, defaults, pids, role)
        if role == 'runtime' and rty == F and all(t == F for t in ptys) and len(ptys) <= 2 and not any(defaults):
            self.known_sigs = getattr(self, 'known_sigs', []) + [Fn(ptys, F)]
        return f, ('fun', name, params, body, None)

    def program(self):
        r = self.rng
        g = Scope([], [], 0, False, False, True, 'global')
        decls = []
        n_decl = r.choice([2, 3, 4, 5, 6])
        for _ in range(n_decl):
            c = r.below(10)
            if c < 4:
                f, d = self.fun_decl(g, 'runtime')
                g.funs.append(f); decls.append(d)
            elif c < 6:
                f, d = self.fun_decl(g, 'maker')
                g.funs.append(f); decls.append(d)
            elif c < 7:
                x = self.fresh()
                g.vars.append(Var(x, F, 'global', 0, mutable=r.chance(2, 3)))
                decls.append(('glet', ('pv', x), ('lit', r.range(-2, 7))))
            else:
                # a top-level let: closures made by makers / higher-order functions, tuples of them, plain values
                sc = g.child(phase='global', state_ok=False, lam_state_ok=True, used_state=False, touched_mut=False)
                sc.vars = g.vars
                makers = [f for f in g.funs if f.role == 'maker']
                if makers and r.chance(3, 4):
                    f = r.choice(makers)
                    e = ('app', ('var', f.id), self.args_for(sc, f.ptys, 2))
                    ty = f.rty
                    if ty[0] == 'T':
                        pat, vs = self.pattern(sc, ty)
                        for v in vs: v.kind = 'global'; v.stateful = True
                        g.vars.extend(vs)
                        decls.append(('glet', pat, e))
                    else:
                        x = self.fresh()
                        g.vars.append(Var(x, ty, 'global', 0, stateful=True))
                        decls.append(('glet', ('pv', x), e))
                else:
                    vs, (pat, e) = self.let_stmt(sc, 2, allow_mut=False)
                    for v in vs: v.kind = 'global'
                    decls.append(('glet', pat, e))
        inputs = [self.fresh()] if r.chance(1, 4) else []
        dsp = g.child(depth=0, self_ok=False, state_ok=True, lam_state_ok=self.dyn, phase='dsp', used_state=False, touched_mut=False)
        dsp.vars = list(g.vars) + [Var(x, F, 'input', 0) for x in inputs]
        self.cur_delay = r.choice([1, 2, 3, 4, 6])
        lets = []
        for _ in range(r.choice([0, 1, 1, 2, 3, 4])):
            c = r.below(8)
            if c < 6:
                _, (pat, e) = self.let_stmt(dsp, r.range(1, self.depth))
                lets.append((pat, e))
            else:
                a = self.assign_stmt(dsp, 2)
                if a is not None:
                    lets.append((('pw',), a))
        outs = [self.exprF(dsp, r.range(1, self.depth)) for _ in range(r.choice([1, 1, 2, 2, 3]))]
        return {"globals": decls, "inputs": inputs, "lets": lets, "outs": outs}


def gen_inputs(rng, n, k):
    return [[rng.range(-4, 5) for _ in range(k)] for _ in range(n)]


def gen_cases(rng, n_cases, n_samples, tag="lmmx", dyn_share=8):
    cases = []
    for i in range(n_cases):
        r = rng.fork((tag, i))
        dyn = bool(dyn_share) and i % dyn_share == dyn_share - 1
        g = XGen(r, depth=r.choice([2, 3, 3, 4]), dyn=dyn)
        p = g.program()
        if i % 8 != 5:
            p = avoid_proj_class(p)     # 1 program in 8 keeps projections in the positions of class PROJ
        rows = gen_inputs(r.fork("in"), n_samples, len(p['inputs']))
        cases.append((p, rows, dyn))
    return cases
