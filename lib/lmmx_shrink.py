"""Shrinking of Lmmx programs (lmmx.py AST): candidates are evaluated in batches by a caller-supplied predicate
`fails_many(list of (prog, rows)) -> list of bool`."""
from lmmx import *


def children(e):
    k = e[0]
    if k == 'bin': return [e[2], e[3]]
    if k in ('neg', 'mem'): return [e[1]]
    if k == 'let': return [e[2], e[3]]
    if k == 'if': return [e[1], e[2], e[3]]
    if k == 'delay': return [e[2], e[3]]
    if k == 'tup': return list(e[1])
    if k in ('proj', 'fld'): return [e[1]]
    if k == 'rec': return [a for _, a in e[1]]
    if k == 'cnamed': return [a for _, a in e[2]]
    if k == 'lam': return [e[2]]
    if k == 'app': return [e[1]] + list(e[2])
    if k in ('pipe', 'seq'): return [e[1], e[2]]
    if k == 'asg': return [e[2]]
    if k == 'con': return [] if e[3] is None else [e[3]]
    if k == 'match': return [e[1]] + [b for _, b in e[2]]
    return []


def rebuild(e, ch):
    k = e[0]
    if k == 'bin': return ('bin', e[1], ch[0], ch[1])
    if k in ('neg', 'mem'): return (k, ch[0])
    if k == 'let': return ('let', e[1], ch[0], ch[1])
    if k == 'if': return ('if', ch[0], ch[1], ch[2])
    if k == 'delay': return ('delay', e[1], ch[0], ch[1])
    if k == 'tup': return ('tup', list(ch))
    if k in ('proj', 'fld'): return (k, ch[0], e[2])
    if k == 'rec': return ('rec', [(f, c) for (f, _), c in zip(e[1], ch)])
    if k == 'cnamed': return ('cnamed', e[1], [(x, c) for (x, _), c in zip(e[2], ch)])
    if k == 'lam': return ('lam', e[1], ch[0])
    if k == 'app': return ('app', ch[0], list(ch[1:]))
    if k in ('pipe', 'seq'): return (k, ch[0], ch[1])
    if k == 'asg': return ('asg', e[1], ch[0])
    if k == 'con': return e if e[3] is None else ('con', e[1], e[2], ch[0])
    if k == 'match': return ('match', ch[0], [(m, c) for (m, _), c in zip(e[2], ch[1:])])
    return e


def size(e):
    return 1 + sum(size(c) for c in children(e))


FLOAT_KINDS = ('bin', 'neg', 'mem', 'delay', 'now', 'self', 'sr', 'lit')


def local_shrinks(e, typed=False):
    """smaller replacements for the expression e itself.  typed=True: only replacements that keep the type of e for
    sure (otherwise ill-typed candidates are offered too; they simply do not fail)"""
    k = e[0]
    out = []
    if k in FLOAT_KINDS and k != 'lit' or (not typed and k in ('app', 'pipe', 'proj', 'fld', 'if', 'let', 'seq', 'cnamed')):
        out.append(('lit', 0))
        out.append(('lit', 1))
    if k == 'lit' and e[1] not in (0, 1):
        out.append(('lit', 1))
    if k == 'let':
        out.append(e[3])
        if not typed: out.append(e[2])
    elif k == 'seq':
        out.append(e[2])
        if not typed: out.append(e[1])
    elif k == 'pipe':
        out.append(('app', e[2], [e[1]]))
        if not typed: out.append(e[1])
    elif k == 'app':
        if not typed: out += list(e[2])
        if e[1][0] == 'lam' and len(e[1][1]) == len(e[2]) and len(e[2]) <= 2:
            # beta-like: let params = args in body
            b = e[1][2]
            for (x, _), a in reversed(list(zip(e[1][1], e[2]))):
                b = ('let', ('pv', x), a, b)
            out.append(b)
    elif k == 'if':
        out += [e[2], e[3]]
    elif k in ('bin',):
        out += [e[2], e[3]]
    elif k in ('neg', 'mem'):
        out.append(e[1])
    elif k == 'delay':
        out += [e[2]]
    elif k == 'match':
        # an arm without binders in place of the whole match; fewer arms (the last arm stays: it is usually the `_` arm)
        out += [b for m, b in e[2] if not mpat_vars(m)]
        if e[2] and e[2][-1][0] == ('mw',):
            for i in range(len(e[2]) - 1):
                out.append(('match', e[1], e[2][:i] + e[2][i + 1:]))
    elif k in ('lam', 'tup', 'rec', 'proj', 'fld', 'cnamed', 'con', 'selfs'):
        pass
    return out


TYPED = [False]


def expr_variants(e):
    """all programs-with-one-local-change of e, smaller first"""
    for s in local_shrinks(e, TYPED[0]):
        yield s
    ch = children(e)
    for i, c in enumerate(ch):
        for c2 in expr_variants(c):
            yield rebuild(e, ch[:i] + [c2] + ch[i + 1:])


def prog_variants(p):
    gl = p['globals']
    # drop a global declaration / a dsp let / an output
    for i in range(len(gl) - 1, -1, -1):
        yield dict(p, globals=gl[:i] + gl[i + 1:])
    for i in range(len(p['lets']) - 1, -1, -1):
        yield dict(p, lets=p['lets'][:i] + p['lets'][i + 1:])
    if len(p['outs']) > 1:
        for i in range(len(p['outs'])):
            yield dict(p, outs=p['outs'][:i] + p['outs'][i + 1:])
    if p['inputs']:
        yield dict(p, inputs=[])
    for i, g in enumerate(gl):
        if g[0] == 'fun':
            for b in expr_variants(g[3]):
                yield dict(p, globals=gl[:i] + [('fun', g[1], g[2], b, g[4])] + gl[i + 1:])
            if any(d is not None for _, _, d in g[2]):
                yield dict(p, globals=gl[:i] + [('fun', g[1], [(x, t, None) for x, t, _ in g[2]], g[3], g[4])] + gl[i + 1:])
        else:
            for b in expr_variants(g[2]):
                yield dict(p, globals=gl[:i] + [('glet', g[1], b)] + gl[i + 1:])
    for i, (q, e) in enumerate(p['lets']):
        for b in expr_variants(e):
            yield dict(p, lets=p['lets'][:i] + [(q, b)] + p['lets'][i + 1:])
    for i, e in enumerate(p['outs']):
        for b in expr_variants(e):
            yield dict(p, outs=p['outs'][:i] + [b] + p['outs'][i + 1:])


def prog_size(p):
    n = 0
    for g in p['globals']:
        n += 2 + size(g[3] if g[0] == 'fun' else g[2])
    for _, e in p['lets']:
        n += 1 + size(e)
    for e in p['outs']:
        n += size(e)
    return n


def shrink(p, rows, fails_many, batch=48, max_rounds=200, typed=False):
    TYPED[0] = typed
    """greedy: evaluate candidates in batches, take the first failing one, restart"""
    rounds = 0
    while rounds < max_rounds:
        rounds += 1
        progressed = False
        buf = []
        sz = prog_size(p)
        gen = (c for c in prog_variants(p) if prog_size(c) < sz or True)
        done = False
        while not done:
            buf = []
            for c in gen:
                buf.append(c)
                if len(buf) >= batch:
                    break
            else:
                done = True
            if not buf:
                break
            res = fails_many([(c, rows) for c in buf])
            for c, bad in zip(buf, res):
                if bad and prog_size(c) < sz:
                    p = c
                    progressed = True
                    break
            if progressed:
                break
        if not progressed:
            break
    return p
