"""C12 — long-running programs do not accumulate closures or heap objects; no use after release.

P: theorems of coq/theories/Props/C12.v over Heap/Model.v (slot map with generational keys, reference-counted
   stores, the discipline checker `balanced`, closure layer of vm.rs); the steady-state clause is refuted on the
   current tree (leaks F22..F24) with a real VM trace as Coq witness; F21 (leak) and F25 (use after release) are fixed.
C: (1) heap.rs differential: random operation sequences (alloc / retain / release / load / store, stale keys
       included) on the real `HeapStorage` (harness bin heap_run, "ops") vs the extracted `hrun` (ocaml/heap_drv.ml).
   (2) hook H2 (cfg mimium_verif; present when vm.rs of vplib.REPO has `pub fn heap_take`): the real VM's event log of
       closure / heap-object alloc / retain / release / free / use per program is replayed by the EXTRACTED monitor
       (`mstep`): a rejection is a use-after-release, a double release, a free of a referenced object or a
       model/implementation disagreement in the REAL VM; at every operation mark of the log (drop_closure,
       release_heap_closure, close_upvalues_by_idx, CloneHeap, CloseHeapClosure, allocate_heap_closure) the extracted
       transcription of that vm.rs operation must emit exactly the events the real VM logged; the model's live counts
       are compared with the real `closures.len()` / `heap.len()` after global initialisation and after every logged
       sample, and no live closure wrapper may refer to a freed closure.
   (3) directly on the implementation, without the model: `closures.len()` and `heap.len()` after samples N/2, N and
       2N are equal (N = 64 quick / 2048 thorough) on shipped fixtures / examples and on generated programs that
       create closures, higher-order calls, escaping closures, tuples/records of closures, boxed recursive variants
       and scheduled tasks; panics that name a dead handle are use-after-release.
   Growth is a VIOLATION unless every object that accounts for it falls in a known-finding class (KNOWN_FINDINGS.txt,
   predicates below); WASM-side heap is observed only through outputs (not by this check).
"""
import json, os, re, subprocess, sys, time
from vplib import *

OCAML = [("heap_drv", ["heap_model"], "ocaml/heap_drv.ml")]


def h2_present():
    try:
        return "pub fn heap_take" in open(os.path.join(REPO, "crates/lib/mimium-lang/src/runtime/vm.rs")).read()
    except OSError:
        return False


HARNESS = [("lang", ["heap_run"] + (["heap_run_h2"] if h2_present() else []), True)]

INVALID = (1 << 64) - 1
UAF_TAGS = {"invalid-closure": "get_closure on a dead ClosureIdx",
            "h2-stale-closure": "get_closure on a dead ClosureIdx (H2 assertion)",
            "unwrap-none": "drop_closure on a dead ClosureIdx",
            "sub-overflow": "reference count decremented below zero",
            "boxload-invalid": "BoxLoad through a dead HeapIdx",
            "boxstore-invalid": "BoxStore through a dead HeapIdx",
            "invalid-heapidx": "closure wrapper looked up through a dead HeapIdx",
            "invalid-callable": "indirect call through a dead handle"}
BUILTIN_NAMES = {"add", "sub", "mult", "div", "mod", "pow", "min", "max", "sin", "cos", "abs", "sqrt", "log",
                 "neg", "not", "eq", "ne", "lt", "le", "gt", "ge", "and", "or", "delay", "mem", "now", "samplerate"}


# --------------------------------------------------------------------------------------
# generator of mimium programs that create closures / boxed variants / tasks
# --------------------------------------------------------------------------------------
def fnum(rng):
    return rng.choice(["0.5", "1.0", "2.0", "3.0", "0.25", "4.0", "1.5", "7.0"])


def fop(rng):
    return rng.choice(["+", "-", "*"])


class Snip:
    def __init__(self, defs="", glob="", body=None, val="0.0", sched=False, tag="", persist=0):
        self.defs, self.glob, self.body, self.val, self.sched, self.tag = defs, glob, body or [], val, sched, tag
        self.persist = persist      # heap objects owned by a global of the snippet: they must stay alive on every sample


def s_local_closure(rng, i):
    d = rng.range(1, 3)
    a, b = fnum(rng), fnum(rng)
    if d == 1:
        return Snip(body=[f"let x{i} = {a}", f"let f{i} = | | {{ x{i} {fop(rng)} {b} }}"], val=f"f{i}()",
                    tag="local-closure")
    if d == 2:
        return Snip(body=[f"let x{i} = {a}",
                          f"let f{i} = | | {{ let y{i} = {b}\n let g{i} = | | {{ x{i} {fop(rng)} y{i} }}\n g{i}() }}"],
                    val=f"f{i}()", tag="local-closure-nested")
    return Snip(body=[f"let x{i} = {a}",
                      f"let f{i} = | | {{ let y{i} = {b}\n let g{i} = | | {{ let z{i} = {fnum(rng)}\n"
                      f" let h{i} = | | {{ x{i} {fop(rng)} y{i} {fop(rng)} z{i} }}\n h{i}() }}\n g{i}() }}"],
                val=f"f{i}()", tag="local-closure-nested")


def s_local_counter(rng, i):
    return Snip(body=[f"let x{i} = 0.0", f"let f{i} = | | {{ x{i} = x{i} + {fnum(rng)}\n x{i} }}"],
                val=f"(f{i}() + f{i}())", tag="local-closure-mut")


def s_escape(rng, i):
    return Snip(defs=f"fn mk{i}(a:float){{ |x:float|{{ x {fop(rng)} a }} }}\n",
                body=[f"let g{i} = mk{i}({fnum(rng)})"], val=f"g{i}({fnum(rng)})", tag="escaping-closure")


def s_escape_direct(rng, i):
    return Snip(defs=f"fn mk{i}(a:float){{ |x:float|{{ x {fop(rng)} a }} }}\n",
                val=f"mk{i}({fnum(rng)})({fnum(rng)})", tag="escaping-closure")


def s_escape_nested(rng, i):
    return Snip(defs=f"fn tst{i}(x:float){{\n let y = {fnum(rng)}\n let f = | | {{ let z = {fnum(rng)}\n"
                     f" let ff = | |{{ x {fop(rng)} y {fop(rng)} z }}\n ff() }}\n f }}\n",
                body=[f"let f2{i} = tst{i}({fnum(rng)})"], val=f"f2{i}()", tag="escaping-closure")


def s_hof_lambda(rng, i):
    return Snip(defs=f"fn ap{i}(f:(float)->float, y:float){{ f(y {fop(rng)} {fnum(rng)}) }}\n",
                body=[f"let c{i} = {fnum(rng)}"], val=f"ap{i}(|z|{{ z {fop(rng)} c{i} }}, {fnum(rng)})",
                tag="hof-lambda")


def s_hof_named(rng, i):
    return Snip(defs=f"fn ap{i}(f:(float)->float, y:float){{ f(y {fop(rng)} {fnum(rng)}) }}\n"
                     f"fn nm{i}(z:float){{ z {fop(rng)} {fnum(rng)} }}\n",
                val=f"ap{i}(nm{i}, {fnum(rng)})", tag="hof-named")


def s_hof_var(rng, i):
    return Snip(defs=f"fn ap{i}(f:(float)->float, y:float){{ f(y {fop(rng)} {fnum(rng)}) }}\n",
                body=[f"let k{i} = {fnum(rng)}", f"let lam{i} = |y| {{ y {fop(rng)} k{i} }}"],
                val=f"ap{i}(lam{i}, {fnum(rng)})", tag="hof-lambda")


def s_compose(rng, i):
    return Snip(defs=f"fn comp{i}(f:(float)->float, g:(float)->float){{ |x:float| g(f(x)) }}\n",
                body=[f"let p{i} = {fnum(rng)}", f"let q{i} = {fnum(rng)}",
                      f"let cg{i} = comp{i}(|x| {{ x {fop(rng)} p{i} }}, |x| {{ x {fop(rng)} q{i} }})"],
                val=f"cg{i}({fnum(rng)})", tag="compose")


def s_twice(rng, i):
    return Snip(defs=f"fn twice{i}(f:(float)->float){{ |x:float| f(f(x)) }}\n",
                body=[f"let w{i} = {fnum(rng)}", f"let tw{i} = twice{i}(|x| {{ x {fop(rng)} w{i} }})"],
                val=f"tw{i}({fnum(rng)})", tag="compose")


def s_pipe(rng, i):
    return Snip(body=[f"let pc{i} = {fnum(rng)}"],
                val=f"({fnum(rng)} |> |a| {{ a {fop(rng)} pc{i} }} |> |a| {{ a {fop(rng)} {fnum(rng)} {fop(rng)} pc{i} }})",
                tag="pipe-lambda")


def s_tuple_closure(rng, i):
    return Snip(body=[f"let tx{i} = {fnum(rng)}", f"let tt{i} = (| | {{ tx{i} {fop(rng)} {fnum(rng)} }}, {fnum(rng)})",
                      f"let (tf{i}, tv{i}) = tt{i}"], val=f"(tf{i}() + tv{i})", tag="tuple-closure")


def s_record_closure(rng, i):
    return Snip(body=[f"let rk{i} = {fnum(rng)}",
                      f"let rr{i} = {{f = |x:float| x {fop(rng)} rk{i}, k = {fnum(rng)}}}"],
                val=f"rr{i}.f(rr{i}.k)", tag="record-closure")


def s_global_closure(rng, i):
    return Snip(defs=f"fn mk{i}(a:float){{ |x:float|{{ x {fop(rng)} a }} }}\n", glob=f"let gc{i} = mk{i}({fnum(rng)})\n",
                val=f"gc{i}({fnum(rng)})", tag="global-closure")


def s_global_counter(rng, i):
    return Snip(defs=f"fn mkc{i}(){{\n let x = 0.0\n let up = | |{{ let res = x\n x = x + {fnum(rng)}\n res }}\n up }}\n",
                glob=f"let myc{i} = mkc{i}()\n", val=f"myc{i}()", tag="global-closure")


def s_global_replicate(rng, i):
    n = rng.range(1, 4)
    return Snip(defs=f"fn cnt{i}(inc:float){{ self+inc }}\n"
                     f"fn rep{i}(n:float,gen:()->(float)->float){{\n if (n>0.0){{\n let c = rep{i}(n - 1.0,gen)\n"
                     f" let g = gen()\n |x| {{g(x) * n + c(x)}}\n }}else{{\n |x| {{ 0.0 }}\n }}\n}}\n",
                glob=f"let myrep{i} = rep{i}({n}.0,| |cnt{i})\n", val=f"myrep{i}({fnum(rng)})", tag="global-closure")


def s_global_stateful(rng, i):
    return Snip(defs=f"fn sc{i}(rate:float){{ self + rate*0.1 }}\n"
                     f"fn shof{i}(counter:()->(float)->float){{\n let c1 = counter()\n let c2 = counter()\n"
                     f" |x| {{x + c1(1.0) + c2(2.0)}}\n}}\n",
                glob=f"let sf{i} = shof{i}(| |sc{i})\n", val=f"sf{i}({fnum(rng)})", tag="global-closure")


def list_lit(i, xs):
    s = f"Nil{i}"
    for x in reversed(xs):
        s = f"Cons{i}({x}, {s})"
    return s


def s_box_list(rng, i):
    n = rng.range(1, 6)
    xs = [fnum(rng) for _ in range(n)]
    defs = (f"type rec L{i} = Nil{i} | Cons{i}(float, L{i})\n"
            f"fn sum{i}(l: L{i}) -> float {{ match l {{ Nil{i} => 0.0, Cons{i}(h, t) => h + sum{i}(t) }} }}\n"
            f"fn len{i}(l: L{i}) -> float {{ match l {{ Nil{i} => 0.0, Cons{i}(_, t) => 1.0 + len{i}(t) }} }}\n")
    mode = rng.below(5)
    if mode == 0:      # built and dropped without being passed on
        return Snip(defs=defs, body=[f"let l{i} = {list_lit(i, xs)}"], val=fnum(rng),
                    tag="box-local-single" if n == 1 else "box-local-unused")
    if mode == 1:      # global list folded in dsp
        return Snip(defs=defs, glob=f"let gl{i} = {list_lit(i, xs)}\n", val=f"sum{i}(gl{i})", tag="box-global", persist=n)
    if mode == 2:
        return Snip(defs=defs, body=[f"let l{i} = {list_lit(i, xs)}"], val=f"(sum{i}(l{i}) + len{i}(l{i}))",
                    tag="box-passed")
    if mode == 3:
        return Snip(defs=defs, val=f"sum{i}({list_lit(i, xs)})", tag="box-passed")
    return Snip(defs=defs, body=[f"let l{i} = {list_lit(i, xs)}"], val=f"sum{i}(l{i})", tag="box-passed")


def tree_lit(rng, i, d):
    if d == 0 or rng.chance(1, 4):
        return f"Leaf{i}({fnum(rng)})"
    return f"Node{i}({tree_lit(rng, i, d - 1)}, {fnum(rng)}, {tree_lit(rng, i, d - 1)})"


def s_box_tree(rng, i):
    defs = (f"type rec T{i} = Leaf{i}(float) | Node{i}(T{i}, float, T{i})\n"
            f"fn tsum{i}(t: T{i}) -> float {{ match t {{ Leaf{i}(v) => v, "
            f"Node{i}(l, v, r) => tsum{i}(l) + v + tsum{i}(r) }} }}\n")
    lit = tree_lit(rng, i, rng.range(1, 3))
    mode = rng.below(3)
    if mode == 0:
        return Snip(defs=defs, glob=f"let gt{i} = {lit}\n", val=f"tsum{i}(gt{i})", tag="box-global")
    if mode == 1:
        return Snip(defs=defs, body=[f"let sub{i} = {lit}", f"let t1{i} = Node{i}(Leaf{i}(1.0), 2.0, sub{i})",
                                     f"let t2{i} = Node{i}(sub{i}, 3.0, Leaf{i}(4.0))"],
                    val=f"(tsum{i}(t1{i}) + tsum{i}(t2{i}))", tag="box-passed")
    return Snip(defs=defs, body=[f"let t{i} = {lit}"], val=f"tsum{i}(t{i})", tag="box-passed")


def s_box_option(rng, i):
    defs = (f"type rec O{i} = Som{i}(float) | Non{i}\n"
            f"fn unw{i}(o: O{i}, d: float) -> float {{ match o {{ Som{i}(v) => v, Non{i} => d }} }}\n")
    return Snip(defs=defs, body=[f"let sv{i} = Som{i}({fnum(rng)})", f"let nv{i} = Non{i}"],
                val=f"(unw{i}(sv{i}, 0.0) + unw{i}(nv{i}, {fnum(rng)}))", tag="box-none")


def s_sched_self(rng, i):
    p = rng.range(1, 5)
    return Snip(glob=f"let cn{i} = 0.0\nfn tk{i}(){{\n cn{i} = cn{i} + 1.0\n tk{i}@(now + {p}.0)\n}}\ntk{i}@{rng.range(1, 3)}.0\n",
                val=f"cn{i}", sched=True, tag="sched-self")


def s_sched_lambda_dsp(rng, i):
    return Snip(glob=f"let dn{i} = 0.0\n",
                body=[f"let df{i} = | | {{ dn{i} = dn{i} + 1.0 }}", f"df{i}@(now + {rng.range(1, 3)}.0)"],
                val=f"dn{i}", sched=True, tag="sched-dsp-lambda")


def s_sched_metro(rng, i):
    return Snip(defs=f"fn mc{i}(){{ self+1.0 }}\n"
                     f"fn metro{i}(interval,sig:()->float)->()->float{{\n let v = 0.0\n letrec updater = | |{{\n"
                     f"  v = sig();\n  let _ = updater@(now+interval);\n }}\n let _ = updater@(now+1)\n | | {{v}}\n}}\n",
                glob=f"let mv{i} = metro{i}({rng.range(1, 4)}.0 ,mc{i});\n", val=f"mv{i}()", sched=True,
                tag="sched-metro")


def s_sched_counter(rng, i):
    return Snip(defs=f"fn mkg{i}(){{\n let x = 0.0\n letrec gen = | |{{\n  x = x+1.0\n  gen@(now+{rng.range(1, 3)}.0)\n }}\n"
                     f" gen@1.0\n let getter = | | {{x}}\n getter\n}}\n",
                glob=f"let xg{i} = mkg{i}();\n", val=f"xg{i}()", sched=True, tag="sched-letrec")


def s_shared_upvalue(rng, i):
    """temporaries that share an upvalue cell with an escaping closure (4 or more of them used to free the captured
    closure while in use: F25, fixed)"""
    n = rng.range(1, 6)
    temps = "".join(f"  let t{i}_{j} = (|x:float| {{ g(x) {fop(rng)} {fnum(rng)} }})({fnum(rng)})\n" for j in range(n))
    return Snip(defs=f"fn mks{i}(g:(float)->float){{\n  let a = |x:float| {{ g(x) }}\n{temps}  a\n}}\n",
                body=[f"let sk{i} = {fnum(rng)}", f"let sg{i} = |x:float| {{ x {fop(rng)} sk{i} }}", f"let sa{i} = mks{i}(sg{i})"],
                val=f"sa{i}({fnum(rng)})", tag="shared-upvalue")


def s_box_destructure(rng, i):
    """an aggregate (tuple / record) that is the sole owner of a `type rec` value, bound by its own `let`, then taken apart by a
    destructuring `let` whose right-hand side is the bare variable; steady on the unchanged VM in exactly this shape (one cell whose
    tail is a let-bound value; nested inline constructors leak by the recorded finding F23).  Response to seeded change C12c."""
    defs = f"type rec L{i} = Nil{i} | Cons{i}(float, L{i})\n"
    g, x = fnum(rng), fnum(rng)
    body = [f"let rest{i} = Nil{i}"]
    if rng.chance(1, 2):
        body += [f"let voice{i} = ({g}, Cons{i}({x}, rest{i}))", f"let (gn{i}, pat{i}) = voice{i}"]
    else:
        body += [f"let voice{i} = {{gain = {g}, pat = Cons{i}({x}, rest{i})}}", f"let {{gain = gn{i}, pat = pat{i}}} = voice{i}"]
    return Snip(defs=defs, body=body, val=f"gn{i}", tag="box-destructure")


def s_sibling_capture(rng, i):
    """k sibling closures made in one call capture the same long-lived closure (a global, reached through a local alias or a
    parameter); every sibling is a plain `let`-bound local that dies with the call, or one of them escapes and is called later.
    The captured closure must stay alive: every close takes a reference for every captured closure and every drop gives one back."""
    k = rng.range(1, 4)
    ops = ["*", "+", "-", "+"]
    defs = f"fn mklfo{i}(rate:float){{\n let ph = 0.0\n | | {{ ph = ph + rate\n ph }}\n}}\n"
    glob = f"let lfo{i} = mklfo{i}({fnum(rng)})\n"
    variant = rng.below(3)
    sib = lambda m: "".join(f"  let sb{i}_{j} = |y:float| {{ y {ops[j % 4]} {m}() }}\n" for j in range(k))
    use = " + ".join(f"sb{i}_{j}({fnum(rng)})" for j in range(k))
    if variant == 0:        # alias in dsp
        return Snip(defs=defs, glob=glob, body=[f"let m{i} = lfo{i}", sib(f"m{i}").rstrip("\n")], val=f"({use})",
                    tag="sibling-capture-alias")
    if variant == 1:        # through a parameter
        return Snip(defs=defs + f"fn voice{i}(m:()->float, x:float){{\n{sib('m')}  {use} + x\n}}\n", glob=glob,
                    val=f"voice{i}(lfo{i}, {fnum(rng)})", tag="sibling-capture-param")
    # one sibling escapes and is called after the frame that made the siblings is gone
    return Snip(defs=defs + f"fn mkv{i}(m:()->float){{\n{sib('m')}  let keep = |y:float| {{ y + m() }}\n  let t = {use}\n  keep\n}}\n",
                glob=glob, body=[f"let kv{i} = mkv{i}(lfo{i})"], val=f"(kv{i}({fnum(rng)}) + kv{i}({fnum(rng)}))", tag="sibling-capture-escape")


FORWARDS = [
    ("if", lambda x, nil, i: f"if (gate{i}) {x} else {nil}"),
    ("if-else-arm", lambda x, nil, i: f"if (gate{i} - 1.0) {nil} else {x}"),
    ("block", lambda x, nil, i: f"{{ {x} }}"),
    ("if-blocks", lambda x, nil, i: f"if (gate{i}) {{ {x} }} else {{ {nil} }}"),
    ("match-same", lambda x, nil, i: f"match {x} {{ Nil{i} => {x}, Cons{i}(h, t) => {x} }}"),
    ("match-tail", lambda x, nil, i: f"match {x} {{ Nil{i} => {nil}, Cons{i}(h, t) => t }}"),
    ("tuple-proj", lambda x, nil, i: f"({x}, 1.0).0"),
    ("record-proj", lambda x, nil, i: f"{{a = {x}, b = 1.0}}.a"),
    ("identity-call", lambda x, nil, i: f"idl{i}({x})"),
    ("pipe", lambda x, nil, i: f"({x} |> idl{i})"),
    ("let-alias", lambda x, nil, i: f"{{ let al{i} = {x}\n   al{i} }}"),
    ("nested-if-block", lambda x, nil, i: f"if (gate{i}) {{ if (gate{i}) {x} else {nil} }} else {nil}"),
    ("var", lambda x, nil, i: x),
]


def s_forward(rng, i):
    """An OWNED recursive value (a global, or a `let` of dsp) flows into a variant constructor or a call through a
    forwarding expression (if arm, block, match arm, projection, identity call, pipe); the temporary dies, then the
    owner is read again, in the same sample and on every later one.  Steady and safe on a correct VM."""
    n = rng.range(1, 4)
    xs = [fnum(rng) for _ in range(n)]
    defs = (f"type rec L{i} = Nil{i} | Cons{i}(float, L{i})\n"
            f"fn sum{i}(l: L{i}) -> float {{ match l {{ Nil{i} => 0.0, Cons{i}(h, t) => h + sum{i}(t) }} }}\n"
            f"fn idl{i}(l: L{i}) -> L{i} {{ l }}\n")
    fname, fw = rng.choice(FORWARDS)
    owner_global = rng.chance(2, 3)
    owner = f"base{i}" if owner_global else f"own{i}"
    glob = f"let gate{i} = 1.0\n" + (f"let base{i} = {list_lit(i, xs)}\n" if owner_global else "")
    body = [] if owner_global else [f"let own{i} = {list_lit(i, xs)}"]
    fwd = fw(owner, f"Nil{i}", i)
    sink = rng.below(4)
    if sink == 0:       # new cell in front of the forwarded value, dies at the end of the inner block
        body.append(f"let fst{i} = {{\n    let nl{i} = Cons{i}({fnum(rng)}, {fwd})\n    0.0\n  }}")
        val = f"(fst{i} + sum{i}({owner}))"
    elif sink == 1:     # two cells
        body.append(f"let fst{i} = {{\n    let nl{i} = Cons{i}({fnum(rng)}, Cons{i}({fnum(rng)}, {fwd}))\n    sum{i}(nl{i})\n  }}")
        val = f"(fst{i} + sum{i}({owner}))"
    elif sink == 2:     # passed to a function
        val = f"(sum{i}({fwd}) + sum{i}({owner}))"
    else:               # bound, then used twice
        body.append(f"let fw{i} = {fwd}")
        val = f"(sum{i}(fw{i}) + sum{i}(Cons{i}({fnum(rng)}, fw{i})) + sum{i}({owner}))"
    return Snip(defs=defs, glob=glob, body=body, val=val, tag="forward-" + fname + ("-global" if owner_global else "-let"),
                persist=(n if owner_global else 0))


def s_let_result(rng, i):
    """a list built in a `let` and returned as the value of the function / block (known finding F26 when boxed)"""
    n = rng.range(1, 4)
    xs = [fnum(rng) for _ in range(n)]
    defs = (f"type rec L{i} = Nil{i} | Cons{i}(float, L{i})\n"
            f"fn sum{i}(l: L{i}) -> float {{ match l {{ Nil{i} => 0.0, Cons{i}(h, t) => h + sum{i}(t) }} }}\n")
    if rng.chance(1, 2):
        return Snip(defs=defs + f"fn mkl{i}() -> L{i} {{ let l = {list_lit(i, xs)}\n  l }}\n", val=f"sum{i}(mkl{i}())",
                    tag="let-result")
    return Snip(defs=defs, body=[f"let r{i} = {{ let l{i} = {list_lit(i, xs)}\n    l{i} }}"], val=f"sum{i}(r{i})",
                tag="let-result")


def s_local_letrec(rng, i):
    """a frame-local RECURSIVE closure (local letrec capturing its own binding), in dsp or in a callee of dsp: created and dropped within the
    sample on the unchanged VM (the frame's Return drops the still-open closure).  Response to seeded change C12d."""
    n = rng.range(1, 4)
    if rng.chance(1, 2):
        return Snip(body=[f"letrec depth{i} = |n| if (n > 0.0) depth{i}(n - 1.0) + 1.0 else 0.0"], val=f"depth{i}({n}.0)", tag="local-letrec")
    b = fnum(rng)
    return Snip(defs=f"fn powi{i}(base, n){{\n  letrec go = |k| if (k > 0.0) base * go(k - 1.0) else 1.0\n  go(n)\n}}\n",
                val=f"powi{i}({b}, {n}.0)", tag="local-letrec")


def s_plain(rng, i):
    return Snip(defs=f"fn pl{i}(x:float){{ x {fop(rng)} {fnum(rng)} + mem(x) }}\n", val=f"pl{i}({fnum(rng)})", tag="plain")


SNIPPETS = [s_local_closure, s_local_closure, s_local_counter, s_escape, s_escape_direct, s_escape_nested,
            s_hof_lambda, s_hof_named, s_hof_var, s_compose, s_twice, s_pipe, s_tuple_closure, s_record_closure,
            s_global_closure, s_global_counter, s_global_replicate, s_global_stateful, s_box_list, s_box_list,
            s_box_tree, s_box_option, s_sched_self, s_sched_lambda_dsp, s_sched_metro, s_sched_counter, s_plain,
            s_shared_upvalue, s_sibling_capture, s_sibling_capture, s_box_destructure, s_box_destructure, s_local_letrec, s_local_letrec, s_forward, s_forward, s_forward, s_forward, s_forward, s_forward, s_let_result]
# snippets that only use objects made during global initialisation: the property must hold with no exception
STEADY_TAGS = {"global-closure", "box-global", "box-none", "plain", "sched-metro", "sched-letrec", "box-local-single", "box-destructure", "local-letrec"}


def gen_program(rng, only_steady=False):
    k = rng.range(1, 3)
    snips = []
    tries = 0
    while len(snips) < k and tries < 50:
        tries += 1
        s = rng.choice(SNIPPETS)(rng, len(snips))
        if only_steady and s.tag not in STEADY_TAGS:
            continue
        snips.append(s)
    src = "".join(s.defs for s in snips) + "".join(s.glob for s in snips)
    body = "\n".join("    " + st for s in snips for st in s.body)
    val = " + ".join(s.val for s in snips)
    src += "fn dsp(){\n" + body + ("\n" if body else "") + "    " + val + "\n}\n"
    return {"src": src, "sched": True, "tags": [s.tag for s in snips], "persist": sum(s.persist for s in snips)}


# --------------------------------------------------------------------------------------
# running the harness / the extracted monitor
# --------------------------------------------------------------------------------------
def run_harness(exe, cases, timeout=1500):
    """cases -> list of result dicts; a case that kills the process gets {"st": "crash"} and the rest is resumed."""
    out = []
    todo = list(cases)
    while todo:
        inp = "".join(json.dumps(c) + "\n" for c in todo)
        try:
            p = subprocess.run([exe], input=inp, capture_output=True, text=True, errors="replace", timeout=timeout)
            lines = [l[6:] for l in p.stdout.split("\n") if l.startswith("@@C12 ")]
        except subprocess.TimeoutExpired as ex:
            so = ex.stdout or ""
            if isinstance(so, bytes):
                so = so.decode(errors="replace")
            lines = [l[6:] for l in so.split("\n") if l.startswith("@@C12 ")]
            lines = lines[:max(0, len(lines) - 0)]
        got = []
        for l in lines:
            try:
                got.append(json.loads(l))
            except ValueError:
                break
        out += got[:len(todo)]
        if len(got) >= len(todo):
            break
        out.append({"st": "crash", "at": -1, "msg": "harness-died", "h2": False, "main": [0, 0], "lens": [], "nev": 0,
                    "out": []})
        todo = todo[len(got) + 1:]
    return out


def run_monitor(drv, paths):
    rc, lines, _ = run_lines(drv, "".join(f"T {p}\n" for p in paths), timeout=1500)
    res = []
    for l in lines:
        if not l.startswith("T "):
            continue
        head, _, tail = l[2:].partition(";")
        tail, _, extra = tail.partition(";")
        nops = int(extra.split("=")[1]) if "ops=" in extra else 0
        segs = {}
        for it in tail.split():
            f = it.split(":")
            segs[int(f[0])] = {"cl": int(f[1]), "hp": int(f[2]), "settled": f[3] == "1",
                               "ca": int(f[4]), "cf": int(f[5]), "ha": int(f[6]), "hf": int(f[7])}
        res.append({"status": head.strip(), "segs": segs, "ops": nops})
    return res


# --------------------------------------------------------------------------------------
# per-object histories from an H2 event file (for the known-finding class predicates)
# --------------------------------------------------------------------------------------
def histories(path):
    """{(store, idx, ver): {t, kind, ret, rel, closed, freed}} for every object allocated in the file."""
    H = {}
    wrapper_next = False
    t = -1
    with open(path) as f:
        for line in f:
            p = line.split()
            if not p:
                continue
            if p[0] == "S":
                t = int(p[1]) + 1
                continue
            k, i, v = int(p[1]), int(p[2]), int(p[3])
            if k & 0x20:
                if (k & 15) == 5:
                    wrapper_next = True
                continue
            st = "C" if k & 0x10 else "H"
            op = k & 15
            key = (st, i, v)
            if op == 0:
                kind = "closure" if st == "C" else ("wrapper" if wrapper_next else "box")
                if st == "H":
                    wrapper_next = False
                H[key] = {"t": t, "kind": kind, "ret": 0, "rel": 0, "closed": False, "freed": False}
            elif key in H:
                h = H[key]
                if op == 1:
                    h["ret"] += 1
                elif op == 2:
                    h["rel"] += 1
                elif op == 3:
                    h["freed"] = True
                elif op == 6:
                    h["closed"] = True
    return H


# known-finding classes (KNOWN_FINDINGS.txt); each maps a leaked object's history to a class or None
F22, F23, F24, F26 = "F22", "F23", "F24", "F26"
CLASS_OF = {F22: "cloned-closure-never-released", F23: "boxed-value-cloned-never-released",
            F24: "executed-task-closure-still-referenced", F26: "let-bound-boxed-value-is-the-result-of-its-scope"}

LET_RESULT = re.compile(r"let\s+(\w+)\s*=[^\n]*\n\s*\1\s*\n?\s*\}")


def let_result_pattern(src):
    """Class predicate of F26 (syntactic): some `let x = ..` is immediately followed by `x` as the last expression of
    its block / function body, i.e. the let-bound value is the result of the scope that releases it."""
    return LET_RESULT.search(src) is not None


def classify_leak(h):
    """The narrow predicates.  A leaked object outside all of them is a VIOLATION."""
    if h["kind"] == "closure":
        if h["rel"] >= 1 and h["closed"]:
            return F24      # dropped once (scheduler ran it / owner released it) but a CloneHeap reference remains
        if h["ret"] >= 1:
            return F22      # cloned by CloneHeap (argument / return value / stored / scheduled / captured)
        return None         # never cloned, closed or not: release_heap_closure must drop it at the exit of its frame
    if h["kind"] == "wrapper":
        return F22 if h["ret"] >= 1 else None      # an uncloned wrapper must be freed by release_heap_closures
    if h["kind"] == "box":
        return F23 if h["ret"] >= 1 else None      # an uncloned box must be freed by the scope-exit BoxRelease
    return None


# --------------------------------------------------------------------------------------
def lens_at(r, i):
    l = r["lens"]
    return tuple(l[i]) if 0 <= i < len(l) else None


def run(ck):
    t_start = time.time()
    proved = ck.prove(tables=[], extra_targets=["theories/Extract/HeapExtract.vo"])
    quick = ck.tier == "quick"
    N = 64 if quick else 2048
    EVN = 16 if quick else 48                   # leading samples whose events are logged for every program
    CLS_N = 96                                  # samples of the classification re-run of a growing program
    n_gen = 260 if quick else 2500
    n_ops = 1500 if quick else 12000
    have_h2 = h2_present()
    ck.coverage["h2_hook_present"] = have_h2

    rc, out, exe_dir = cargo_build("lang", ["heap_run"] + (["heap_run_h2"] if have_h2 else []))
    if rc != 0:
        ck.violation("harness build failed: " + out[-1500:], {"kind": "build"}, no_input=True)
        return ck.finish("harness build failed", ["cargo"], None)
    exe = os.path.join(exe_dir, "heap_run_h2" if have_h2 else "heap_run")
    rc, out, drv = ocaml_build("heap_drv", ["heap_model"], os.path.join(VERIF, "ocaml/heap_drv.ml"))
    if rc != 0:
        ck.violation("ocaml build failed: " + out[-1500:], {"kind": "build"}, no_input=True)
        return ck.finish("ocaml build failed", ["ocamlfind"], None)
    probe = subprocess.run([exe, "--probe"], capture_output=True, text=True).stdout
    ck.coverage["harness_reports_h2"] = '"h2":true' in probe.replace(" ", "")
    if '"key_layout":"idx-high"' not in probe.replace(" ", ""):
        ck.violation("the VM's register encoding of slot-map keys is no longer (index << 32 | version): "
                     "Heap/Model.v key_of_raw must follow (" + probe.strip()[:100] + ")", {"kind": "layout"}, no_input=True)

    evdir = os.path.join(CACHE, "c12ev", f"{os.getpid()}")
    os.makedirs(evdir, exist_ok=True)
    known = {f["id"]: f for f in known_findings("C12")}

    # ---------------------------------------------------------------- replay mode
    if ck.replay:
        rp = json.load(open(ck.replay))["replay"]
        if rp.get("kind") == "ops":
            check_ops(ck, exe, drv, [rp["ops"]])
        else:
            progs = [{"name": rp.get("name", "replay"), "src": rp["src"], "sched": rp.get("sched", True),
                      "path": rp.get("path"), "tags": rp.get("tags", []), "persist": rp.get("persist", 0)}]
            check_programs(ck, exe, drv, evdir, progs, rp.get("N", N), EVN, CLS_N, have_h2, known)
        return ck.finish("replay", ["replay"], None)

    # ---------------------------------------------------------------- (1) heap.rs differential
    rng = ck.rng.fork("ops")
    seqs = [gen_ops(rng) for _ in range(n_ops)]
    check_ops(ck, exe, drv, seqs)

    # ---------------------------------------------------------------- (2)+(3) programs
    progs = []
    cdir = os.path.join(VERIF, "corpus", "C12")
    if os.path.isdir(cdir):
        for fn in sorted(os.listdir(cdir)):
            if fn.endswith(".mmm"):
                p = os.path.join(cdir, fn)
                csrc = open(p).read()
                pm = re.search(r"//\s*persist-heap:\s*(\d+)", csrc)
                progs.append({"name": "corpus/" + fn, "src": csrc, "sched": True, "path": p, "tags": ["corpus"],
                              "persist": int(pm.group(1)) if pm else 0})
    fixdir = os.path.join(REPO, "crates/lib/mimium-test/tests/mmm")
    for fn in sorted(os.listdir(fixdir)):
        if fn.endswith(".mmm"):
            p = os.path.join(fixdir, fn)
            progs.append({"name": "fixture/" + fn, "src": open(p).read(), "sched": True, "path": p, "tags": ["fixture"]})
    exdir = os.path.join(REPO, "examples")
    for fn in sorted(os.listdir(exdir)):
        if fn.endswith(".mmm"):
            p = os.path.join(exdir, fn)
            progs.append({"name": "example/" + fn, "src": open(p).read(), "sched": True, "path": p, "tags": ["example"]})
    grng = ck.rng.fork("programs")
    for j in range(n_gen):
        g = gen_program(grng, only_steady=(j % 4 == 3))
        g["name"] = f"gen/{j}"
        g["path"] = None
        progs.append(g)
    check_programs(ck, exe, drv, evdir, progs, N, EVN, CLS_N, have_h2, known)

    # ---------------------------------------------------------------- witnesses of the refuted clause
    check_witness(ck, exe, drv, evdir, have_h2)

    try:
        for fn in os.listdir(evdir):
            os.remove(os.path.join(evdir, fn))
        os.rmdir(evdir)
    except OSError:
        pass
    ck.coverage["evaluations"] = ck.coverage.get("ops_sequences", 0) + ck.coverage.get("programs_run", 0)
    ck.coverage["distinct_nontrivial"] = ck.coverage.get("programs_with_heap_activity", 0)
    ck.coverage["N"] = N
    if not proved:
        ck.violation("a proof obligation of Props/C12.v no longer checks: " + "; ".join(ck.broken)[:800],
                     {"kind": "proof", "broken": ck.broken}, no_input=True)
    ck.finish(
        "Coq (all closed): slot-map stores with generational keys; any heap.rs operation sequence keeps 'present iff count "
        "> 0, refcount = count' and never reissues a key (C12_heap_inv); the extracted monitor `balanced` is sound: no "
        "dereference or lookup of a freed key, releases <= references, final live set = keys with positive count, live + "
        "frees = allocs (C12_no_uaf_balanced); net-zero periods keep the live count constant (C12_steady_state_partial); the "
        "vm.rs closure-layer operations agree with the monitor (C12_closure_ops_replay). The steady-state clause is REFUTED "
        "on the current tree with a real VM trace as witness (C12_steady_state_refuted: leaks, known findings F22..F24); "
        "the former use-after-release witness (F25, fixed) is accepted (C12_former_uaf_witness_accepted). Correspondence: heap.rs differential; H2 event logs of the "
        "real VM replayed by the extracted monitor, every closure-layer operation of the log compared event by event "
        "with the extracted transcription, live counts compared with closures.len()/heap.len(), no live wrapper of a "
        "freed closure; direct N/2, N, 2N comparison on fixtures, examples and generated programs.",
        ["Coq kernel 8.16.1", "extraction (ExtrOcamlBasic/ExtrOcamlString) + ocaml/heap_drv.ml",
         "harness/lang bins heap_run / heap_run_h2 + hook H2 placement in vm.rs / heap.rs",
         "slot versions unbounded in the model (u32 wrap after 2^31 reuses of one slot not modelled)",
         "python generator, leak classification predicates and steady-state comparison in checks/C12.py",
         "WASM-side heap not observed (outputs only)",
         "compiled programs are not proved to emit net-zero balanced periods (C12_steady_state_partial)"],
        "VIOLATION = monitor rejection (use after release / double release / free while referenced / model-vs-VM "
        "disagreement), live-count mismatch, handle panic, or growth between N/2, N, 2N not fully explained by objects "
        "in a known-finding class")


# --------------------------------------------------------------------------------------
# (1) heap.rs operations
# --------------------------------------------------------------------------------------
def gen_ops(rng):
    """A sequence of [code, idx, ver, word]; keys are mostly ones handed out earlier (live or stale), sometimes wild."""
    n = rng.range(1, 60)
    issued = []             # keys handed out so far, predicted with a shadow of the slot map (version per slot, free list)
    vers = [0]
    free = []
    ops = []
    live = {}
    for _ in range(n):
        c = rng.below(10)
        if c < 3 or not issued:
            if free:
                i = free.pop()
                vers[i] |= 1
            else:
                i = len(vers)
                vers.append(1)
            issued.append((i, vers[i]))
            live[(i, vers[i])] = 1
            ops.append([0, 0, 0, rng.below(1000)])
            continue
        if rng.chance(1, 12):
            key = (rng.range(1, len(vers) + 1), 2 * rng.below(4) + 1)
        else:
            key = rng.choice(issued)
        code = 1 if c < 5 else (2 if c < 8 else (3 if c < 9 else 4))
        ops.append([code, key[0], key[1], rng.below(1000)])
        if key in live:
            if code == 1:
                live[key] += 1
            elif code == 2:
                live[key] -= 1
                if live[key] == 0:
                    del live[key]
                    vers[key[0]] += 1
                    free.append(key[0])
    return ops


def ops_oracle(ops, res_tokens):
    """The property clause on the implementation's own answers: an object is present iff allocs + retains - releases
    (those that took effect) > 0; no key is handed out twice; len = allocs - frees."""
    cnt = {}
    seen = set()
    frees = 0
    allocs = 0
    for o, r in zip(ops, res_tokens):
        code = o[0]
        key = (o[1], o[2])
        if code == 0:
            m = re.match(r"k:(\d+):(\d+)$", r)
            if not m:
                return "alloc answer " + r
            k = (int(m.group(1)), int(m.group(2)))
            if k in seen:
                return f"key {k} handed out twice"
            seen.add(k)
            cnt[k] = 1
            allocs += 1
            continue
        present = cnt.get(key, 0) > 0
        if not present:
            if r != "i":
                return f"operation on absent key {key} answered {r}"
            continue
        if code == 1:
            cnt[key] += 1
            if r != f"c:{cnt[key]}":
                return f"retain {key} -> {r}, count {cnt[key]}"
        elif code == 2:
            cnt[key] -= 1
            if r != f"c:{cnt[key]}":
                return f"release {key} -> {r}, count {cnt[key]}"
            if cnt[key] == 0:
                frees += 1
        elif code == 3:
            if not r.startswith("x:"):
                return f"load of present key {key} answered {r}"
        else:
            if r != "u":
                return f"store to present key {key} answered {r}"
    return None, allocs - frees


def check_ops(ck, exe, drv, seqs):
    real = run_harness(exe, [{"ops": s} for s in seqs])
    lines = []
    for s in seqs:
        toks = []
        for code, i, v, w in s:
            toks.append(f"a:{w}" if code == 0 else (f"r:{i}:{v}" if code == 1 else (f"d:{i}:{v}" if code == 2 else (
                f"l:{i}:{v}" if code == 3 else f"s:{i}:{v}:{w}"))))
        lines.append("O " + " ".join(toks))
    rc, mout, _ = run_lines(drv, "\n".join(lines) + "\n", timeout=1500)
    mout = [l for l in mout if l.startswith("O ")]
    for idx, s in enumerate(seqs):
        ck.add("ops_sequences")
        ck.add("ops_total", len(s))
        r = real[idx] if idx < len(real) else {}
        if "res" not in r:
            ck.violation("heap.rs operation sequence made the harness fail", {"kind": "ops", "ops": s})
            continue
        rt = r["res"].split()
        orc = ops_oracle(s, rt)
        if not isinstance(orc, tuple):
            ck.violation("heap.rs violates the reference-count clause: " + str(orc), {"kind": "ops", "ops": s})
            continue
        if orc[1] != r["len"]:
            ck.violation(f"heap.len() = {r['len']} but allocations - frees = {orc[1]}", {"kind": "ops", "ops": s})
            continue
        want = f"O {r['res']} len={r['len']}" if rt else f"O  len={r['len']}"
        got = mout[idx] if idx < len(mout) else "<missing>"
        if " ".join(got.split()) != " ".join(want.split()):
            ck.violation("extracted hrun and heap.rs disagree", {"kind": "ops", "ops": s, "model": got, "real": want},
                         no_input=False)
        if idx < 3:
            ck.sample({"ops": s[:8], "real": r["res"][:80]})


# --------------------------------------------------------------------------------------
# (2)+(3) programs
# --------------------------------------------------------------------------------------
def check_programs(ck, exe, drv, evdir, progs, N, EVN, CLS_N, have_h2, known):
    cases = []
    for j, p in enumerate(progs):
        cases.append({"src": p["src"], "n": 2 * N, "sched": p.get("sched", True), "path": p.get("path"),
                      "evfile": os.path.join(evdir, f"p{j}.ev") if have_h2 else None, "evn": EVN})
    res = run_harness(exe, cases)
    mon = run_monitor(drv, [c["evfile"] for c in cases]) if have_h2 else [None] * len(cases)
    growing = []
    for j, p in enumerate(progs):
        r = res[j] if j < len(res) else {"st": "crash", "msg": "missing", "lens": [], "main": [0, 0], "at": -1}
        rep = {"kind": "program", "name": p["name"], "src": p["src"], "sched": p.get("sched", True),
               "path": p.get("path"), "N": N, "tags": p.get("tags", []), "persist": p.get("persist", 0)}
        f26 = F26 in known and let_result_pattern(p["src"])
        if r["st"] == "compile":
            ck.add("programs_rejected_by_compiler")
            continue
        ck.add("programs_run")
        if r["st"] == "crash":
            ck.add("programs_harness_crash")
            ck.violation("the VM killed the harness process while running the program (stack overflow / abort)", rep)
            continue
        uaf_panic = r["st"] == "panic" and r["msg"] in UAF_TAGS
        if r["st"] == "panic" and not uaf_panic:
            ck.add("programs_other_panic")
        m = mon[j] if have_h2 and j < len(mon) else None
        if uaf_panic and (m is None or not m["status"].startswith("reject")):
            # a handle panic that the event log does not explain (or no log): use after release
            if f26:
                ck.add("known_" + F26)
                ck.known(known[F26], f"{p['name']}: panic {r['msg']} at sample {r['at']}")
                continue
            ck.violation(f"use after release: {UAF_TAGS[r['msg']]} (panic at sample {r['at']})", rep)
            continue
        if m is not None:
            ck.add("event_logs_replayed")
            ck.add("events_replayed", r.get("nev", 0))
            if any(sg["ca"] + sg["ha"] > 0 for sg in m["segs"].values()):
                ck.add("programs_with_heap_activity")
            if m["status"].startswith("reject"):
                f = m["status"].split(":")
                kind = int(f[2])
                opn = {0: "alloc", 1: "retain", 2: "release", 3: "free", 4: "use", 5: "probe", 6: "close"}.get(kind & 15, "?")
                store = "closure" if kind & 0x10 else "heap object"
                rc = "INVALID" if f[5] == str(INVALID) else f[5]
                what = (f"verified monitor rejects event #{f[1]} of the real VM: {opn} of {store} ({f[3]},{f[4]}) "
                        f"refcount-after {rc}: "
                        + ("use after release / double release" if rc == "INVALID" or opn in ("retain", "release", "use", "close")
                           else "free of a referenced object or model/VM disagreement")
                        + (f"; the VM then panics ({r['msg']}) at sample {r['at']}" if uaf_panic else ""))
                if rc == "INVALID" and f26:
                    ck.add("known_" + F26)
                    ck.known(known[F26], f"{p['name']}: {what}")
                    continue
                ck.violation(what, rep)
                continue
            ck.add("closure_ops_conformance_checked", m.get("ops", 0))
            if m["status"].startswith("conform"):
                f = m["status"].split(":")
                opname = {0: "drop_closure", 1: "release_heap_closure", 2: "close_upvalues_by_idx", 3: "CloneHeap",
                          4: "CloseHeapClosure", 5: "allocate_heap_closure"}.get(int(f[2]) & 15, "?")
                ck.violation(f"{opname} of the real VM does not behave like its transcription in Heap/Model.v "
                             f"(event #{f[1]}; {':'.join(f[6:])}): the operation retains / releases / frees differently "
                             f"from vm.rs as modelled", rep)
                continue
            if m["status"].startswith("dangling"):
                f = m["status"].split(":")
                what = (f"after sample {f[1]} the live closure wrapper ({f[2]},{f[3]}) refers to closure ({f[4]},{f[5]}), "
                        f"which has been freed: a dangling handle (use after release at its next call)")
                ck.violation(what, rep)
                continue
            if m["status"].startswith("unsettled"):
                ck.violation("an object is left with reference count 0 without being freed (" + m["status"] + ")", rep)
                continue
            if m["status"].startswith("error"):
                ck.violation("monitor driver error " + m["status"], rep, no_input=True)
                continue
            bad = None
            for t, sg in sorted(m["segs"].items()):
                real = tuple(r["main"]) if t == -1 else lens_at(r, t)
                if real is not None and real != (sg["cl"], sg["hp"]):
                    bad = (t, real, (sg["cl"], sg["hp"]))
                    break
            if bad:
                ck.violation(f"live counts differ after sample {bad[0]}: real (closures, heap) = {bad[1]}, model = {bad[2]}",
                             rep)
                continue
        # the VM only warns when a retain / release goes through a dead handle
        if r.get("warn_invalid", 0) > 0:
            what = (f"{r['warn_invalid']} VM warning(s) `invalid HeapIdx`: heap_retain / heap_release through a handle whose "
                    f"object has been released")
            if f26:
                ck.add("known_" + F26)
                ck.known(known[F26], f"{p['name']}: {what}")
            else:
                ck.violation("use after release: " + what, rep)
            continue
        # heap objects owned by globals of the program must be alive after every sample
        need = p.get("persist", 0)
        if need > 0:
            low = [(t, l[1]) for t, l in enumerate(r["lens"]) if l[1] < need]
            if r["main"][1] < need or low:
                t0, h0 = low[0] if low else (-1, r["main"][1])
                what = (f"the {need} heap object(s) owned by global values are gone: heap.len() = {h0} after sample {t0} "
                        f"(after global initialisation: {r['main'][1]}): released while still referenced, a use after "
                        f"release as soon as the owner is read")
                if f26:
                    ck.add("known_" + F26)
                    ck.known(known[F26], f"{p['name']}: {what}")
                else:
                    ck.violation(what, rep)
                continue
            ck.add("programs_with_persistent_structure_checked")
        if r["st"] != "ok":
            continue
        a, b, c = lens_at(r, N // 2 - 1), lens_at(r, N - 1), lens_at(r, 2 * N - 1)
        if p.get("tags") and all(tg in STEADY_TAGS for tg in p["tags"]):
            # generated from snippets that only use objects made during global initialisation
            ck.add("steady_only_programs")
            if not (a == b == c):
                ck.add("steady_only_programs_growing")
                # these snippets are steady on a correct VM with NO exception: growth is a violation whatever class the leaked
                # objects would fall into (the class predicates of F22..F24 are too wide to tell a new leak from a recorded one)
                ck.violation("a program made only of constructs that are steady on the unchanged tree accumulates closures / heap objects: "
                             "(closures, heap) after N/2, N, 2N = %s" % ((a, b, c),), rep)
                continue
        for tg in set(p.get("tags", [])):
            ck.add("tag_" + tg + ("_steady" if a == b == c else "_growing"))
        if a == b == c:
            ck.add("programs_steady")
            if len(ck.coverage["samples"]) < 6 and r.get("nev", 0) > 0:
                ck.sample({"name": p["name"], "lens_N/2_N_2N": [a, b, c], "events": r.get("nev", 0)})
            continue
        ck.add("programs_growing")
        growing.append((p, rep, r, (a, b, c)))
    # ---- growth: explain every leaked object by a known-finding class, or report
    if not growing:
        return
    if not have_h2:
        # direct observation only (hook H2 absent): no per-object evidence.  Coarse syntactic class predicates on
        # the source: closures can only leak where the program text makes closure values (a lambda, a function
        # type, a scheduled call), boxes only where it declares a recursive type.
        for p, rep, r, g in growing:
            src = p["src"]
            d_cl = g[2][0] - g[1][0]
            d_hp = g[2][1] - g[1][1]
            makes_closures = ("|" in src) or ("->" in src) or ("@" in src)
            makes_boxes = "type rec" in src
            cls = []
            if d_cl > 0 or (d_hp > 0 and not makes_boxes):
                if not makes_closures:
                    ck.violation(f"live counts grow (N/2, N, 2N) = {g} in a program whose text makes no closure value "
                                 f"(hook H2 absent: syntactic class predicates)", rep)
                    continue
                if d_hp <= 0:
                    ck.violation(f"closures grow without their wrappers (N/2, N, 2N) = {g}: an uncloned closure is not "
                                 f"dropped at frame exit (hook H2 absent: syntactic class predicates)", rep)
                    continue
                cls += [F24] if "@" in src else [F22]
            if d_hp > 0 and makes_boxes:
                cls.append(F23)
            if d_cl < 0 or d_hp < 0 or not cls or any(c not in known for c in cls):
                ck.violation(f"live counts change (N/2, N, 2N) = {g} outside the known-finding classes "
                             f"(hook H2 absent: syntactic class predicates)", rep)
                continue
            for c in cls:
                ck.add("known_" + c)
                ck.known(known[c], f"{p['name']}: (closures, heap) after N/2, N, 2N = {g} [syntactic predicate, no H2]")
            ck.add("programs_growing_known")
        return
    ccases = []
    for j, (p, rep, r, g) in enumerate(growing):
        ccases.append({"src": p["src"], "n": CLS_N, "sched": p.get("sched", True), "path": p.get("path"),
                       "evfile": os.path.join(evdir, f"g{j}.ev"), "evn": CLS_N})
    cres = run_harness(exe, ccases)
    cmon = run_monitor(drv, [c["evfile"] for c in ccases])
    for j, (p, rep, r, g) in enumerate(growing):
        cr = cres[j] if j < len(cres) else {"st": "crash"}
        cm = cmon[j] if j < len(cmon) else {"status": "error:missing", "segs": {}}
        if cr.get("st") != "ok" or cm["status"] != "ok":
            ck.violation(f"growing program (N/2, N, 2N) = {g}: classification run failed ({cr.get('st')}, {cm['status']})", rep)
            continue
        H = histories(ccases[j]["evfile"])
        lo, hi = CLS_N // 3, 2 * CLS_N // 3
        leaked = [h for h in H.values() if not h["freed"] and lo <= h["t"] < hi]
        # growth of the two stores over the window, from the real lengths
        dl = [x - y for x, y in zip(lens_at(cr, hi - 1), lens_at(cr, lo - 1))]
        nleak = [sum(1 for h in leaked if h["kind"] == "closure"), sum(1 for h in leaked if h["kind"] != "closure")]
        classes = {}
        outside = []
        for h in leaked:
            cl = classify_leak(h)
            if cl is None or cl not in known:
                outside.append(h)
            else:
                classes[cl] = classes.get(cl, 0) + 1
        if outside:
            h = outside[0]
            ck.violation(f"live counts grow (N/2, N, 2N) = {g}; {len(outside)} leaked object(s) outside every known-finding "
                         f"class, e.g. a {h['kind']} made in sample {h['t']} with {h['ret']} retain(s), {h['rel']} release(s), "
                         f"closed={h['closed']}", rep)
            continue
        if dl[0] > nleak[0] or dl[1] > nleak[1]:
            ck.violation(f"growth {dl} over samples {lo}..{hi} exceeds the objects allocated and kept in that window {nleak}", rep)
            continue
        if not classes:
            ck.violation(f"live counts grow (N/2, N, 2N) = {g} but no leaked object was found in samples {lo}..{hi}", rep)
            continue
        for cl, n in sorted(classes.items()):
            ck.add("known_" + cl)
            ck.known(known[cl], f"{p['name']}: (closures, heap) after N/2, N, 2N = {g}")
        ck.add("programs_growing_known")


def check_witness(ck, exe, drv, evdir, have_h2):
    """The witness traces (Heap/Witness.v: leak, still present; Heap/WitnessFixed.v: former use after release, must now
    run and be accepted) are the real VM's event logs of their SOURCE programs."""
    for fname, nseg, expect in (("Witness.v", 4, "grows"), ("WitnessFixed.v", 3, "accepted")):
        wpath = os.path.join(COQ, "theories", "Heap", fname)
        if not os.path.exists(wpath):
            ck.violation(f"Heap/{fname} is missing", {"kind": "witness", "file": fname}, no_input=True)
            continue
        raw = open(wpath).read()
        src_m = re.search(r"\(\*\s*SOURCE\s*\n(.*?)\nEND SOURCE\s*\*\)", raw, re.S)
        if not src_m:
            ck.violation(f"Heap/{fname} has no SOURCE block", {"kind": "witness", "file": fname}, no_input=True)
            continue
        src = src_m.group(1) + "\n"
        text = strip_coq_comments(raw)
        want = [tuple(int(x) for x in m) for m in re.findall(r"\(\s*(\d+)\s*,\s*(\d+)\s*,\s*(\d+)\s*,\s*(\d+)\s*\)", text)]
        evfile = os.path.join(evdir, "witness_" + fname + ".ev") if have_h2 else None
        case = {"src": src, "n": nseg - 1, "sched": True, "path": None, "evfile": evfile, "evn": nseg - 1}
        r = run_harness(exe, [case])[0]
        rep = {"kind": "program", "name": "witness/" + fname, "src": src, "sched": True, "N": 2}
        if expect == "grows":
            grow = [tuple(x) for x in r.get("lens", [])]
            ck.coverage["witness_lens"] = [list(r.get("main", []))] + [list(x) for x in grow]
            if not (r["st"] == "ok" and len(grow) >= 3 and grow[0][0] < grow[1][0] < grow[2][0]):
                ck.violation("the witness of C12_steady_state_refuted no longer grows on the real VM (finding fixed? update "
                             "Props/C12.v and KNOWN_FINDINGS.txt)", rep, no_input=True)
                continue
        else:
            ck.coverage["witness_former_uaf_result"] = [r["st"], r.get("msg"), r.get("at")]
            if r["st"] != "ok":
                ck.violation("use after release is back: the former F25 witness (Heap/WitnessFixed.v) does not run to the "
                             f"end on the real VM ({r['st']} {r.get('msg')} at sample {r.get('at')})", rep)
                continue
        if have_h2:
            got = []
            for line in open(evfile):
                p = line.split()
                if p and p[0] == "E":
                    got.append((int(p[1]), int(p[2]), int(p[3]), int(p[4])))
            if got != want:
                ck.violation(f"the event trace in Heap/{fname} ({len(want)} events) is not the real VM's trace of its SOURCE "
                             f"program ({len(got)} events)", rep, no_input=True)
                continue
            ck.coverage["witness_trace_matches_real_vm_" + expect] = True
