"""C09 — staged (macro) code means the same as the code it generates.

P: theorems of coq/theories/Props/C09.v over Staging/Model.v (all expressions, all nestings).
T: translators/combinators.py -> Tables/Combinators.v (registered combinators / make_apply call sites).
C: extracted model vs the real compiler
   (1) random stage-0 programs built node by node over the full Expr language (every form translate_code
       handles, every staging context): translate_staging::translate output and the code value obtained on the
       real stage-0 VM, both compared structurally with the model;
   (2) generated source programs (direct quote, let-bound code, function application returning code, numeric
       recursion building code, `!` sugar, lift): typed input of translate / translate output / expanded AST vs
       the model, the replicated stage-0 driver vs the trace log of the real compile_with_module_info, and the
       outputs of the staged program vs its hand-written expansion on the VM (and on WASM for a sample);
   (3) lift: f64 -> string -> parse on random bit patterns through every registered route.
S: the property evaluated on the implementation's answers: quote-then-splice of a normal-form expression must
   be that very expression; staged output == expanded output; lifted bits == original bits.
"""
import json, os, re, struct, subprocess, sys
from vplib import *

OCAML = [("staging_drv", ["staging_model"], "ocaml/staging_drv.ml")]
HARNESS = [("lang", ["staging_run"], True)]

FUEL = 64


# ------------------------------------------------------------------------------------------------
# s-expressions (python side): atoms are str, quoted names are Q, lists are python lists
# ------------------------------------------------------------------------------------------------
class Q(str):
    pass


def show(s):
    if isinstance(s, Q):
        return '"' + s.replace("\\", "\\\\").replace('"', '\\"').replace("\n", "\\n") + '"'
    if isinstance(s, str):
        return s
    return "(" + " ".join(show(x) for x in s) + ")"


def parse(src):
    pos = [0]
    n = len(src)

    def go():
        while pos[0] < n and src[pos[0]] in " \t":
            pos[0] += 1
        c = src[pos[0]]
        if c == "(":
            pos[0] += 1
            out = []
            while True:
                while pos[0] < n and src[pos[0]] in " \t":
                    pos[0] += 1
                if src[pos[0]] == ")":
                    pos[0] += 1
                    return out
                out.append(go())
        if c == '"':
            pos[0] += 1
            b = []
            while src[pos[0]] != '"':
                if src[pos[0]] == "\\":
                    pos[0] += 1
                    b.append("\n" if src[pos[0]] == "n" else src[pos[0]])
                else:
                    b.append(src[pos[0]])
                pos[0] += 1
            pos[0] += 1
            return Q("".join(b))
        st = pos[0]
        while pos[0] < n and src[pos[0]] not in " \t()":
            pos[0] += 1
        return src[st:pos[0]]

    return go()


def fbits(x):
    if x != x:
        return "NaN"
    return "%016x" % struct.unpack("<Q", struct.pack("<d", x))[0]


def bits_to_float(h):
    if h == "NaN":
        return float("nan")
    return struct.unpack("<d", struct.pack("<Q", int(h, 16)))[0]


def norm_bits(h):
    """fold every NaN pattern into the token NaN"""
    v = int(h, 16)
    if (v >> 52) & 0x7FF == 0x7FF and v & ((1 << 52) - 1):
        return "NaN"
    return "%016x" % v


TY_UNK = ["topq", Q("unknown")]
TY_NUM = ["topq", Q("number")]
NONE = "#n"


def litf(x):
    return ["lit-f", fbits(float(x))]


def var(x):
    return ["var", Q(x)]


def app(f, *args):
    return ["app", var(f) if isinstance(f, str) and not isinstance(f, list) else f] + list(args)


# ------------------------------------------------------------------------------------------------
# generator of stage-1 ASTs (every Expr form) with escapes to stage-0 variables
# ------------------------------------------------------------------------------------------------
NAMES = ["x", "y", "z", "w", "f", "g", "add", "mult", "osc", "v1", "acc"]
ODD_NAMES = ["_", "__dt0", "__dt1", "foo$bar", "code_var", "self_"]
STRINGS = ["", "a", "hello world", 'q"uote', "back\\slash", "snd.wav", "\u65e5\u672c"]
FIELDS = ["a", "b", "freq", "gain"]
SPECIAL_F = [0.0, -0.0, 1.0, -1.0, 0.5, 0.1, 2.0, 3.0, 100.0, 1e300, 5e-324, 2.2250738585072014e-308,
             1.7976931348623157e308, float("inf"), float("-inf"), float("nan"), 0.30000000000000004, 1 / 3]
TYPES = [TY_UNK, TY_UNK, TY_NUM, ["topq", Q("int")], ["topq", Q("string")], ["topq", Q("unit")],
         ["tcode", TY_NUM], ["tfun", ["ttuple", TY_NUM, TY_NUM], TY_NUM], ["ttuple", TY_NUM, ["topq", Q("int")]],
         ["tarray", TY_NUM], ["trecord", [Q("a"), TY_NUM, "#f"], [Q("b"), ["tcode", TY_NUM], "#t"]],
         ["tref", TY_NUM], ["tfun", ["tcode", TY_NUM], ["tcode", TY_NUM]], ["tarray", ["tcode", TY_UNK]]]


class Gen:
    def __init__(self, rng, nf=False, allow_bad=True, allow_match=True):
        self.rng = rng
        self.nf = nf                # only normal-form constructs (round trip must be the exact identity)
        self.allow_bad = allow_bad  # untranslatable nodes (both sides must fail)
        self.allow_match = allow_match
        self.has_bad = False
        self.has_match = False
        self.has_odd = False

    def name(self):
        if not self.nf and self.rng.chance(1, 25):
            self.has_odd = True
            return self.rng.choice(ODD_NAMES)
        return self.rng.choice(NAMES)

    def flt(self):
        r = self.rng
        if r.chance(1, 2):
            return ["lit-f", fbits(r.choice(SPECIAL_F))]
        if r.chance(1, 2):
            return ["lit-f", fbits(float(r.range(-1000, 1000)) / r.choice([1, 2, 4, 10, 3]))]
        return ["lit-f", norm_bits("%016x" % r.next())]

    def ty(self):
        return self.rng.choice(TYPES)

    def pat(self, depth=2):
        r = self.rng
        k = r.below(10)
        if self.nf:
            if k < 6 or depth == 0:
                return ["p1", Q(self.name())]
            return ["ptuple"] + [(["p_"] if r.chance(1, 4) else ["p1", Q(self.name())]) for _ in range(r.range(0, 3))]
        if k < 4 or depth == 0:
            return ["p1", Q(self.name())]
        if k == 4:
            return ["p_"]
        if k < 8:
            return ["ptuple"] + [self.pat(depth - 1) for _ in range(r.range(0, 3))]
        if k == 8:
            return ["precord"] + [[Q(r.choice(FIELDS)), self.pat(depth - 1)] for _ in range(r.range(0, 2))]
        return ["perr"]

    def mpat(self, depth=2):
        r = self.rng
        k = r.below(6)
        if k == 0 or depth == 0:
            return ["mwild"]
        if k == 1:
            return ["mvar", Q(self.name())]
        if k == 2:
            return ["mlit", r.choice([["lit-i", str(r.range(0, 5))], self.flt()])]
        if k == 3:
            return ["mctor", Q("Some")] + ([self.mpat(depth - 1)] if r.chance(1, 2) else [])
        return ["mtuple"] + [self.mpat(depth - 1) for _ in range(r.range(1, 3))]

    def opt(self, depth, esc):
        if self.nf or self.rng.chance(3, 4):
            return self.e(depth, esc)
        return NONE

    def fields(self, depth, esc):
        return [[Q(self.rng.choice(FIELDS)), self.e(depth, esc)] for _ in range(self.rng.range(0, 3))]

    def esc0(self, depth, esc):
        """stage-0 code under an Escape: a code variable, or a small stage-0 computation producing code"""
        r = self.rng
        k = r.below(10)
        if k < 6 or depth <= 0:
            return var(r.choice(esc)) if esc else ["bracket", self.e(0, esc)]
        if k == 6:   # lambda applied to a quotation
            return ["app", ["lam", [["p", Q("c9"), TY_UNK, NONE]], NONE, ["bracket", self.e(depth - 1, esc + ["c9"])]],
                    ["bracket", self.e(depth - 1, esc)]]
        if k == 7:   # let-bound quotation
            return ["let", ["p1", Q("c8")], TY_UNK, ["bracket", self.e(depth - 1, esc)],
                    r.choice([var("c8"), ["bracket", self.e(depth - 1, esc + ["c8"])]])]
        if k == 8:   # a number computed at stage 0 and lifted
            a, b = self.flt(), self.flt()
            return app(r.choice(["lift_f", "lift", "code_lit_f"]), app(r.choice(["add", "sub", "mult"]), a, b))
        # conditional choice between two quotations
        return ["if", app(r.choice(["gt", "lt", "ge", "le"]), self.flt(), self.flt()),
                ["bracket", self.e(depth - 1, esc)], ["bracket", self.e(depth - 1, esc)]]

    def e(self, depth, esc):
        r = self.rng
        if depth <= 0:
            k = r.below(8)
            if k < 2:
                return self.flt()
            if k < 5:
                return var(self.name())
            if k == 5:
                return ["lit-i", str(r.choice([0, 1, -1, 7, 2 ** 31, -2 ** 63, 2 ** 63 - 1, r.range(-100, 100)]))]
            if k == 6:
                return r.choice([["self"], ["now"], ["sr"], ["lit-s", Q(r.choice(STRINGS))]])
            return ["escape", var(r.choice(esc))] if esc else var(self.name())
        d = depth - 1
        k = r.below(40)
        if k < 2:
            return self.e(0, esc)
        if k < 7:
            nargs = r.choice([0, 1, 1, 2, 2, 2, 3, 4])
            return ["app", self.e(d, esc)] + [self.e(d, esc) for _ in range(nargs)]
        if k < 10:
            return ["escape", self.esc0(d, esc)]
        if k < 13:
            nps = r.choice([0, 1, 1, 2, 3])
            with_defaults = (not self.nf or True) and r.chance(1, 4)
            ps = []
            for _ in range(nps):
                dflt = self.e(d, esc) if (with_defaults and r.chance(1, 2)) else NONE
                ps.append(["p", Q(self.name()), self.ty(), dflt])
            rt = self.ty() if (self.nf or r.chance(1, 2)) else NONE
            return ["lam", ps, rt, self.e(d, esc)]
        if k < 17:
            return ["let", self.pat(), TY_UNK if (self.nf or r.chance(2, 3)) else self.ty(), self.e(d, esc), self.opt(d, esc)]
        if k < 19:
            return ["letrec", Q(self.name()), self.ty(), self.e(d, esc), self.opt(d, esc)]
        if k < 22:
            return ["if", self.e(d, esc), self.e(d, esc), self.opt(d, esc)]
        if k < 24:
            return ["then", self.e(d, esc), self.opt(d, esc)]
        if k == 24:
            return ["assign", self.e(d, esc), self.e(d, esc)]
        if k == 25:
            return ["tuple"] + [self.e(d, esc) for _ in range(r.range(0, 3))]
        if k == 26:
            return ["proj", self.e(d, esc), str(r.range(0, 3))]
        if k == 27:
            return ["arr"] + [self.e(d, esc) for _ in range(r.range(0, 3))]
        if k == 28:
            return ["aacc", self.e(d, esc), self.e(d, esc)]
        if k == 29:
            return ["rec"] + self.fields(d, esc)
        if k == 30:
            return ["irec"] + self.fields(d, esc)
        if k == 31:
            return ["recupd", self.e(d, esc)] + self.fields(d, esc)
        if k == 32:
            return ["facc", self.e(d, esc), Q(r.choice(FIELDS))]
        if k == 33:
            return ["feed", Q(self.name()), self.e(d, esc)]
        if k == 34:
            return ["block", self.opt(d, esc)]
        if k == 35:
            if self.nf:
                return self.e(d, esc)
            return r.choice([["paren", self.e(d, esc)],
                             ["qvar"] + [Q(s) for s in r.choice([["m", "f"], ["__mimium_op_intrinsic", "add"], ["a", "b", "c"], ["solo"], []])],
                             ["bracket", self.e(d, esc)]])
        if k == 36 and self.allow_match and r.chance(1, 3):
            self.has_match = True
            return ["match", self.e(d, esc)] + [["arm", self.mpat(), self.e(d, esc)] for _ in range(r.range(1, 3))]
        if k == 37 and self.allow_bad and r.chance(1, 4):
            self.has_bad = True
            return r.choice([["binop", Q("+"), self.e(d, esc), self.e(d, esc)], ["uniop", Q("-"), self.e(d, esc)],
                             ["mexp", var("m"), self.e(d, esc)], ["error"], ["ph"]])
        return self.e(d, esc)


def staging_context(rng, g, depth):
    """a stage-0 program around generated quotations; returns (program, context name)"""
    k = rng.below(8)
    if k == 0:
        return ["bracket", g.e(depth, [])], "direct-quote"
    if k == 1:
        return ["let", ["p1", Q("c")], TY_UNK, ["bracket", g.e(depth - 1, [])], ["bracket", g.e(depth, ["c"])]], "let-bound-code"
    if k == 2:
        body = ["bracket", g.e(depth - 1, ["c"])]
        call = app("h", ["bracket", g.e(depth - 1, [])])
        if rng.chance(1, 2):
            call = app("h", call)
        return ["let", ["p1", Q("h")], TY_UNK, ["lam", [["p", Q("c"), TY_UNK, NONE]], NONE, body], call], "function-application"
    if k == 3:
        n = rng.range(0, 4)
        step = ["bracket", g.e(depth - 1, ["c"])]
        fn = ["lam", [["p", Q("n"), TY_NUM, NONE], ["p", Q("c"), TY_UNK, NONE]], NONE,
              ["if", app("gt", var("n"), litf(0.0)), app("g", app("sub", var("n"), litf(1.0)), step), var("c")]]
        return ["letrec", Q("g"), TY_UNK, fn, app("g", litf(n), ["bracket", g.e(depth - 1, [])])], "numeric-recursion"
    if k == 4:
        # macro-like: function whose body quotes around its argument, called from inside a quotation
        body = ["bracket", g.e(depth - 1, ["a"])]
        use = ["bracket", ["app", var("out"), ["escape", app("m", ["bracket", g.e(depth - 1, [])])]]]
        return ["let", ["p1", Q("m")], TY_UNK, ["lam", [["p", Q("a"), TY_UNK, NONE]], NONE, body], use], "macro-call-in-quote"
    if k == 5:
        # two code values combined
        return ["let", ["p1", Q("c")], TY_UNK, ["bracket", g.e(depth - 1, [])],
                ["let", ["p1", Q("d")], TY_UNK, ["bracket", g.e(depth - 1, ["c"])],
                 ["bracket", g.e(depth - 1, ["c", "d"])]]], "two-code-values"
    if k == 6:
        # numeric recursion computing a number that is lifted
        fn = ["lam", [["p", Q("n"), TY_NUM, NONE], ["p", Q("s"), TY_NUM, NONE]], NONE,
              ["if", app("gt", var("n"), litf(0.0)), app("g", app("sub", var("n"), litf(1.0)), app("add", var("s"), g.flt())), var("s")]]
        return ["letrec", Q("g"), TY_UNK, fn,
                ["bracket", app("mult", ["escape", app("lift_f", app("g", litf(rng.range(0, 5)), g.flt()))], g.e(depth - 1, []))]], "lifted-recursion"
    return ["bracket", ["block", ["then", g.e(depth - 1, []), g.e(depth - 1, [])]]], "direct-quote"


# ------------------------------------------------------------------------------------------------
# source-level programs: staged version + hand-written expansion
# ------------------------------------------------------------------------------------------------
def src_expr(rng, depth, vars_, splice=None, st=True):
    """a numeric main-stage expression over `vars_`; `splice` (text) is inserted at some leaves; `st`: stateful
    calls allowed here (not under if / lambda: that is C02's and F2's territory, the compiler panics there)"""
    r = rng
    if depth <= 0:
        k = r.below(6)
        if splice is not None and k < 3:
            return splice
        if k < 4 and vars_:
            return r.choice(vars_)
        return r.choice(["1.0", "2.0", "0.5", "3.0", "0.25", "10.0", "0.125", "7.0"])
    d = depth - 1
    k = r.below(14)
    a = lambda: src_expr(r, d, vars_, splice, st)
    p = lambda: src_expr(r, d, vars_, splice, False)
    if k < 4:
        return "(%s %s %s)" % (a(), r.choice(["+", "-", "*"]), a())
    if k == 4:
        return "(if (%s > %s) { %s } else { %s })" % (p(), p(), p(), p())
    if k == 5:
        v = r.choice(["t1", "t2", "u"])
        return "{ let %s = %s\n %s }" % (v, a(), src_expr(r, d, vars_ + [v], splice, st))
    if k == 6:
        v = r.choice(["p", "q"])
        return "(|%s| %s)(%s)" % (v, src_expr(r, d, vars_ + [v], splice, False), a())
    if k == 7:
        return "sq(%s)" % a()
    if k == 8:
        return "(%s, %s).%d" % (a(), a(), r.below(2))
    if k == 9:
        return "[%s, %s, %s][%d]" % (p(), p(), p(), r.below(3))
    if k == 10 and st:
        return "counter(%s)" % p()            # stateful: self
    if k == 11 and st:
        return "mem(%s)" % p()                # stateful: one-sample delay
    if k == 12:
        return "{ let (m1, m2) = (%s, %s)\n (m1 - m2) }" % (a(), a())
    return "(%s / 4.0)" % a()


PRELUDE = "fn sq(a){ a*a }\nfn counter(inc){ self + inc }\nlet gx = 3.0\n"


def staged_src(macro_defs, dsp_body):
    # main-stage globals first: quoted code may only mention what is in scope where the quotation is written
    return PRELUDE + "#stage(macro)\n" + macro_defs + "#stage(main)\nfn dsp(){ " + dsp_body + " }\n"


def manual_src(dsp_body):
    return PRELUDE + "fn dsp(){ " + dsp_body + " }\n"


def src_case(rng):
    """returns dict(kind, staged, manual)"""
    r = rng
    k = r.below(8)
    e1 = src_expr(r, r.range(1, 3), ["gx"])
    if k == 0:   # direct quote through a nullary macro
        return {"kind": "direct-quote", "staged": staged_src("fn m0(){ `{ %s } }\n" % e1, "m0!()"), "manual": manual_src("{ %s }" % e1)}
    if k == 1:   # let-bound code spliced at several places
        e2 = src_expr(r, 2, ["gx"], splice="$c")
        return {"kind": "let-bound-code",
                "staged": staged_src("fn m1(x){ let c = `{ %s }\n `{ %s + $x } }\n" % (e1, e2), "m1!(`(gx*2.0))"),
                "manual": manual_src("{ %s + (gx*2.0) }" % e2.replace("$c", "{ %s }" % e1))}
    if k == 2:   # function application returning code (twice)
        e2 = src_expr(r, 2, ["gx"], splice="$c")
        inner = e2.replace("$c", "(%s)" % e1)
        return {"kind": "function-application",
                "staged": staged_src("fn h(c){ `{ %s } }\nfn m2(x){ h(h(x)) }\n" % e2, "m2!(`(%s))" % e1),
                "manual": manual_src("{ %s }" % e2.replace("$c", "{ %s }" % inner))}
    if k == 3:   # numeric recursion building code
        n = r.range(0, 4)
        e2 = src_expr(r, 1, ["gx"], splice="$c")
        cur = "(%s)" % e1
        for _ in range(n):
            cur = "{ %s }" % e2.replace("$c", cur)
        return {"kind": "numeric-recursion",
                "staged": staged_src("fn rep(n, c){ if (n > 0.0) { rep(n - 1.0, `{ %s }) } else { c } }\n" % e2, "rep!(%d.0, `(%s))" % (n, e1)),
                "manual": manual_src(cur)}
    if k == 4:   # `!` sugar against the explicit splice
        e2 = src_expr(r, 2, ["gx"], splice="$c")
        defs = "fn h(c){ `{ %s } }\n" % e2
        return {"kind": "bang-sugar", "staged": staged_src(defs, "h!(`(%s))" % e1), "manual": staged_src(defs, "$(h(`(%s)))" % e1), "same_ast": True}
    if k == 5:   # numbers computed at the macro stage and lifted
        a, b, c = [r.choice([0.5, 0.25, 0.3, 1.5, 3.0, 7.0, 123.456, 1e10, 0.7, 17.0]) for _ in range(3)]
        op1, op2 = r.choice(["+", "-", "*"]), r.choice(["+", "-", "*"])
        val = eval("(%r %s %r) %s %r" % (a, op1, b, op2, c))
        man = "%r + 1.0" % val if val >= 0 else "(0.0 - %r) + 1.0" % (-val)
        return {"kind": "lift", "staged": staged_src("fn k(){ lift_f((%r %s %r) %s %r) }\n" % (a, op1, b, op2, c), "k!() + 1.0"),
                "manual": manual_src(man), "macro_constants": [a, b, c, val]}
    if k == 6:   # recursion computing a number, lifted, then used in code
        n = r.range(0, 6)
        step = r.choice([0.5, 1.0, 0.3, 0.7])
        s = 0.0
        for _ in range(n):
            s = s + step
        return {"kind": "lifted-recursion",
                "staged": staged_src("fn acc(n, s){ if (n > 0.0) { acc(n - 1.0, s + %r) } else { s } }\nfn m(x){ `{ $x * $(lift_f(acc(%d.0, 0.0))) } }\n" % (step, n),
                                     "m!(`(%s))" % e1),
                "manual": manual_src("(%s) * %r" % (e1, s)), "macro_constants": [step, s]}
    if k == 7 and r.chance(1, 2):   # small / awkward literals inside the quotation and at the macro stage
        q1, q2 = r.choice(["0.001", "0.01", "0.0001", "0.002", "0.015", "0.3", "0.1", "0.7"]), r.choice(["0.001", "0.005", "0.25", "0.3"])
        return {"kind": "small-literals",
                "staged": staged_src("fn sm(x){ `{ ($x * %s) + $(lift_f(%s + 1.0)) } }\n" % (q1, q2), "sm!(`(%s))" % e1),
                "manual": manual_src("((%s) * %s) + %r" % (e1, q1, float(q2) + 1.0)), "wasm": True}
    # the fixture shape: power function by recursion over code
    n = r.range(1, 5)
    cur = "x"
    for _ in range(n - 1):
        cur = "(x * %s)" % cur
    return {"kind": "power-recursion",
            "staged": staged_src("fn genpower(n:float){\n letrec aux = |n:float,x| { if (n>1){ `{ $x * $(aux(n-1,x)) } }else{ x } }\n `{|x:float| $(aux(n,`x))}\n}\n",
                                 "genpower!(%d)(%s)" % (n, e1)),
            "manual": manual_src("(|x:float| { %s })(%s)" % (cur, e1))}


# ------------------------------------------------------------------------------------------------
# running both sides
# ------------------------------------------------------------------------------------------------
def run_json(exe, reqs, timeout=3000):
    text = "\n".join(json.dumps(r) for r in reqs) + "\n"
    p = subprocess.run([exe], input=text, stdout=subprocess.PIPE, stderr=subprocess.DEVNULL, text=True, timeout=timeout)
    lines = [l for l in p.stdout.split("\n") if l]
    out = []
    for l in lines:
        try:
            out.append(json.loads(l))
        except ValueError:
            out.append({"err": "harness-garbage"})
    return p.returncode, out


def run_model(exe, lines, timeout=3000):
    p = subprocess.run([exe], input="\n".join(lines) + "\n", stdout=subprocess.PIPE, stderr=subprocess.DEVNULL, text=True, timeout=timeout)
    return p.returncode, p.stdout.split("\n")


TMP = re.compile(r"__dt(\d+)")


def temp_base(st0, prog=""):
    """counter value at which the implementation started: the smallest N such that `__dtN` occurs more often in
    the translation than in the program (user variables may be called __dtN as well)"""
    a, b = {}, {}
    for x in TMP.findall(st0 or ""):
        a[int(x)] = a.get(int(x), 0) + 1
    for x in TMP.findall(prog or ""):
        b[int(x)] = b.get(int(x), 0) + 1
    ms = [n for n in a if a[n] > b.get(n, 0)]
    return min(ms) if ms else 0


def strip_spans(s):
    """simple_print strings: drop span suffixes and the numeric type ids"""
    s = re.sub(r":\d+\.\.\d+", "", s)
    s = re.sub(r"\(int \d{9,}\)", "(int TYPE)", s)
    return s


def build_all(ck):
    rc, out, exe_m = ocaml_build("staging_drv", ["staging_model"], os.path.join(VERIF, "ocaml", "staging_drv.ml"))
    if rc != 0:
        ck.broken.append("model-build: " + out[-400:])
        exe_m = None
    rc, out, bindir = cargo_build("lang", ["staging_run"], hooks=True)
    if rc != 0:
        ck.broken.append("harness-build: " + out[-800:])
        ck.violation("harness does not build against /repo", {"cargo_output": out[-3000:]}, no_input=True)
        return exe_m, None
    return exe_m, os.path.join(bindir, "staging_run")


def has_form(s, head):
    if isinstance(s, list):
        return (len(s) > 0 and s[0] == head) or any(has_form(x, head) for x in s)
    return False


def quoted_has_match(prog):
    """class predicate of finding F27: a Match node inside quoted code"""
    def walk(s, quoted):
        if not isinstance(s, list) or not s:
            return False
        h = s[0]
        if h == "bracket":
            return walk(s[1], True)
        if h == "escape":
            return walk(s[1], False)
        if h == "match" and quoted:
            return True
        return any(walk(x, quoted) for x in s[1:])
    return walk(prog, False)


def run(ck):
    ck.level = "proof"
    proved = ck.prove(tables=["combinators"], extra_targets=["theories/Extract/StagingExtract.vo"])
    exe_m, exe_i = build_all(ck)
    if exe_i is None:
        return finish(ck)
    findings = {f["cls"]: f for f in known_findings("C09")}
    tier_n = {"quick": (2500, 260, 6000), "thorough": (150000, 6000, 400000)}[ck.tier]
    n_ast, n_src, n_lift = tier_n
    disagreements = []     # (what, replay)
    prop_fail = []         # (what, replay)

    # ---------------- table facts (T) ----------------
    unregistered = []
    if exe_m:
        rc, ls = run_model(exe_m, ["TABLE"])
        m = re.match(r"unregistered=(.*)\tbad=(.*)", ls[0]) if ls else None
        if m:
            unregistered = [x for x in m.group(1).split(",") if x]
            bad = [x for x in m.group(2).split(",") if x]
            ck.coverage["table_unregistered_call_sites"] = unregistered
            ck.coverage["table_bad_arity_sites"] = bad
            for b in bad:
                nm = b.split("/")[0]
                if nm in unregistered and nm == "code_match" and "match-in-quoted-code" in findings:
                    continue
                prop_fail.append(("translate_staging emits a call of `%s` args but the registration table disagrees" % b,
                                  {"call_site": b, "how": "python3 translators/combinators.py | grep " + nm}))

    # ---------------- (1) AST-level programs ----------------
    rng = ck.rng.fork("ast")
    cases = []
    corpus = os.path.join(VERIF, "corpus", "C09", "ast.txt")
    if os.path.exists(corpus):
        for l in open(corpus):
            l = l.strip()
            if l and not l.startswith("#"):
                cases.append({"prog": parse(l), "ctx": "corpus", "nf": False, "bad": None, "match": None})
    if ck.replay:
        rp = json.load(open(ck.replay)).get("replay", {})
        if "prog" in rp:
            cases.insert(0, {"prog": parse(rp["prog"]), "ctx": "replay", "nf": False, "bad": None, "match": None})
    for i in range(n_ast):
        nf = rng.chance(1, 4)
        g = Gen(rng, nf=nf, allow_bad=not nf, allow_match=not nf)
        depth = rng.choice([1, 2, 2, 3, 3, 4])
        if nf and rng.chance(1, 2):
            prog, ctx = ["bracket", g.e(depth, [])], "direct-quote"
        else:
            prog, ctx = staging_context(rng, g, depth)
        cases.append({"prog": prog, "ctx": ctx, "nf": nf, "bad": g.has_bad, "match": g.has_match})
    # programs containing nodes translate_staging leaves untranslated (BinOp, UniOp, MacroExpand, Error, `_`): only the
    # translation is compared (the real pipeline never feeds such nodes to the stage-0 compiler)
    rc, ans = run_json(exe_i, [{"m": "ast", "prog": show(c["prog"]), "notrun": bool(c["bad"])} for c in cases])
    if len(ans) < len(cases):
        ck.violation("implementation harness crashed (ast mode)", {"answered": len(ans), "cases": len(cases),
                     "next_input": show(cases[len(ans)]["prog"]) if len(ans) < len(cases) else None}, no_input=True)
        return finish(ck)
    mlines = []
    for c, a in zip(cases, ans):
        k0 = temp_base(a.get("st0", ""), show(c["prog"]))
        c["k0"] = k0
        mlines.append("X\t%d\t%d\t%s" % (FUEL, k0, show(c["prog"])))
        mlines.append("R\t%d\t%d\t%s" % (FUEL, k0, show(c["prog"])))
    mout = []
    if exe_m:
        rc_m, mout = run_model(exe_m, mlines)
    ctx_count, nontrivial, both_err, ok_both = {}, 0, 0, 0
    distinct = set()
    match_known = 0
    for idx, (c, a) in enumerate(zip(cases, ans)):
        ptxt = show(c["prog"])
        distinct.add(ptxt)
        ctx_count[c["ctx"]] = ctx_count.get(c["ctx"], 0) + 1
        real_st0, real_st1, real_err = a.get("st0"), a.get("st1"), a.get("err")
        replay = {"mode": "ast", "prog": ptxt, "context": c["ctx"], "implementation": a,
                  "how": "echo '{\"m\":\"ast\",\"prog\":<prog>}' | .cache/target/lang/debug/staging_run"}
        if exe_m and 2 * idx + 1 < len(mout):
            xl = mout[2 * idx].split("\t")
            m_st0, m_st1 = xl[0], (xl[1] if len(xl) > 1 else "ERR driver")
            m_ref = mout[2 * idx + 1]
            replay["model"] = {"st0": m_st0, "st1": m_st1, "reference": m_ref}
            if real_st0 is not None and m_st0 != real_st0:
                disagreements.append(("translate output differs", replay))
            elif c["bad"]:
                ck.add("ast_translation_only")
            elif real_st1 is not None:
                if m_st1 != real_st1:
                    disagreements.append(("expanded code differs", replay))
                else:
                    ok_both += 1
                    if len(ptxt) > 60:
                        nontrivial += 1
            else:
                if not m_st1.startswith("ERR"):
                    disagreements.append(("implementation fails (%s) where the model expands" % real_err, replay))
                else:
                    both_err += 1
            # the theorem C09_expand_agrees on this instance: reference reading == implementation
            if real_st1 is not None and not m_ref.startswith("ERR") and m_ref != real_st1:
                prop_fail.append(("expansion differs from the reference reading of the quotation (norm form)", replay))
        # S: quote-then-splice of a normal-form expression is that very expression
        if c["nf"] and c["ctx"] == "direct-quote" and c["prog"][0] == "bracket":
            want = show(c["prog"][1]) if not has_form(c["prog"][1], "escape") else None
            if want is not None:
                if real_st1 is None:
                    prop_fail.append(("quoting a normal-form expression fails to expand: %s" % real_err, replay))
                elif real_st1 != want:
                    prop_fail.append(("quote-then-splice is not the identity on a normal-form expression", replay))
        # known finding F27: match inside quoted code
        if real_st1 is None and quoted_has_match(c["prog"]) and "code_match" in unregistered:
            if "match-in-quoted-code" in findings:
                match_known += 1
                ck.known(findings["match-in-quoted-code"], ptxt[:200] + " -> " + str(real_err))
    ck.coverage["ast_cases"] = len(cases)
    ck.coverage["ast_contexts"] = ctx_count
    ck.coverage["ast_expanded_equal"] = ok_both
    ck.coverage["ast_both_reject"] = both_err
    ck.coverage["ast_match_in_quote_known_F27"] = match_known
    for c, a in list(zip(cases, ans))[:2]:
        ck.sample({"input": show(c["prog"])[:400], "implementation": {k: (v[:300] if isinstance(v, str) else v) for k, v in a.items()}})

    # ---------------- (2) source-level programs ----------------
    rng = ck.rng.fork("src")
    scases = []
    fixtures = []
    fdir = os.path.join(REPO, "crates/lib/mimium-test/tests/mmm")
    for fn in sorted(os.listdir(fdir)):
        if re.search(r"macro|stage|quote|lift", fn) and fn.endswith(".mmm") and not fn.startswith("fail_"):
            fixtures.append(fn)
    cdir = os.path.join(VERIF, "corpus", "C09")
    if os.path.isdir(cdir):
        for fn in sorted(os.listdir(cdir)):
            if fn.startswith("src_") and fn.endswith(".json"):
                scases.append(json.load(open(os.path.join(cdir, fn))))
    if ck.replay:
        rp = json.load(open(ck.replay)).get("replay", {})
        if "source" in rp and "manual_expansion" in rp:
            scases.insert(0, {"kind": "replay", "staged": rp["source"], "manual": rp["manual_expansion"], "wasm": True})
    for i in range(n_src):
        scases.append(src_case(rng))
    reqs = []
    for i, c in enumerate(scases):
        wasm = (i % 10 == 0) or bool(c.get("wasm"))
        c["wasm"] = wasm
        reqs.append({"m": "src", "src": c["staged"], "times": 3, "wasm": wasm, "expand": True})
        reqs.append({"m": "src", "src": c["manual"], "times": 3, "wasm": wasm, "expand": bool(c.get("same_ast"))})
    for fn in fixtures:
        reqs.append({"m": "src", "src": open(os.path.join(fdir, fn)).read(), "times": 0, "expand": True})
    rc, sans = run_json(exe_i, reqs)
    if len(sans) < len(reqs):
        ck.violation("implementation harness crashed (src mode)", {"answered": len(sans), "cases": len(reqs),
                     "next_input": reqs[len(sans)] if len(sans) < len(reqs) else None}, no_input=True)
        return finish(ck)
    mlines, mmap = [], []
    for i, a in enumerate(sans):
        if "in" in a and exe_m:
            k0 = temp_base(a.get("st0", ""), a["in"])
            mmap.append(i)
            mlines.append("X\t%d\t%d\t%s" % (256, k0, a["in"]))
    mres = {}
    if exe_m and mlines:
        rc_m, mo = run_model(exe_m, mlines)
        for j, i in enumerate(mmap):
            if j < len(mo):
                mres[i] = mo[j].split("\t")
    kinds = {}
    src_ok = src_expand_eq = src_wasm = src_unsupported = 0
    fixture_eq = 0
    for i, a in enumerate(sans):
        is_fixture = i >= 2 * len(scases)
        label = fixtures[i - 2 * len(scases)] if is_fixture else scases[i // 2]["kind"]
        replay = {"mode": "src", "source": reqs[i]["src"], "kind": label,
                  "implementation": {k: v for k, v in a.items() if k not in ("sp_st0", "log_st0")},
                  "how": "echo '{\"m\":\"src\",\"src\":<source>,\"times\":3}' | .cache/target/lang/debug/staging_run"}
        # the replicated stage-0 driver must see what the real pipeline logs
        if "sp_st1" in a and "log_st1" in a:
            logged = json.loads(a["log_st1"]) if a["log_st1"].startswith('"') else a["log_st1"]
            if strip_spans(logged) != strip_spans(a["sp_st1"]):
                disagreements.append(("harness stage-0 driver and compile_with_module_info produce different expansions", replay))
        if "sp_st0" in a and "log_st0" in a:
            logged = json.loads(a["log_st0"]) if a["log_st0"].startswith('"') else a["log_st0"]
            if strip_spans(logged) != strip_spans(a["sp_st0"]):
                disagreements.append(("harness translate call and compile_with_module_info produce different stage-0 code", replay))
        if i in mres:
            m = mres[i]
            replay["model"] = {"st0": m[0][:2000], "st1": (m[1] if len(m) > 1 else "")[:2000]}
            if m[0] != a.get("st0"):
                disagreements.append(("translate output differs (source program)", replay))
            elif len(m) > 1 and m[1].startswith("ERR"):
                src_unsupported += 1   # macro-stage code outside the model's stage-0 subset
            elif len(m) > 1 and m[1] != a.get("st1"):
                disagreements.append(("expanded code differs (source program)", replay))
            else:
                src_expand_eq += 1
                if is_fixture:
                    fixture_eq += 1
        if is_fixture:
            continue
        if i % 2 == 0:
            c = scases[i // 2]
            kinds[c["kind"]] = kinds.get(c["kind"], 0) + 1
            b = sans[i + 1]
            rp = dict(replay)
            rp["manual_expansion"] = c["manual"]
            rp["manual_answer"] = {k: v for k, v in b.items() if k in ("vm", "wasm", "vm_err", "wasm_err", "real_err")}
            if "vm" not in a and "vm" in b and re.search(r"\bmatch\b", c["staged"]) and "match-in-quoted-code" in findings and "code_match" in unregistered:
                ck.known(findings["match-in-quoted-code"], c["staged"].split("#stage(macro)")[-1].replace("\n", " ")[:160] + " -> " + str(a.get("vm_err")))
                ck.add("src_known_F27")
                continue
            if re.search(r"let\s*\{", c["staged"].split("#stage(macro)")[-1]) and "record-let-pattern-in-quoted-code" in findings and "vm" in b \
                    and a.get("vm") != b.get("vm"):
                ck.known(findings["record-let-pattern-in-quoted-code"], c["staged"].split("#stage(macro)")[-1].replace("\n", " ")[:160] + " -> " + str(a.get("vm", a.get("vm_err"))))
                ck.add("src_known_F28")
                continue
            if "vm" not in a:
                if str(a.get("expand_err", "")).startswith(("type-error", "parse-error", "top-type-error", "not-staged")):
                    # rejected by the parser / the stage-aware type checker BEFORE translate_staging runs: nothing is
                    # expanded, so there is no output to compare (typing of staged programs is not C09's subject)
                    ck.add("src_staged_program_rejected_before_expansion")
                elif "vm" in b:
                    prop_fail.append(("staged program fails (%s) but its hand-written expansion runs" % a.get("vm_err"), rp))
                continue
            if "vm" not in b:
                # generator produced an invalid expansion: not evidence
                continue
            if a["vm"] != b["vm"]:
                prop_fail.append(("staged program and its hand-written expansion produce different output (VM)", rp))
            else:
                src_ok += 1
            if c["wasm"] and "wasm" in a and "wasm" in b:
                src_wasm += 1
                if a["wasm"] != b["wasm"]:
                    prop_fail.append(("staged program and its hand-written expansion produce different output (WASM)", rp))
                if a["wasm"] != a["vm"]:
                    # backend disagreement on the staged program is C02's concern; only note it
                    ck.add("vm_wasm_differ_on_staged_program")
            if c.get("same_ast"):
                if a.get("in") != b.get("in") or a.get("st1") != b.get("st1"):
                    prop_fail.append(("`f!(a)` and `$(f(a))` are not the same program after desugaring", rp))
    ck.coverage["src_cases"] = len(scases)
    ck.coverage["src_kinds"] = kinds
    ck.coverage["src_outputs_equal_vm"] = src_ok
    ck.coverage["src_outputs_compared_wasm"] = src_wasm
    ck.coverage["src_expansion_equal_model"] = src_expand_eq
    ck.coverage["src_macro_code_outside_model_subset"] = src_unsupported
    ck.coverage["fixtures"] = len(fixtures)
    ck.coverage["fixtures_expansion_equal_model"] = fixture_eq
    if scases:
        ck.sample({"staged": scases[0]["staged"], "manual": scases[0]["manual"], "implementation": {k: sans[0].get(k) for k in ("vm", "st1")}})

    # ---------------- (3) lift ----------------
    rng = ck.rng.fork("lift")
    bits = ["0000000000000000", "8000000000000000", "0000000000000001", "800fffffffffffff", "000fffffffffffff",
            "0010000000000000", "7fefffffffffffff", "ffefffffffffffff", "7ff0000000000000", "fff0000000000000",
            "3ff0000000000000", "3fb999999999999a", "3fd5555555555555", "4340000000000000", "4340000000000001",
            "7fe0000000000000", "0000000000000002", "3cb0000000000000", "433fffffffffffff", "c3e0000000000000"]
    for _ in range(n_lift):
        k = rng.below(6)
        if k == 0:
            bits.append("%016x" % (rng.next() & 0x800FFFFFFFFFFFFF))             # subnormals
        elif k == 1:
            bits.append("%016x" % ((rng.next() & 0x800FFFFFFFFFFFFF) | (rng.range(0x7F0, 0x7FE) << 52)))  # huge
        elif k == 2:
            bits.append(fbits(float(rng.range(-10 ** 6, 10 ** 6)) / rng.choice([1, 10, 100, 1000, 3, 7])))
        else:
            bits.append("%016x" % rng.next())
    rc, lans = run_json(exe_i, [{"m": "lift", "bits": bits[j:j + 2000]} for j in range(0, len(bits), 2000)])
    lift_checked = 0
    lift_bad = []
    for j, a in enumerate(lans):
        chunk = bits[j * 2000:(j + 1) * 2000]
        if "err" in a:
            ck.violation("lift harness failed", {"answer": a}, no_input=True)
            break
        for route, outs in a.items():
            for b, o in zip(chunk, outs):
                lift_checked += 1
                if norm_bits(b) != o:
                    lift_bad.append((route, b, o))
    ck.coverage["lift_bit_patterns"] = len(bits)
    ck.coverage["lift_round_trips_checked"] = lift_checked
    for route, b, o in lift_bad[:3]:
        prop_fail.append(("a lifted macro-stage number does not survive f64 -> string -> parse",
                          {"mode": "lift", "route": route, "bits": b, "after_round_trip": o, "value": repr(bits_to_float(b)),
                           "how": "echo '{\"m\":\"lift\",\"bits\":[\"%s\"]}' | .cache/target/lang/debug/staging_run" % b}))

    ck.coverage["evaluations"] = len(cases) + len(reqs) + lift_checked
    ck.coverage["distinct_nontrivial"] = nontrivial + src_ok
    ck.coverage["exhaustive"] = False
    ck.coverage["model_vs_impl_disagreements"] = len(disagreements)

    # ---------------- verdicts ----------------
    for what, rp in prop_fail[:5]:
        ck.violation(what, rp)
    if disagreements and not prop_fail:
        # look for a property failure among the disagreeing inputs first: a disagreement where the implementation's
        # expansion is not the reference reading is already in prop_fail; what remains is a model/code mismatch
        what, rp = disagreements[0]
        ck.broken.append("correspondence Staging.Model vs translate_staging/codegen_combinators: " + what)
        rp = dict(rp)
        rp["disagreements"] = len(disagreements)
        rp["correspondence"] = "Staging.Model.{translate,ev} vs translate_staging::translate + stage-0 VM with codegen_combinators"
        ck.violation("model and implementation disagree: " + what, rp, no_input=False)
    if not proved and not prop_fail and not disagreements:
        ck.violation("a proof obligation of Props/C09.v no longer checks", {"broken": ck.broken}, no_input=True)
    return finish(ck)


def finish(ck):
    ck.finish(
        explanation=("Theorems of Props/C09.v are proved in Coq for ALL expressions, nestings, environments, counters and fuel over a Gallina "
                     "transcription of translate_staging.rs (translate_stage0/translate_code with the desugar counter), of the registered "
                     "combinators of codegen_combinators.rs and of a stage-0 evaluator. C09_quote_splice_id: running the translation of any "
                     "translatable quoted expression yields the reference reading (the expression itself with escapes replaced by what they "
                     "evaluate to) of its normal form; the normal form is exactly what the encoding imposes (norm1: parentheses dropped, missing "
                     "else / let body / then filled with unit, let annotations dropped, `_`, record and nested tuple let-patterns flattened, "
                     "qualified names mangled, nested quote -> block, lambda return type filled) and is the identity on normal forms "
                     "(C09_quote_identity: without escapes the generated code is the expression itself). C09_expand_agrees extends this to whole staged programs (let-bound code, functions returning code, "
                     "recursion). Refuted parts are theorems too and recorded findings: match in quoted code cannot be expanded (F27), "
                     "record let-patterns are lost (F28); float literals arrive exactly (C09_literal_exact; F19 was repaired in /repo). The model is tied to /repo by "
                     "the combinator tables regenerated from source (C09_arity_agree) and by running model and real compiler on the same generated "
                     "programs (AST level over all Expr forms x staging contexts; source level over staging contexts; fixtures), comparing the "
                     "translate output and the expanded AST structurally; outputs of staged programs are compared with hand-written expansions "
                     "on VM and WASM; lift is tested on random f64 bit patterns through every registered route."),
        trusted_base=["Coq 8.16.1 kernel (coqc, vm_compute; no native_compute)",
                      "extraction: ExtrOcamlBasic + ExtrOcamlString only; OCaml 4.13.1; ocaml/staging_drv.ml (s-expression reader/printer, f64 bits <-> spec_float)",
                      "translators/combinators.py (registered signatures, make_apply call sites)",
                      "harness/lang/src/bin/staging_run.rs: the stage-0 driver replicates compile_and_execute_stage0 through public APIs "
                      "(mirgen::compile + vm::Machine with codegen_combinator_signatures); cross-checked at every source case against the trace log of the real compile_with_module_info",
                      "the stage-0 VM, its type checker and the meaning of main-stage code are the real ones (C02's concern); the model's stage-0 evaluator covers "
                      "closures, let/letrec, if, f64 arithmetic intrinsics and the combinators; type ids are opaque; plugin macros (Probe, ...) are outside the model",
                      "that the normal form has the same meaning as the original expression is not proved (no semantics of main-stage code in Coq); it is what the "
                      "output comparison staged vs hand-written expansion tests",
                      "f64 -> string -> parse is the identity in the model (tested on the real code on random bit patterns, not proved)"],
        rule=("random stage-1 ASTs over all Expr forms (depth <= 4) placed in 7 staging contexts; source programs from 9 templates x random numeric "
              "expressions (stateful ones included) x 3 samples; a case is non-trivial when it expands successfully on both sides and its program text exceeds 60 characters; "
              "distinct = distinct program texts"))
