"""C02 — the core language follows call-by-value semantics with per-call-site state.

P: Props/C02.v: C02_preservation (cursor machine running the compiled program = reference semantics Lmmm/Ref.v, all wf programs,
   all run lengths, all input streams) + the clauses (self / mem / delay / now) as facts about the reference semantics.
C: extracted reference semantics + machine vs the real compiler on BOTH backends (bit-exact integer-valued f64 outputs).
S: the reference semantics IS the property's definition: real outputs are compared with it directly.
"""
import json, os
from vplib import *
import lmmm
from lmmm import *

import importlib.util as _ilu0, sys as _sys0
if os.path.join(VERIF, "checks") not in _sys0.path:
    _sys0.path.insert(0, os.path.join(VERIF, "checks"))
def _load_part(name):
    sp = _ilu0.spec_from_file_location("part_" + name, os.path.join(VERIF, "checks", name + ".py"))
    m = _ilu0.module_from_spec(sp); sp.loader.exec_module(m)
    return m
lmmx_part = _load_part("lmmx_part")
OCAML = lmmm.OCAML + lmmx_part.OCAML
HARNESS = lmmm.HARNESS + lmmx_part.HARNESS


def run(ck):
    ck.level = "proof"
    proved = ck.prove(tables=["statetree_consts"], extra_targets=[lmmm.EXTRACT_TARGET])
    mexe, iexe = build_sides(ck)
    if iexe is None or mexe is None:
        ck.violation("model driver or harness does not build", {"broken": ck.broken}, no_input=True)
        return finish(ck)
    quick = ck.tier == "quick"
    n_cases, n_samples = (1200, 16) if quick else (12000, 64)
    cases = load_corpus("lmmm") + gen_cases(ck, n_cases, n_samples, tag="C02")
    mres = run_model(mexe, cases)
    ires = run_impl(iexe, impl_requests(cases, {"state": False}))
    findings = {f["id"]: f for f in known_findings("C02")}
    stats, feats = {}, {}
    def bump(k, n=1): stats[k] = stats.get(k, 0) + n
    viol, disag = [], []
    distinct = set()
    for idx, ((p, rows), m, r) in enumerate(zip(cases, mres, ires)):
        cls = classes_of(p)
        src = pp_prog(p)
        if m.get('big'):
            bump("discarded_not_exact(|v|>=2^60)"); continue
        for k, v in features(p).items():
            feats[k] = feats.get(k, 0) + v
        if 'crash' in r:
            hit = [c for c in ("F2", "F3") if c in cls and c in findings]
            if hit:
                bump("crash_in_known_class"); ck.known(findings[hit[0]], src.replace("\n", " ")[:160]); continue
            viol.append(("harness process died while running an accepted program", idx, {"rc": str(r['crash'])})); continue
        ref = m.get('ref')
        if not m.get('compiled') or ref is None:
            disag.append(("reference semantics / model compile undefined for a generated program", idx)); continue
        if any(abs(v) >= 2 ** 53 for row in ref for v in row):
            bump("discarded_not_exact(|v|>=2^53)"); continue
        for be in ("vm", "wasm"):
            b = r.get(be)
            if b is None:
                bump(be + "_skipped_F3"); continue
            why = None
            if 'samples' not in b:
                why = ("%s rejects/panics at compile time: %s" % (be, str(b.get('compile') or b.get('compile_panic'))[:200]))
            else:
                for t in range(len(rows)):
                    if t >= len(b['samples']):
                        why = "%s stopped at sample %d" % (be, t); break
                    o = sample_outs(b, t)
                    if isinstance(o, tuple):
                        why = "%s panics at sample %d: %s" % (be, t, o[1][:120]); break
                    if o != [float(v) for v in ref[t]]:
                        why = "%s output at sample %d is %s, call-by-value/per-call-site-state semantics gives %s" % (be, t, o, ref[t]); break
            if why is None:
                bump(be + "_matches_reference")
                distinct.add(src)
                continue
            hit = [c for c in (("F3",) if be == "vm" else ()) if c in cls and c in findings]
            if hit:
                bump("failures_in_known_class_" + hit[0]); ck.known(findings[hit[0]], src.replace("\n", " ")[:140] + " -> " + why[:120])
            else:
                viol.append((why, idx, {"backend": be}))
        # model machine vs reference (the theorem's statement, evaluated)
        if m['wf'] and m['vm'] and all(s is not None for s in m['vm']):
            if [s['out'] for s in m['vm']] != ref:
                disag.append(("Lmmm machine and reference semantics differ on a wf program (C02_preservation would be false)", idx))
    # ---------------- outside the Coq fragment: wide self (tuple / record / sum-typed feedback value) + cells in `if` arms; the
    # expected stream comes from a python evaluator of the property text (lib/wideself.py), not from a theorem -------------------
    wviol = []
    for case, r in wide_stream(ck, iexe, 300 if quick else 3000, 12 if quick else 32, "C02"):
        if 'crash' in r:
            wviol.append(("harness process died while running an accepted program with a wide self", case, {"rc": str(r['crash'])})); continue
        if r.get("typecheck") != "ok":
            bump("wide_stream_rejected"); continue
        why = wide_output_mismatch(case, r)
        if why:
            wviol.append((why + " (program with a tuple/record/sum-typed self, outside the Coq fragment)", case, {}))
        else:
            bump("wide_stream_matches_reference"); distinct.add(case["src"])
    for what, case, det in wviol[:3]:
        ck.violation(what, {"source": case["src"], "reference_outputs": case["expect"], **det,
                            "how": "echo '{\"src\":<source>,\"n\":N}' | .cache/target/lang/debug/lmmm_run"})
    ck.coverage["evaluations"] = len(cases)
    ck.coverage["distinct_nontrivial"] = len(distinct)
    ck.coverage["samples_per_program"] = n_samples
    ck.coverage["stats"] = stats
    ck.coverage["feature_totals"] = feats
    ck.coverage["model_vs_impl_disagreements"] = len(disag)
    for i in (0, 3, len(cases) // 2, len(cases) - 1):
        p, rows = cases[i]
        ck.sample({"source": pp_prog(p), "reference_outputs_first_4": (mres[i].get('ref') or [])[:4], "classes": sorted(classes_of(p))})
    for what, idx, det in viol[:5]:
        p, rows = cases[idx]
        ck.violation(what, {"source": pp_prog(p), "n_samples": len(rows), "inputs": rows if p['inputs'] else None,
                            "reference_outputs": mres[idx].get('ref'), **det,
                            "how": "echo '{\"src\":<source>,\"n\":N,\"inputs\":..}' | .cache/target/lang/debug/lmmm_run"})
    # ---------------- closures, higher-order functions, pipes, default arguments, tuples, records: reference semantics Lmmx
    # (Props/C02_ext.v) against both backends (checks/lmmx_part.py) ----------------
    xviol = lmmx_part.run_part(ck, quick)
    for what, rp in xviol[:6]:
        ck.violation(what, {k: v for k, v in rp.items() if k != "no_input"}, no_input=bool(rp.get("no_input")))
    for tag in sorted(set(x.split(":")[0].split("_")[0].rstrip("b") for x in ck.coverage.get("lmmx_corpus_findings_reproduced", []))):
        if tag in findings:
            ck.known(findings[tag], "witness corpus/lmmx/findings/%s_*.mmm" % tag)
    viol = viol + wviol + [(w, None, None) for w, _ in xviol]
    if disag and not viol:
        what, idx = disag[0]
        ck.broken.append(what)
        ck.violation(what, {"source": pp_prog(cases[idx][0]), "count": len(disag)}, no_input=True)
    if not proved and not viol and not disag:
        ck.violation("a proof obligation of Props/C02.v no longer checks", {"broken": ck.broken}, no_input=True)
    return finish(ck)


def finish(ck):
    ck.finish(
        explanation=("C02_preservation is proved in Coq for every well-formed program of the Lmmm fragment (named functions, let, if with "
                     "stateless arms, calls, self, mem, delay, now, samplerate, dsp input, tuple outputs; integer-valued numbers, which f64 "
                     "computes exactly): the compiled cursor machine yields the stream of the reference semantics. The real compiler is tied to "
                     "the model by running generated programs on the VM and on WASM and comparing every output with the extracted reference "
                     "semantics. Not modelled (exercised only through the correspondence): parser->AST lowering, convert_pronoun, type inference, "
                     "bytecodegen, wasmgen; outside the fragment: closures, higher-order functions, pipes, default arguments, records, "
                     "non-integer arithmetic."),
        trusted_base=["Coq 8.16.1 kernel", "extraction (ExtrOcamlBasic/ExtrOcamlString), ocaml/lmmm_drv.ml",
                      "harness/lang lmmm_run + runner.rs (DspRuntime path of VM and WASM)", "lib/lmmm.py generator and pretty-printer",
                      "IEEE-754: f64 + - * comparisons min max are exact on integers of magnitude < 2^53 (cases beyond are discarded and counted)"],
        rule=("type-directed generator over the Lmmm AST; 1 case in 8 allows stateful constructs in `if` arms (class F2); "
              "distinct_nontrivial = distinct sources whose outputs matched the reference on at least one backend"))
