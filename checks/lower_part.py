"""CST -> AST lowering part of C04 (serves C16, C14):  run_part(ck, quick) -> list of (what, replay_obj).

P: coq/theories/Props/C04_lower.v and Props/C16_layout.v over Lower/{Ast,Model,ModelTypes,ModelExpr,ModelStmt}.v, a literal,
   fuelled transcription of EVERY function of compiler/parser/lower.rs (+ stmt_from_expr_top / into_then_expr of
   ast/statement.rs) over the parser model's tree and a token table (kind, start, length, text): no construct is left
   `Unsupported`.  C04_lower_total (every tree, every table: fuel 2 * tsize(tree) suffices, no index / unwrap panics),
   C04_parse_then_lower_total, C04_lower_errors_in_range / _spans_from_tokens / _spans_in_text / _spans_on_char_boundaries
   (both ends of every span of the AST are 0 or token boundaries; with C13_tiling: character boundaries inside the text),
   C16_parens_transparent (+ _fuel, _paren_is_sequence_of_content), C16_lower_fuel_monotone, C16_trivia_invisible /
   C16_front_total (parser + lowering depend on kinds, line-break bits, adjacency and texts of the syntax tokens only),
   C16_newline_inside_brackets_refuted (witness replayed on the real parser below).
C: the real `parser::parse_program` (harness/lang/src/bin/lower_run.rs) vs the extracted model (ocaml/lower_drv.ml) FED WITH THE
   REAL CST AND TOKEN LIST of the same text (the parser model itself is compared with parse_cst by checks/C04.py on the same
   streams): the whole Program as an s-expression with every Location (span + path bit), operator span, symbol text.
   Streams = those of C04: exhaustive short token-kind sequences, random kind sequences, grammar-generated and mutated programs,
   type-alias graphs, all shipped *.mmm and token-level mutations, random Unicode.  The kind classes of the model
   (is_expr_kind, is_pattern_kind, is_type_kind, binary operator table) are compared with the Rust source text.
S: the property on the implementation's answers: parse_program never panics; every span of the AST satisfies
   start <= end <= |text| on char boundaries; re-rendering the token sequence with different trivia (same line-break bits,
   same adjacency) gives the same AST up to spans; wrapping an expression in parentheses gives the same AST up to spans.
"""
import importlib.util, json, os, re, subprocess, sys, time
sys.path.insert(0, os.path.join(os.path.dirname(os.path.dirname(os.path.abspath(__file__))), "lib"))
import vplib
from vplib import VERIF, log

OCAML = [("lower_drv", ["lower_model"], "ocaml/lower_drv.ml")]
HARNESS = [("lang", ["lower_run"], True)]
PROPS_FILES = ["C04_lower", "C16_layout"]
COQ_TARGETS = ["theories/Props/%s.vo" % p for p in PROPS_FILES] + ["theories/Extract/LowerExtract.vo"]
PROPS = PROPS_FILES[0]
LOWER_RS = "crates/lib/mimium-lang/src/compiler/parser/lower.rs"


def utf8(s):
    return s.encode("utf-8", "surrogatepass")


def _c04():
    """generators of checks/C04.py (loaded under a private module name: C04.py may be the one that loads this part)"""
    if "_c04_generators" not in sys.modules:
        spec = importlib.util.spec_from_file_location("_c04_generators", os.path.join(VERIF, "checks", "C04.py"))
        m = importlib.util.module_from_spec(spec)
        sys.modules["_c04_generators"] = m
        spec.loader.exec_module(m)
    return sys.modules["_c04_generators"]


# ------------------------------------------------------------------------------------------------
# the two sides
# ------------------------------------------------------------------------------------------------
class Sides:
    def __init__(self, impl, model):
        self.impl, self.model = impl, model
        self.killed = []          # texts on which the harness process died / hung

    def impl_once(self, texts, timeout):
        inp = "\n".join(utf8(t).hex() for t in texts) + "\n"
        try:
            p = subprocess.run([self.impl], input=inp.encode(), stdout=subprocess.PIPE, stderr=subprocess.DEVNULL, timeout=timeout)
            so = p.stdout.decode(errors="replace")
        except subprocess.TimeoutExpired as ex:
            so = (ex.stdout or b"").decode(errors="replace")
        out = []
        for l in so.split("\n"):
            if l.startswith("{"):
                try:
                    out.append(json.loads(l))
                except ValueError:
                    break
        return out

    def run_impl(self, texts):
        """answers in order; None for a text on which the harness died or hung (recorded in self.killed)"""
        res = [None] * len(texts)
        todo = list(range(len(texts)))
        while todo and len(self.killed) < 5:
            out = self.impl_once([texts[i] for i in todo], 120 + len(todo) // 50)
            for i, d in zip(todo, out):
                res[i] = d
            if len(out) >= len(todo):
                break
            self.killed.append(texts[todo[len(out)]])
            todo = todo[len(out) + 1:]
        return res

    @staticmethod
    def model_line(text, d, nospan=False):
        """nospan: the table of Lower/Front.v front_nospan (every start and length 0)"""
        bs = utf8(text)
        return ",".join("%s:%d:%d:%s" % (k, 0 if nospan else s, 0 if nospan else l, bs[s:s + l].hex()) for k, s, l in d["t"]) + "\t" + d["s"]

    def run_model(self, lines):
        q = subprocess.run(["bash", "-c", f"ulimit -s unlimited 2>/dev/null; exec '{self.model}'"],
                           input=("\n".join(lines) + "\n").encode(), stdout=subprocess.PIPE, stderr=subprocess.DEVNULL, timeout=3000)
        out = q.stdout.decode(errors="replace").split("\n")
        if q.returncode != 0 or len(out) < len(lines):
            return None
        return out[:len(lines)]


SPAN_RE = re.compile(r"(\d+)-(\d+)")
LOC_RE = re.compile(r"[@~]?\d+-\d+")
HEAD_RE = re.compile(r"\((\w+)")


def erase_spans(a):
    return LOC_RE.sub("_", a)


def char_boundaries(text):
    b, pos = {0}, 0
    for ch in text:
        pos += len(utf8(ch))
        b.add(pos)
    return b, pos


def eval_property(text, d):
    """clauses of the property on the implementation's answer -> list of failed clauses"""
    if d is None:
        return ["process-died-or-hung"]
    if "panic" in d:
        return ["panic-before-lowering:" + d["panic"][:80]]
    if "lower_panic" in d:
        return ["parse_program-panics:" + d["lower_panic"][:120]]
    bad = []
    bounds, n = char_boundaries(text)
    for m in SPAN_RE.finditer(d["a"]):
        s, e = int(m.group(1)), int(m.group(2))
        if s > e:
            bad.append("span-start-after-end:%d-%d" % (s, e))
        elif e > n:
            bad.append("span-outside-text:%d-%d" % (s, e))
        elif s not in bounds or e not in bounds:
            bad.append("span-not-on-char-boundary:%d-%d" % (s, e))
        if len(bad) > 3:
            break
    if d.get("ne") != d.get("ne_cst"):
        bad.append("parse_program-reports-other-errors-than-parse_cst")
    return bad


# ------------------------------------------------------------------------------------------------
# layout transformations (evaluated on the implementation)
# ------------------------------------------------------------------------------------------------
TRIVIA = {"LineBreak", "Whitespace", "SingleLineComment", "MultiLineComment"}


def relayout(rng, text, d):
    """the same syntax tokens with other trivia: a run with a line break keeps one, a non-empty run stays non-empty and on one
    line, an empty run stays empty (adjacency decides tokenization and `prev_kind_if_adjacent`); None when not applicable"""
    bs = utf8(text)
    toks = d["t"]
    out, i, n = [], 0, len(toks)
    first_syntax_seen = False
    while i < n:
        k, s, l = toks[i]
        if k == "Eof":
            i += 1
            continue
        if k in TRIVIA:
            j, has_lb, has_line_comment = i, False, False
            while j < n and toks[j][0] in TRIVIA:
                has_lb |= toks[j][0] == "LineBreak"
                j += 1
            last = j >= n or toks[j][0] == "Eof"
            if has_lb:
                # preparse F5: trivia before the first token up to a line break is dropped -- the bits the parser sees stay the same
                out.append(rng.choice(["\n", " \n", "\n  ", " // c\n", "\n\n", " /* c */\n "]))
            else:
                out.append(rng.choice([" ", "  ", "\t", " /* c */ ", "/**/"]) if not last else rng.choice([" ", "  ", " /* c */"]))
            i = j
            continue
        if k == "Error":
            return None
        out.append(bs[s:s + l].decode("utf-8", "replace"))
        i += 1
    return "".join(out)


def syntax_kinds(d):
    return [k for k, _, _ in d["t"] if k not in TRIVIA and k != "Eof"]


def lb_bits(d):
    """per syntax token: is there a LineBreak in the trivia run before it; is it adjacent to the previous syntax token"""
    bits, lb, gap, seen = [], False, False, False
    for k, s, l in d["t"]:
        if k == "Eof":
            continue
        if k in TRIVIA:
            lb |= k == "LineBreak"
            gap = True
        else:
            bits.append((lb and seen, (not gap) and seen))
            lb, gap, seen = False, False, True
    return bits


# parenthesis sensitivity of the PARSER (cst_parser.rs) that the parenthesis stream meets; recorded by cause, to be listed in
# KNOWN_FINDINGS.txt (property C16) under these class names
PAREN_CLASSES = {"F66": "paren-lambda-union-param-one-tuple", "F67": "typed-lambda-ident-body-before-closer"}
PAREN_WITNESSES = [("F66", "| x : float | string , y : float | y * 1.0", "is_tuple_expr toggles in_lambda at the `|` of a union type"),
                   ("F67", "| x : float | x", "is_type_ident_after_pipe takes the closing bar of the parameter list for a union bar")]
TYPE_END = {"FloatType", "IntegerType", "StringType", "Ident", "ParenEnd", "ArrayEnd", "BlockEnd"}
IN_TYPE = {"FloatType", "IntegerType", "StringType", "Ident", "IdentParameter", "DoubleColon", "ParenBegin", "ParenEnd", "ArrayBegin",
           "ArrayEnd", "BlockBegin", "BlockEnd", "Comma", "Arrow", "BackQuote", "LambdaArgBeginEnd"}
AFTER_TYPE_IDENT = {"LambdaArgBeginEnd", "Comma", "ParenEnd", "BlockEnd", "ArrayEnd", "Arrow"}


def sexp_nodes(s):
    """[(kind, [children])] of every internal node of a CST s-expression; a child is a token index (int) or a node kind (str)"""
    out, stack, i, n = [], [], 0, len(s)
    while i < n:
        c = s[i]
        if c == "(":
            j = i + 1
            while j < n and s[j] not in " ()":
                j += 1
            stack.append((s[i + 1:j], []))
            i = j
        elif c == ")":
            k, ch = stack.pop()
            out.append((k, ch))
            if stack:
                stack[-1][1].append(k)
            i += 1
        elif c == " ":
            i += 1
        else:
            j = i
            while j < n and s[j] not in " ()":
                j += 1
            if stack:
                stack[-1][1].append(int(s[i:j]))
            i = j
    return out


def tuple_without_comma(d):
    """a TupleExpr node none of whose direct children is a Comma token: is_tuple_expr answered `tuple` because of a comma that
    belongs to a nested construct"""
    kinds = [k for k, _, _ in d["t"]]
    for k, ch in sexp_nodes(d["s"]):
        if k == "TupleExpr" and any(isinstance(c, str) for c in ch) and not any(isinstance(c, int) and kinds[c] == "Comma" for c in ch):
            return True
    return False


def typed_lambda_ident_body_before_closer(d):
    """... : <type> | <ident> <closer>: the parser's union-type lookahead (is_type_ident_after_pipe) applies to the closing bar of a
    lambda's parameter list when the body is a bare identifier followed by `|` `,` `)` `}` `]` `->` or the end of the text"""
    ks = syntax_kinds(d)
    for i in range(1, len(ks) - 1):
        if ks[i] == "LambdaArgBeginEnd" and ks[i + 1] == "Ident" and ks[i - 1] in TYPE_END and (i + 2 >= len(ks) or ks[i + 2] in AFTER_TYPE_IDENT):
            j = i - 1      # back over the tokens of the annotation (the bars of a union type included) to its colon
            while j >= 0 and (ks[j] in IN_TYPE or ks[j] == "Colon"):
                if ks[j] == "Colon":
                    return True
                j -= 1
    return False


def paren_class(d_plain, d_wrapped):
    if d_wrapped["ne"] == 0 and tuple_without_comma(d_wrapped) and not tuple_without_comma(d_plain):
        return "F66"
    if d_wrapped["ne"] and typed_lambda_ident_body_before_closer(d_wrapped):
        return "F67"
    return None


# ------------------------------------------------------------------------------------------------
# kind classes of the model vs the Rust source
# ------------------------------------------------------------------------------------------------
def source_tables():
    src = open(os.path.join(vplib.REPO, LOWER_RS)).read()

    def kinds(fn):
        m = re.search(r"fn %s\(kind: SyntaxKind\) -> bool \{\s*matches!\(\s*kind,(.*?)\)\s*\}" % fn, src, re.S)
        if not m:
            raise ValueError("lower.rs: fn %s no longer has the shape `matches!(kind, A | B ..)`" % fn)
        return sorted(re.findall(r"SyntaxKind::(\w+)", m.group(1)))
    m = re.search(r"fn extract_binary_op\(.*?let op = match tok\.kind \{(.*?)_ => None,", src, re.S)
    if not m:
        raise ValueError("lower.rs: extract_binary_op no longer has the shape `let op = match tok.kind { .. _ => None }`")
    ops = sorted(re.findall(r"TokenKind::(\w+) => Some\(Op::\w+\)", m.group(1)))
    return {"expr": kinds("is_expr_kind"), "pattern": kinds("is_pattern_kind"), "type": kinds("is_type_kind"), "binop": ops}


def model_tables(S):
    out = S.run_model(["?tables"])
    if not out:
        return None
    t = {}
    for item in out[0].split(" "):
        k, _, v = item.partition("=")
        t[k] = sorted(x for x in v.split(",") if x)
    return t


# ------------------------------------------------------------------------------------------------
# proofs
# ------------------------------------------------------------------------------------------------
def prove_part(ck):
    """builds the Props files (full proofs) and audits Print Assumptions of every theorem; [] when all is well"""
    if os.environ.get("VERIF_DEV_NOPROVE") == "1":
        return []
    bad = []
    errs = vplib.regen_tables(only=["lexer_tables", "token_kinds"])
    if errs:
        return ["tables: %r" % errs]
    present = [p for p in PROPS_FILES if os.path.exists(os.path.join(vplib.COQ, "theories", "Props", p + ".v"))]
    if "C04_lower" not in present:
        return ["Props/C04_lower.v is missing"]
    rc, out, dt = vplib.coq_make(["theories/Props/%s.vo" % p for p in present], timeout=1500)
    ck.coverage["lower_coq_build_s"] = round(dt, 1)
    if rc != 0:
        return ["coq: " + vplib.first_coq_error(out).replace("\n", " | ")[:600]]
    hits = [h for h in vplib.coq_audit_sources() if "/Lower/" in h or "C04_lower" in h or "C16_layout" in h]
    if hits:
        bad.append("forbidden construct in the sources: %r" % hits[:3])
    allthm = {}
    for p in present:
        thms, exs = vplib.props_theorems(p)
        try:
            ax = vplib.coq_print_assumptions(p, thms)
        except RuntimeError as ex:
            return ["audit: " + str(ex)[:400]]
        open_ = {k: v for k, v in ax.items() if v}
        if open_ or set(ax) != set(thms):
            bad.append("audit: theorems of Props/%s.v are not closed under the global context: %r" % (p, open_))
        allthm[p] = {"theorems": thms, "examples": exs}
        ck.obligations += len(thms) + len(exs)
        if not bad:
            ck.discharged += len(thms) + len(exs)
    ck.coverage["lower_theorems"] = allthm
    return bad


# ------------------------------------------------------------------------------------------------
# the part
# ------------------------------------------------------------------------------------------------
def corpus_texts():
    out = []
    p = os.path.join(VERIF, "corpus", "lower", "inputs.jsonl")
    if os.path.exists(p):
        for l in open(p):
            l = l.strip()
            if l and not l.startswith("#"):
                out.append(json.loads(l))
    return out


def replay_obj(origin, t, extra):
    d = {"origin": origin, "text": t if len(t) < 4000 else t[:4000] + "...", "hex": utf8(t).hex(),
         "how": "printf '<hex>\\n' | .cache/target/lang/debug/lower_run    (model: build the line `Kind:start:len:hextext,..<TAB><cst>` "
                "from the answer's t and s and feed it to .cache/ocaml/lower_drv/lower_drv; python3 checks/lower_part.py --text '<text>')"}
    d.update(extra)
    return d


def run_part(ck, quick=True, only_texts=None):
    """returns the violations of the lowering part as (what, replay_obj); coverage is recorded in ck.coverage['lower_*']"""
    t0 = time.time()
    viol = []
    for b in prove_part(ck):
        ck.broken.append("lower: " + b)
        viol.append(("lowering: proof obligation no longer checks: " + b, {"no_input": True}))
    rc, out, _ = vplib.coq_make(["theories/Extract/LowerExtract.vo"], timeout=900)
    if rc != 0:
        return viol + [("lowering: extraction of the model failed: " + vplib.first_coq_error(out)[:300], {"no_input": True})]
    rc, out, model = vplib.ocaml_build("lower_drv", ["lower_model"], os.path.join(VERIF, "ocaml", "lower_drv.ml"))
    if rc != 0:
        return viol + [("lowering: model driver does not build: " + out[-300:], {"no_input": True})]
    rc, out, bindir = vplib.cargo_build("lang", ["lower_run"])
    if rc != 0:
        return viol + [("lowering: harness lower_run does not build against the repository: " + out[-400:], {"no_input": True})]
    S = Sides(os.path.join(bindir, "lower_run"), model)
    cov = {"build_s": round(time.time() - t0, 1), "texts": 0, "compared": 0, "tokens": 0, "with_parse_errors": 0,
           "with_error_nodes": 0, "unsupported": 0, "model_fuel_or_panic": 0, "distinct_asts": 0}
    heads, seen = {}, set()
    clause_fail, disagree, layout_fail = [], [], []

    # ---- kind classes: model vs source text ----
    try:
        st = source_tables()
        mt = model_tables(S)
        cov["kind_classes"] = {k: len(v) for k, v in st.items()}
        if mt != st:
            diff = {k: (sorted(set(st[k]) ^ set((mt or {}).get(k, [])))) for k in st if st[k] != (mt or {}).get(k)}
            viol.append(("lowering: the kind classes of the model (is_expr_kind / is_pattern_kind / is_type_kind / binary operators) "
                         "differ from lower.rs: %r" % diff, {"no_input": True, "source": st, "model": mt}))
    except (ValueError, OSError) as ex:
        viol.append(("lowering: " + str(ex), {"no_input": True}))

    def phase(origin, texts, sample_every=0, layout_rng=None, layout_every=0):
        t1 = time.time()
        impl = S.run_impl(texts)
        okidx = [i for i, d in enumerate(impl) if d is not None and "s" in d]
        mod = S.run_model([S.model_line(texts[i], impl[i]) for i in okidx]) if okidx else []
        if mod is None:
            viol.append(("lowering: the model driver crashed / truncated its output (%s)" % origin, {"no_input": True}))
            mod = [None] * len(okidx)
        mo = dict(zip(okidx, mod))
        zidx = [i for i in okidx if i % 3 == 0]
        mz = dict(zip(zidx, (S.run_model([S.model_line(texts[i], impl[i], nospan=True) for i in zidx]) or []) if zidx else []))
        for i, (t, d) in enumerate(zip(texts, impl)):
            cov["texts"] += 1
            bad = eval_property(t, d)
            if bad and len(clause_fail) < 60:
                clause_fail.append((origin, t, sorted(set(bad)), json.dumps(d)[:1200] if d else ""))
            if d is None or "s" not in d:
                continue
            cov["tokens"] += len(d["t"])
            a = d.get("a")
            if a is not None:
                for h in HEAD_RE.findall(a):
                    heads[h] = heads.get(h, 0) + 1
                if d.get("ne"):
                    cov["with_parse_errors"] += 1
                if "(Error " in a or "PStmtError" in a or "SError" in a or "PError" in a:
                    cov["with_error_nodes"] += 1
                seen.add(hash(erase_spans(a)))
            m = mo.get(i)
            if m is None:
                continue
            cov["compared"] += 1
            if m.startswith("FUEL") or m.startswith("PANIC"):
                cov["model_fuel_or_panic"] += 1
            want = a if a is not None else "PANIC"
            if (m != want) if a is not None else (not m.startswith("PANIC")):
                if len(disagree) < 60:
                    disagree.append((origin, t, m[:1500], (a or ("lower_panic: " + d.get("lower_panic", "")))[:1500]))
            if i in mz and a is not None:
                cov["nospan_compared"] = cov.get("nospan_compared", 0) + 1
                if mz[i] != SPAN_RE.sub("0-0", a) and len(disagree) < 60:
                    disagree.append((origin + " (positions zeroed: Front.front_nospan vs the real AST with its spans erased)", t, (mz[i] or "")[:1500], SPAN_RE.sub("0-0", a)[:1500]))
            if sample_every and i % sample_every == sample_every // 2 and a:
                ck.sample({"origin": "lower:" + origin, "input": t[:160], "ast": a[:300], "model_equal": m == a})
        # layout: other trivia, same line-break bits -> same AST up to spans
        if layout_rng is not None and layout_every:
            pick = [i for i in okidx if i % layout_every == 0 and impl[i].get("a") is not None]
            variants, src = [], []
            for i in pick:
                v = relayout(layout_rng, texts[i], impl[i])
                if v is not None and v != texts[i]:
                    variants.append(v)
                    src.append(i)
            vimpl = S.run_impl(variants) if variants else []
            for i, v, dv in zip(src, variants, vimpl):
                d = impl[i]
                if dv is None or "a" not in dv:
                    layout_fail.append((origin, texts[i], v, "the re-laid-out text is not answered: %r" % (dv and {k: dv[k] for k in dv if k not in ("t", "s")},)))
                    continue
                if syntax_kinds(dv) != syntax_kinds(d) or lb_bits(dv) != lb_bits(d):
                    cov["layout_variants_with_other_tokens"] = cov.get("layout_variants_with_other_tokens", 0) + 1
                    continue
                cov["layout_variants"] = cov.get("layout_variants", 0) + 1
                if erase_spans(dv["a"]) != erase_spans(d["a"]) or dv.get("ne") != d.get("ne"):
                    layout_fail.append((origin, texts[i], v, "AST (spans erased) or error count changed"))
        cov.setdefault("phase_s", {})[origin] = round(time.time() - t1, 1)

    C = _c04()
    if only_texts is not None:
        phase("given", only_texts, layout_rng=ck.rng.fork("lower-layout"), layout_every=1)
    else:
        corpus = corpus_texts()
        phase("corpus", corpus, sample_every=max(1, len(corpus)), layout_rng=ck.rng.fork("lower-layout-corpus"), layout_every=1)
        cov["corpus_cases"] = len(corpus)
        # exhaustive short kind sequences (as C04)
        exh = [""] + [C.LEX[k] for k in C.KINDS]
        for a in C.KINDS:
            for b in C.KINDS:
                for s in C.SEPS:
                    exh.append(C.LEX[a] + s + C.LEX[b])
        if not quick:
            for a in C.KINDS:
                for b in C.KINDS:
                    for c in C.KINDS:
                        exh.append(C.LEX[a] + " " + C.LEX[b] + " " + C.LEX[c])
        phase("exhaustive", exh, sample_every=len(exh))
        cov["exhaustive_sequences"] = len(exh)
        rng = ck.rng.fork("lower-random-kinds")
        n_rand = 12000 if quick else 100000
        texts = []
        for _ in range(n_rand):
            L = rng.range(3, 12)
            texts.append(C.render([rng.choice(C.KINDS) for _ in range(L)], [rng.choice([" ", " ", " ", "", "\n"]) for _ in range(L)]))
        phase("random-kinds", texts, sample_every=n_rand)
        rng = ck.rng.fork("lower-grammar")
        n_gen = 16000 if quick else 100000
        g = C.Gen(rng)
        texts = []
        for j in range(n_gen):
            toks = g.program() if j % 3 else g.stmt(rng.range(1, 2))
            if j % 2:
                toks = C.mutate_tokens(rng, toks)
            texts.append(C.join_tokens(rng, toks))
        phase("grammar", texts, sample_every=n_gen, layout_rng=ck.rng.fork("lower-layout-grammar"), layout_every=4)
        rng = ck.rng.fork("lower-type-graphs")
        n_tg = 1000 if quick else 10000
        phase("type-graphs", [C.gen_type_graph(rng) for _ in range(n_tg)])
        files = C.repo_mmm()
        cov["repo_mmm_files"] = len(files)
        phase("repo-file", [s for _, s in files], sample_every=max(1, len(files)), layout_rng=ck.rng.fork("lower-layout-files"), layout_every=1)
        rng = ck.rng.fork("lower-mutations")
        nmut = 4 if quick else 20
        phase("repo-file-mutated", [C.mutate_text(rng, s) for _, s in files for _ in range(nmut)])
        rng = ck.rng.fork("lower-unicode")
        n_uni = 4000 if quick else 40000
        phase("random-unicode", [C.rand_unicode(rng, 14) for _ in range(n_uni)])
        # redundant parentheses around the initialiser of a let that is followed by another statement
        rng = ck.rng.fork("lower-parens")
        n_par = 3000 if quick else 30000
        g = C.Gen(rng)
        es = [w for _, w, _ in PAREN_WITNESSES] + [" ".join(x for x in g.expr(rng.range(1, 3)) if x != "\n") for _ in range(n_par)]
        plain = S.run_impl(["let v = " + e + "\nlet w = 0" for e in es])
        wrapped = S.run_impl(["let v = (" + e + ")\nlet w = 0" for e in es])
        npar, classes = 0, {}
        for j, (e, d0, d1) in enumerate(zip(es, plain, wrapped)):
            if not d0 or not d1 or "a" not in d0 or "a" not in d1 or d0["ne"]:
                continue
            if [len(ch) for k, ch in sexp_nodes(d0["s"]) if k == "Program"] != [2]:
                continue        # e is not ONE expression (`x (y)` after a prefix form is two statements on one line)
            npar += 1
            if d1["ne"] == 0 and erase_spans(d0["a"]) == erase_spans(d1["a"]):
                if j < len(PAREN_WITNESSES):
                    viol.append(("lowering: the witness of the recorded parenthesis finding %s no longer reproduces" % PAREN_WITNESSES[j][0],
                                 replay_obj("parens-witness", "let v = (" + e + ")\nlet w = 0", {"no_input": True})))
                continue
            cls = paren_class(d0, d1)
            if cls:
                classes[cls] = classes.get(cls, 0) + 1
                f = [x for x in vplib.known_findings("C16") if x["cls"] == PAREN_CLASSES[cls]]
                if f:
                    ck.known(f[0], "let v = (%s)" % e[:80])
            else:
                layout_fail.append(("parens", "let v = " + e + "\nlet w = 0", "let v = (" + e + ")\nlet w = 0",
                                    "redundant parentheses around an initialiser change the AST (spans erased) or make it a parse error"))
        cov["paren_pairs_compared"] = npar
        cov["paren_pairs_in_recorded_classes"] = classes

    # ---- the witness of C16_newline_inside_brackets_refuted on the real parser ----
    if only_texts is None:
        w = S.run_impl(["(g(1.0))", "(g\n(1.0))"])
        ok = bool(w[0] and w[1] and w[0].get("ne") == 0 and w[1].get("ne", 0) > 0 and erase_spans(w[0].get("a", "")) != erase_spans(w[1].get("a", "")))
        cov["newline_witness_reproduces"] = ok
        if not ok:
            viol.append(("lowering: the witness of C16_newline_inside_brackets_refuted ((g(1.0)) vs (g<newline>(1.0))) no longer reproduces on the real parser",
                         replay_obj("newline-witness", "(g\n(1.0))", {"no_input": True, "answers": [{k: v for k, v in (x or {}).items() if k in ("a", "ne")} for x in w]})))

    # ---- verdicts ----
    for t in S.killed[:3]:
        viol.append(("lowering: parse_program does not return (the harness process died or hung)", replay_obj("killed", t, {})))
    clause_fail.sort(key=lambda x: len(x[1]))
    seen_what = set()
    for (origin, t, bad, line) in clause_fail:
        key = re.sub(r"\d+", "N", bad[0])[:50]
        if key in seen_what or len(seen_what) >= 4:
            continue
        seen_what.add(key)
        viol.append(("lowering: parse_program violates clause(s): " + ",".join(bad)[:300], replay_obj(origin, t, {"implementation_answer": line})))
    layout_fail.sort(key=lambda x: len(x[1]))
    for (origin, t, v, why) in layout_fail[:3]:
        viol.append(("lowering: layout transformation changes the AST: " + why, replay_obj(origin, t, {"transformed": v, "transformed_hex": utf8(v).hex()})))
    if disagree and not clause_fail:
        disagree.sort(key=lambda x: len(x[1]))
        origin, t, m_, i_ = disagree[0]
        ck.broken.append("correspondence Lower.ModelStmt.lower vs parser::parse_program")
        viol.append(("lowering: the model (Lower/Model*.v) and parse_program disagree (no clause of the property fails on the explored inputs)",
                     dict(replay_obj(origin, t, {"correspondence": "Lower.ModelStmt.lower vs Lowerer::lower_program", "model": m_,
                                                 "implementation": i_, "disagreements": len(disagree)}), no_input=True)))
    cov["clause_failures"] = len(clause_fail)
    cov["disagreements"] = len(disagree)
    cov["layout_failures"] = len(layout_fail)
    cov["distinct_asts"] = len(seen)
    cov["ast_constructors_seen"] = len(heads)
    cov["ast_constructor_counts"] = dict(sorted(heads.items()))
    cov["share_inside_transcribed_part"] = 1.0 if cov["compared"] else None      # no construct of lower.rs is `Unsupported`
    cov["wall_s"] = round(time.time() - t0, 1)
    for k, v in cov.items():
        ck.coverage["lower_" + k] = v
    ck.add("evaluations", cov["texts"])
    ck.add("distinct_nontrivial", len(seen))
    return viol


if __name__ == "__main__":
    thorough = "--thorough" in sys.argv
    only = None
    if "--text" in sys.argv:
        only = [sys.argv[sys.argv.index("--text") + 1]]
    ck = vplib.Check("lower_dev", ["--tier", "thorough" if thorough else "quick"])
    t0 = time.time()
    vs = run_part(ck, quick=not thorough, only_texts=only)
    print(json.dumps({k: v for k, v in ck.coverage.items() if k.startswith("lower_")}, indent=1, default=str)[:6000])
    print("seed %d: %d violation(s) in %.1f s" % (ck.seed, len(vs), time.time() - t0))
    for what, obj in vs:
        print("VIOLATION:", what)
        print(json.dumps(obj, indent=1)[:3000])
    sys.exit(1 if vs else 0)
