"""C01 — VM and WASM backends produce identical audio.

P: Props/C01.v: C01_core_agree / C01_agree_unless_fault — the two state-cursor disciplines (VM: fixed storage, plain cursor
   arithmetic; WASM host: saturating cursor, storage grown on demand) compute identical outputs, state words, cursor and trace on
   every wf program of the Lmmm fragment, for every run length.  (partial: wasmgen/bytecodegen lowering is NOT modelled)
C: three-way comparison model = VM = WASM on generated core programs.
S: direct VM-vs-WASM comparison (channel count, bitwise samples with NaN folding, accept/reject agreement) on generated programs,
   on the shipped lib/ examples/ fixtures sources and on token-level mutations of them, with the scheduler plugin loaded.
"""
import glob, json, os, re
from vplib import *
import lmmm
from lmmm import *

import importlib.util as _ilu0, sys as _sys0
if os.path.join(VERIF, "checks") not in _sys0.path:
    _sys0.path.insert(0, os.path.join(VERIF, "checks"))
def _load_part(name):
    sp = _ilu0.spec_from_file_location("part_" + name, os.path.join(VERIF, "checks", name + ".py"))
    m = _ilu0.module_from_spec(sp); sp.loader.exec_module(m)
    return m
prims_part = _load_part("prims_part")
OCAML = lmmm.OCAML + prims_part.OCAML
HARNESS = lmmm.HARNESS + prims_part.HARNESS


def backend_summary(b):
    """canonical summary of one backend's answer: ('reject',) | ('panic', msg) | ('ok', n_out, [tuple of bit strings per sample])"""
    if b is None:
        return None
    if 'compile' in b:
        return ('reject',)
    if 'compile_panic' in b:
        return ('panic', b['compile_panic'][:80])
    if b.get('io') is None:
        return ('ok', None, [])
    outs = []
    for s in b['samples']:
        if 'panic' in s:
            outs.append(('panic', s['panic'][:60])); break
        outs.append(tuple(s['out']))
    return ('ok', b['io'][1], outs)


def mutate_source(rng, src):
    """token-level mutations that usually keep the program compilable"""
    kinds = []
    nums = list(re.finditer(r"(?<![\w.])\d+\.\d+", src))
    if nums: kinds.append("num")
    ops = list(re.finditer(r" (\+|-|\*|<|>) ", src))
    if ops: kinds.append("op")
    if not kinds:
        return None
    k = rng.choice(kinds)
    if k == "num":
        m = rng.choice(nums)
        new = rng.choice(["0.0", "1.0", "2.0", "-1.0", "0.5", "3.0", "100.0"])
        if new.startswith("-"):
            new = "(" + new + ")"
        return src[:m.start()] + new + src[m.end():]
    m = rng.choice(ops)
    return src[:m.start(1)] + rng.choice(["+", "-", "*", "<", ">"]) + src[m.end(1):]


def srng_shuffle(rng, xs):
    for i in range(len(xs) - 1, 0, -1):
        j = rng.below(i + 1); xs[i], xs[j] = xs[j], xs[i]
    return xs


def sched_tick_closure(src):
    """class predicate of C11's finding (WASM: a closure handed to `@` while a sample is processed lives at the bump pointer and is
    overwritten): a task that schedules a task from inside a running task"""
    return re.search(r"fn t\d+\(\)\{[^}]*@\(now", src) is not None


# indices (in the fixed XGen stream of section (2)) of the programs recorded as finding F65
XGEN_F65 = {2273, 2837, 2911, 3002, 4936}
XGEN_X4 = {2706}       # a stateful function called from a closure that is created on every sample
WITNESS_IDENTIFIED = {"X3", "X4", "W7", "W8", "W9", "P1", "P3", "P4", "B1", "J8", "ML", "GS"}    # findings identified by their witness programs only


def src_classes(src):
    """class predicates of known findings evaluated on source text (for shipped / mutated sources)"""
    c = set()
    if re.search(r"%\s*\(?\s*\d*\.\d*[1-9]|\d*\.\d*[1-9]\d*\s*\)?\s*%", src): c.add("F62")   # x % y with a non-integer literal operand
    if re.search(r"match[^{}]*\{[^{}=]*=>\s*\(?\s*match\b", src): c.add("F63")      # a match directly inside the first arm of a match
    if re.search(r"\.\.\s*\}", src): c.add("F17")            # incomplete record literal {a=1, ..}
    # F46: a comparison whose operand is a tuple / record projection (x.0 > y, r.attack <= r.decay)
    if re.search(r"\w\.\w+\s*(<=|>=|==|!=|<|>)\s|\s(<=|>=|==|!=|<|>)\s*\w+\.[A-Za-z0-9_]+", src): c.add("F46")
    return c


def run(ck):
    ck.level = "other"
    proved = ck.prove(tables=["statetree_consts"], extra_targets=[lmmm.EXTRACT_TARGET])
    mexe, iexe = build_sides(ck)
    if iexe is None:
        ck.violation("harness does not build", {"broken": ck.broken}, no_input=True)
        return finish(ck)
    quick = ck.tier == "quick"
    findings = {f["id"]: f for f in known_findings("C01")}
    stats = {}
    def bump(k, n=1): stats[k] = stats.get(k, 0) + n
    viol, disag = [], []
    distinct = set()

    # ---------- (1) generated core programs: model = VM = WASM ----------
    n_cases, n_samples = (800, 16) if quick else (8000, 64)
    cases = load_corpus("lmmm") + gen_cases(ck, n_cases, n_samples, tag="C01")
    mres = run_model(mexe, cases) if mexe else [None] * len(cases)
    ires = run_impl(iexe, impl_requests(cases))
    for idx, ((p, rows), m, r) in enumerate(zip(cases, mres, ires)):
        cls = classes_of(p)
        src = pp_prog(p)
        if 'crash' in r:
            if "F3" in cls and "F3" in findings:
                bump("gen_crash_in_F3_class"); ck.known(findings["F3"], src.replace("\n", " ")[:150]); continue
            viol.append(("harness process died while running a generated program", src, {"rc": str(r['crash'])})); continue
        a, b = backend_summary(r.get('vm')), backend_summary(r.get('wasm'))
        if a is None:
            bump("gen_vm_skipped_F3"); continue
        if a == b:
            bump("gen_vm_equals_wasm")
            if a[0] == 'ok' and a[2]:
                distinct.add(src)
            # state words too
            vm, ws = r['vm'], r['wasm']
            if 'samples' in vm and 'samples' in ws:
                for t, (x, y) in enumerate(zip(vm['samples'], ws['samples'])):
                    if 'words' in x and 'words' in y:
                        yy = y['words'] + [0] * max(0, len(x['words']) - len(y['words']))
                        if yy != x['words']:
                            if "F3" in cls and "F3" in findings:
                                bump("gen_words_diff_in_known_class_F3"); ck.known(findings["F3"], src.replace("\n", " ")[:140]); break
                            viol.append(("flat state words differ between VM and WASM at sample %d" % t, src, {"vm": x['words'], "wasm": y['words']})); break
        else:
            hit = [c for c in ("F3",) if c in cls and c in findings]
            if hit:
                bump("gen_diff_in_known_class_" + hit[0]); ck.known(findings[hit[0]], src.replace("\n", " ")[:140])
            else:
                viol.append(("VM and WASM differ on a generated program", src, {"vm": str(a)[:300], "wasm": str(b)[:300], "inputs": rows if p['inputs'] else None, "n": len(rows)}))
        # model agreement of the two disciplines (the theorem, evaluated) and with the real outputs
        if m and m.get('compiled') and m.get('wf') and not m.get('big'):
            mv = [s['out'] if s else None for s in m['vm']]
            mw = [s['out'] if s else None for s in m['wasm']]
            if mv != mw:
                disag.append(("Lmmm VmD and WasmD machines differ on a wf program", src))

    # ---------- (1a') outside the model: functions with multi-word (tuple / record) parameters read in if / match arms, after the
    # merge and across recursive calls (VM keeps them in per-frame registers, WASM spills flattened params to memory) ----------
    for src, r in tuple_param_stream(ck, iexe, 250 if quick else 3000, 10 if quick else 24, "C01"):
        if 'crash' in r:
            viol.append(("harness process died while running a program with tuple/record parameters", src, {"rc": str(r['crash'])})); continue
        if r.get("typecheck") != "ok":
            bump("tuple_param_rejected"); continue
        a, b = backend_summary(r.get('vm')), backend_summary(r.get('wasm'))
        if a == b:
            bump("tuple_param_vm_equals_wasm")
            if a and a[0] == 'ok':
                distinct.add(src)
        else:
            viol.append(("VM and WASM differ on a program with tuple/record parameters", src, {"vm": str(a)[:300], "wasm": str(b)[:300], "n": 10 if quick else 24}))

    # ---------- (1b) scheduler programs whose tasks do NOT commute: same-time tasks, chains, tasks scheduled by tasks ----------
    srng = ck.rng.fork("sched")
    sreqs = []
    OPS = ["x = x + {c}", "x = x * {c}", "x = {c} - x", "x = x * {c} + 1.0", "x = max(x, {c}) - 1.0", "x = 0.0 - x"]
    for si in range(60 if quick else 600):
        ntask = srng.range(2, 7)
        lines = ["let x = 0.0"]
        for ti in range(ntask):
            body = srng.choice(OPS).format(c="%d.0" % srng.range(2, 9))
            resched = ""
            if srng.chance(1, 3):
                resched = "\n    t%d@(now+%d.0)" % (ti, srng.range(1, 3))
            lines.append("fn t%d(){\n    %s%s\n}" % (ti, body, resched))
        times = [srng.range(1, 4) for _ in range(ntask)]
        if srng.chance(1, 2):
            times = [times[0]] * ntask          # all at the same sample
        for ti in srng_shuffle(srng, list(range(ntask))):
            lines.append("t%d@%d.0" % (ti, times[ti]))
        if si % 3 == 2:
            # dsp takes INPUTS while tasks run in the same sample (the VM's runtime used to lose them: fixed by 1eb8204)
            nin = srng.range(1, 2)
            args = ", ".join("i%d:float" % k for k in range(nin))
            lines.append("fn dsp(%s){\n    x + %s\n}" % (args, " * 2.0 + ".join("i%d" % k for k in range(nin))))
            sreqs.append({"src": "\n".join(lines) + "\n", "n": 10, "state": False, "sched": True,
                          "inputs": [[float(srng.range(0, 9)) for _ in range(nin)] for _ in range(10)]})
            continue
        lines.append("fn dsp(){\n    x\n}")
        sreqs.append({"src": "\n".join(lines) + "\n", "n": 10, "state": False, "sched": True})
    sres = run_impl(iexe, sreqs)
    for rq, r in zip(sreqs, sres):
        if 'crash' in r:
            viol.append(("harness process died on a scheduler program", rq['src'], {"rc": str(r['crash'])})); continue
        a, b = backend_summary(r.get('vm')), backend_summary(r.get('wasm'))
        if a == b:
            bump("sched_vm_equals_wasm")
            if a[0] == 'ok': distinct.add(rq['src'])
        elif "must be in the future" in str(a) + str(b):
            bump("sched_premise_violated_skipped")
        else:
            hit = [c for c in ("F13w",) if c in findings and sched_tick_closure(rq['src'])]
            if hit:
                bump("sched_diff_in_known_class_" + hit[0]); ck.known(findings[hit[0]], rq['src'].replace("\n", " ")[:140])
            else:
                viol.append(("VM and WASM differ on a scheduler program (order or time of task execution)", rq['src'], {"vm": str(a)[:300], "wasm": str(b)[:300], "n": 10, "sched": True, **({"inputs": rq["inputs"]} if "inputs" in rq else {})}))

    # ---------- (2) shipped sources and mutations: VM vs WASM ----------
    files = sorted(glob.glob(REPO + "/examples/*.mmm") + glob.glob(REPO + "/lib/*.mmm") +
                   glob.glob(REPO + "/crates/lib/mimium-test/tests/mmm/*.mmm"))
    SKIP = {"scheduler_invalid.mmm"}     # deliberately schedules in the past (premise violation of C11)
    reqs, meta = [], []
    nrun = 24 if quick else 96
    # mutants of shipped sources come from a FIXED stream (independent of VERIF_SEED) and only in the thorough tier, so that the
    # set of recorded findings is stable; generated programs follow VERIF_SEED
    rng = Rng(20260925)
    for f in files:
        if os.path.basename(f) in SKIP:
            continue
        src = open(f).read()
        reqs.append({"src": src, "path": f, "n": nrun, "state": False, "sched": True}); meta.append((f, "orig"))
        for k in range(0 if quick else 6):
            ms = mutate_source(rng, src)
            if ms and ms != src:
                reqs.append({"src": ms, "path": f, "n": nrun, "state": False, "sched": True}); meta.append((f, "mut%d" % k))
    for msrc in [gen_match_source(ck.rng.fork(("match-C01", i))) for i in range(150 if quick else 1500)]:
        reqs.append({"src": msrc, "n": 12, "state": False, "sched": False}); meta.append(("match", "gen-match"))
    # closures / higher-order functions / tuples / records / sum types / match / arrays / recursion / pipes: the rich generator of
    # checks/C18.py (XGen), compared VM against WASM.  Programs using `%` are left out (x % y on non-integers is the recorded
    # difference F62/F48); comparisons of projections are classified by src_classes (F46).
    import importlib.util as _ilu
    _sp = _ilu.spec_from_file_location("check_C18_gen", os.path.join(VERIF, "checks", "C18.py"))
    _c18 = _ilu.module_from_spec(_sp); _sp.loader.exec_module(_c18)
    nx = 0
    for i in range(400 if quick else 5000):
        xr = Rng(20260926).fork(("C01x", i))     # FIXED stream (independent of VERIF_SEED): every difference it contains is triaged
        xsrc, has_in = _c18.XGen(xr).program()
        if "%" in xsrc:
            bump("xgen_skipped_percent"); continue
        rqx = {"src": xsrc, "n": 12, "state": False, "sched": False}
        if has_in:
            xin = xr.fork("in")
            rqx["inputs"] = [[xin.choice(_c18.XIN)] for _ in range(12)]
        reqs.append(rqx); meta.append(("xgen", "gen-x:%d" % i)); nx += 1
    ck.coverage["xgen_programs"] = nx
    # witnesses of the listed findings (and of repaired defects, which must stay repaired) run with every tier
    wits = json.load(open(os.path.join(VERIF, "corpus", "C01", "witnesses.json")))
    for w in wits:
        reqs.append({"src": w["src"], "n": nrun, "state": False, "sched": True}); meta.append(("witness", "wit:" + w["id"] + (":repaired" if "repaired" in w else "")))
    reproduced = set()
    _known = ck.known
    def known_and_note(f_, detail):
        reproduced.add(f_["id"]); _known(f_, detail)
    ck.known = known_and_note
    res = run_impl(iexe, reqs, timeout_per_batch=400)
    for (f, kind), rq, r in zip(meta, reqs, res):
        if 'crash' in r and r['crash'] == "stack-overflow" and kind != "orig":
            bump("mutant_unbounded_recursion_skipped"); continue
        if 'crash' in r:
            # which backend dies?  A MUTANT on which BOTH backends (or the shared front end / macro stage) die alike shows no
            # difference between the backends: that is C03's subject (its crash oracle runs the same mutant streams), not C01's
            if kind != "orig" and not kind.startswith("wit:"):
                per = run_impl(iexe, [{**{k: v for k, v in rq.items() if k != "id"}, "backends": [be], "isolate": True} for be in ("vm", "wasm")], timeout_per_batch=120)
                if all('crash' in x for x in per):
                    bump("mutant_dies_on_both_backends_alike_C03_matter"); continue
            viol.append(("harness process died (abort / memory error) on a shipped or mutated source", rq['src'], {"file": f, "mutation": kind, "rc": str(r['crash'])})); continue
        a, b = backend_summary(r.get('vm')), backend_summary(r.get('wasm'))
        if a is not None and a[0] == 'ok' and a[1] is None:
            bump("shipped_no_dsp"); continue
        if a == b:
            bump("shipped_same_" + kind[:3])
            if a[0] == 'ok': distinct.add(rq['src'])
            continue
        if "must be in the future" in str(a) + str(b):
            bump("scheduler_premise_violated_skipped"); continue     # C11's premise (when > now) does not hold for this source
        if a and b and a[0] == 'panic' and b[0] == 'panic':
            bump("shipped_both_panic_" + kind[:3]); continue     # a C04 matter, not a backend difference
        hit = [c for c in src_classes(rq['src']) if c in findings]
        # F65: the programs of the FIXED generator stream that still differ (a projection used directly as the value of an if arm /
        # an element of the output tuple; or-result stored in a tuple-valued self), listed by their index in the stream
        if not hit and "F65" in findings and (kind == "wit:F65" or (kind.startswith("gen-x:") and int(kind.split(":")[1]) in XGEN_F65)):
            hit = ["F65"]
        if not hit and "X4" in findings and kind.startswith("gen-x:") and int(kind.split(":")[1]) in XGEN_X4:
            hit = ["X4"]
        # a witness IS the specific input that identifies its finding
        if not hit and kind.startswith("wit:") and "repaired" not in kind and kind.split(":")[1] in findings and kind.split(":")[1] in WITNESS_IDENTIFIED:
            hit = [kind.split(":")[1]]
        if not hit and kind.startswith("wit:") and kind.split(":")[1] in findings and "repaired" not in kind and kind.split(":")[1] == "F13w" and sched_tick_closure(rq['src']):
            hit = ["F13w"]
        if not hit and "F48" in findings and "%" in rq['src'] and a[0] == 'ok' and b[0] == 'ok' and len(a[2]) == len(b[2]) and \
           all(x == y or all(p in ("0000000000000000", "8000000000000000") and q in ("0000000000000000", "8000000000000000") for p, q in zip(x, y) if p != q)
               for x, y in zip(a[2], b[2])):
            hit = ["F48"]
        if hit:
            bump("shipped_diff_in_known_class_" + hit[0]); ck.known(findings[hit[0]], os.path.basename(f) + " " + kind)
        else:
            viol.append(("VM and WASM differ on a shipped/mutated source", rq['src'], {"file": f, "mutation": kind, "vm": str(a)[:300], "wasm": str(b)[:300], "n": nrun, "sched": True}))

    # ---------------- runtime-primitive part: the shared contract and its two implementations (Props/C01_prims.v, checks/prims_part.py) ----
    ck.known = _known
    pviol = prims_part.run_part(ck, quick)
    ck.known = known_and_note
    for what, rp in pviol[:6]:
        ck.violation(what, {k: v for k, v in rp.items() if k != "no_input"}, no_input=bool(rp.get("no_input")))
    stale = sorted(w["id"] for w in wits if "repaired" not in w and w["id"] in findings and w["id"] not in reproduced)
    for fid in stale:
        print(f"NOTE: property=C01 the witness of listed finding {fid} no longer shows the defect (repaired? then turn the line into `fixed:`)", flush=True)
    ck.coverage["findings_reproduced"] = sorted(reproduced)
    ck.coverage["findings_whose_witness_no_longer_fails"] = stale
    ck.coverage["evaluations"] = len(cases) + len(reqs)
    ck.coverage["distinct_nontrivial"] = len(distinct)
    ck.coverage["generated_programs"] = len(cases)
    ck.coverage["shipped_and_mutated_sources"] = len(reqs)
    ck.coverage["stats"] = stats
    ck.coverage["model_vs_impl_disagreements"] = len(disag)
    ck.sample({"source": pp_prog(cases[len(cases) // 2][0])})
    ck.sample({"shipped": meta[0][0], "mutation": meta[0][1]})
    if len(meta) > 3:
        ck.sample({"shipped": meta[3][0], "mutation": meta[3][1], "source_head": reqs[3]['src'][:200]})
    for what, src, det in viol[:5]:
        ck.violation(what, {"source": src, **det, "how": "echo '{\"src\":<source>,\"n\":N,\"sched\":true,\"path\":<file>}' | .cache/target/lang/debug/lmmm_run"})
    if disag and not viol and not pviol:
        ck.broken.append(disag[0][0])
        ck.violation(disag[0][0], {"source": disag[0][1]}, no_input=True)
    if not proved and not viol and not disag and not pviol:
        ck.violation("a proof obligation of Props/C01.v no longer checks", {"broken": ck.broken}, no_input=True)
    return finish(ck)


def finish(ck):
    ck.finish(
        explanation=("PARTIAL. Proved (Coq): for every wf program of the Lmmm fragment the VM-style and the WASM-style state machines (same "
                     "compiled code, two cursor/storage disciplines transcribed from vm.rs and wasm.rs) produce identical outputs, words, cursor and "
                     "trace for every run length; they can differ only when the cursor under/overflows or an access leaves the storage. NOT modelled: "
                     "bytecodegen.rs and wasmgen.rs (5 kLoC lowering), closures, arrays, heap, scheduler. For those the check is a search, not a proof: "
                     "direct bitwise VM-vs-WASM comparison (channels, samples with NaN folding, accept/reject) on generated core programs, on every "
                     "shipped .mmm source and on token-level mutations of them, with the scheduler plugin loaded."),
        trusted_base=["Coq 8.16.1 kernel", "extraction + ocaml/lmmm_drv.ml", "harness/lang lmmm_run + runner.rs (DspRuntime code path of both backends)",
                      "lib/lmmm.py generator / pretty-printer", "wasmtime executes generated modules faithfully"],
        rule=("generated Lmmm programs (three-way) + all shipped .mmm files + numeric-literal / operator mutations of them; "
              "distinct_nontrivial = distinct sources accepted by both backends whose outputs agreed on >= 1 sample"))
