"""C10 — macro expansion respects lexical scope across stages (hygiene).

P: theorems of coq/theories/Props/C10.v over Staging/Model.v: the property is refuted (C10_hygiene_refuted, finding F7);
   the restricted theorem C10_hygiene_fresh holds for all programs.
C: generated macro bodies binding a local around / next to a splice x use sites mentioning arbitrary names, each
   run before and after renaming (a) the binder inside the macro body, (b) a local binder at the use site:
   expanded ASTs of the real compiler vs the extracted model; outputs on the VM.
S: the property itself on the implementation's answers: renaming must not change the output.  A change is the known
   finding F7 when a name of the macro's quoted code coincides with a name at the use site (class predicate
   below), and then the model must show the same capture; any other change is a violation.  For non-colliding cases
   the real expansion of the renamed program must be the renamed real expansion (the instance of C10_hygiene_fresh).
"""
import importlib.util, json, os, re, sys
from vplib import *

_spec = importlib.util.spec_from_file_location("check_C09_shared", os.path.join(VERIF, "checks", "C09.py"))
c09 = importlib.util.module_from_spec(_spec)
_spec.loader.exec_module(c09)

OCAML = c09.OCAML
HARNESS = c09.HARNESS + [("lang", ["lmmm_run"], True)]

GLOBALS = {"gx": "3.0", "gv": "7.0"}
POOL = ["y", "t", "acc", "w", "gx", "gv", "q1", "m1"]
FRESH = "zz9"
PRELUDE = "fn sq(a){ a*a }\n" + "".join("let %s = %s\n" % kv for kv in GLOBALS.items())

IDENT = re.compile(r"[A-Za-z_][A-Za-z0-9_]*")
KEYWORDS = {"let", "fn", "if", "else", "sq", "dsp", "mac", "x", "x2", "stage", "macro", "main"}


def names_of(text):
    return set(IDENT.findall(text)) - KEYWORDS


def arg_expr(rng, names):
    """a numeric expression mentioning some of `names`"""
    k = rng.below(6)
    a = rng.choice(names) if names else "1.0"
    b = rng.choice(names + ["2.0", "0.5"])
    if k == 0:
        return a
    if k == 1:
        return "(%s + %s)" % (a, b)
    if k == 2:
        return "(%s * 2.0)" % a
    if k == 3:
        return "sq(%s)" % a
    if k == 4:
        return "(%s - %s)" % (b, a)
    return "(if (%s > 1.0) { %s } else { 0.25 })" % (a, b)


MACRO_TEMPLATES = [
    # (name, body with {B} binder, {B2} second binder, {G} a free global of the quotation)
    ("let-around-splice", "`{ let {B} = 1.0\n $x + {B} }"),
    ("let-value-is-splice", "`{ let {B} = $x * 2.0\n {B} + 0.5 }"),
    ("lambda-around-splice", "`{ (|{B}| {B} + $x)(4.0) }"),
    ("block-next-to-splice", "`{ { let {B} = 5.0\n {B} * 2.0 } + $x }"),
    ("tuple-pattern", "`{ let ({B}, {B2}) = (1.0, 2.0)\n ($x + {B}) * {B2} }"),
    ("nested-tuple-pattern", "`{ let (({B}, {B2}), k9) = ((1.0, 2.0), 3.0)\n ($x + {B}) * {B2} + k9 }"),
    # two nested tuples on one level, the first with two nested tuples of its own: the desugaring temporaries of the inner level are live
    # together with a pending one of the outer level (response to seeded change C10c)
    ("deep-tuple-pattern", "`{ let ((({B}, k1), (k2, k3)), (k4, {B2})) = (((1.0, 2.0), (3.0, 4.0)), (5.0, 6.0))\n ((($x + {B}) * 10.0 + k3) * 10.0 + {B2}) * 10.0 + k4 + k1 * k2 }"),
    ("two-lets", "`{ let {B} = 1.0\n let {B2} = {B} + $x\n {B2} * {B} }"),
    ("free-global", "`{ let {B} = {G}\n $x + {B} * {G} }"),
    ("let-in-lambda-body", "`{ (|p9| { let {B} = p9\n {B} + $x })(6.0) }"),
]


def gen_case(rng):
    r = rng
    tname, body = r.choice(MACRO_TEMPLATES)
    kind = r.choice(["rename-macro-binder", "rename-macro-binder", "rename-use-site-binder"])
    B = r.choice(POOL)
    B2 = r.choice([n for n in POOL if n != B])
    G = r.choice(list(GLOBALS))
    # use site: one or two locals, argument over locals and globals
    L = r.choice(POOL)
    locals_ = [L]
    avail = locals_ + list(GLOBALS)
    if r.chance(1, 3):
        # deliberately collide / deliberately avoid
        A = arg_expr(r, [B] if B in avail else avail)
    else:
        A = arg_expr(r, avail)
    macro = body.replace("{B2}", B2).replace("{B}", B).replace("{G}", G)
    use_lets = "let %s = 100.0\n " % L
    src = lambda mac, lets, arg: (PRELUDE + "#stage(macro)\nfn mac(x){ " + mac + " }\n#stage(main)\nfn dsp(){ " + lets + "mac!(`(" + arg + ")) }\n")
    original = src(macro, use_lets, A)
    if kind == "rename-macro-binder":
        renamed_macro = body.replace("{B2}", B2).replace("{B}", FRESH).replace("{G}", G)
        if B2 == B:
            renamed_macro = body.replace("{B2}", FRESH).replace("{B}", FRESH).replace("{G}", G)
        renamed = src(renamed_macro, use_lets, A)
        macro_names = names_of(macro.replace("$x", ""))
        use_names = names_of(A) | {L}
        # F7 class predicate (direction 1): the quoted binder occurs free in the spliced code / at the use site ...
        collides = (B in use_names)
        # ... or it shadows a global the quotation itself refers to only through the splice; also a renamed binder that
        # coincides with a free global of the same quotation is the author's own business (not a use-site coincidence):
        # renaming it legitimately changes the meaning, so such cases are not hygiene evidence at all
        own = (B == G and "{G}" in body)
        rn = (B, FRESH)
    else:
        # rename the local binder L at the use site (and its uses in the argument)
        ren = lambda t: re.sub(r"\b%s\b" % re.escape(L), FRESH, t)
        renamed = src(macro, "let %s = 100.0\n " % FRESH, ren(A))
        macro_names = names_of(macro.replace("$x", ""))
        # direction 2: a name the macro's quotation uses (free or bound) is rebound at the use site
        collides = (L in macro_names)
        own = False
        rn = (L, FRESH)
    return {"template": tname, "kind": kind, "original": original, "renamed": renamed, "collides": collides, "own": own,
            "rn": rn, "B": B, "B2": B2, "G": G, "L": L, "arg": A}



# ---------------------------------------------------------------------------------------------------------------------
# hygiene with respect to IMPORTED / MODULE-LEVEL names (response to seeded change C10b): a binder of quoted code whose name is also a
# function visible through `use m::f`, `use m::*` or as a sibling item of the macro's module; the binder is used directly, from a quote
# nested in an escape, or from a macro call inside the quote.  The spliced argument is a literal, so finding F7 does not apply.
# Each case = one program template instantiated with the clashing binder name and with a fresh one: same output required.
def gen_import_case(rng):
    clash = rng.choice(["gain", "amp0", "mix", "scale"])
    imp = rng.choice(["alias", "wild", "sibling"])
    binder = rng.choice(["let", "lambda", "tuple"])
    use = rng.choice(["direct", "nested-escape", "macro-call", "nested-twice"])
    k = rng.choice(["0.5", "2.0", "0.25", "3.0"])
    arg = rng.choice(["3.0", "1.5", "4.0"])
    def body(B):
        if use == "direct":
            inner = "$e * %s" % B
        elif use == "nested-escape":
            inner = "$(twice(`{ $e * %s }))" % B
        elif use == "macro-call":
            inner = "twice!(`{ $e * %s })" % B
        else:
            inner = "$(twice(`{ $(twice(`{ $e + %s })) * %s }))" % (B, B)
        if binder == "let":
            return "`{\n        let %s = %s\n        %s\n    }" % (B, k, inner), "amp!(`%s)" % arg
        if binder == "tuple":
            return "`{\n        let (%s, other_) = (%s, 1.0)\n        %s + other_\n    }" % (B, k, inner), "amp!(`%s)" % arg
        return "`{|%s| %s }" % (B, inner), "amp!(`%s)(%s)" % (arg, k)
    def prog(B):
        q, call = body(B)
        if imp == "sibling":
            return ("mod fx {\n    pub fn %s(x){ x * 100.0 }\n    #stage(macro)\n    pub fn twice(c){ `{ $c + $c } }\n    pub fn amp(e){\n    %s\n    }\n}\n"
                    "fn dsp(){\n    fx::%s + fx::%s(1.0)\n}\n" % (clash, q, call, clash))
        head = "mod util {\n    pub fn %s(x){ x * 100.0 }\n}\n%s\n" % (clash, "use util::%s" % clash if imp == "alias" else "use util::*")
        return (head + "#stage(macro)\nfn twice(c){\n    `{ $c + $c }\n}\nfn amp(e){\n    %s\n}\n#stage(main)\nfn dsp(){\n    %s + %s(1.0)\n}\n"
                % (q, call, clash))
    return {"clashing": prog(clash), "renamed": prog("bq_%d" % rng.below(100)), "desc": "%s/%s/%s binder named %s" % (imp, binder, use, clash)}

def rename_sexpr(s, a, b):
    return s.replace('"%s"' % a, '"%s"' % b)


def canon_temps(s):
    """desugar temporaries __dtN numbered by first occurrence (the counter is process-global in the compiler)"""
    seen = {}
    def rep(m):
        return "__dt#%d" % seen.setdefault(m.group(1), len(seen))
    return re.sub(r"__dt(\d+)", rep, s)


def dsp_body_program(st1):
    """from the expanded program (let ... (let dsp (lam () rt body) (tuple))) build `lets...; body` so that the model's
    evaluator can run one call of dsp; None when the shape is different"""
    t = c09.parse(st1)
    lets = []
    while isinstance(t, list) and t and t[0] == "let":
        pat, ty, val, body = t[1], t[2], t[3], t[4]
        if pat == ["p1", c09.Q("dsp")] and isinstance(val, list) and val[0] == "lam" and val[1] == []:
            prog = val[3]
            for (p, ty2, v) in reversed(lets):
                prog = ["let", p, ty2, v, prog]
            return c09.show(prog)
        lets.append((pat, ty, val))
        t = body
    return None


def run(ck):
    ck.level = "proof"
    proved = ck.prove(tables=["combinators"], extra_targets=["theories/Extract/StagingExtract.vo"])
    exe_m, exe_i = c09.build_all(ck)
    if exe_i is None:
        return finish(ck)
    findings = {f["cls"]: f for f in known_findings("C10")}
    F7 = findings.get("quoted-name-coincides-with-use-site")
    n_cases = 400 if ck.tier == "quick" else 15000
    rng = ck.rng.fork("hygiene")
    cases = []
    # the witness of DESIGN.md first
    cases.append({"template": "witness", "kind": "rename-macro-binder", "collides": True, "own": False, "rn": ("y", "z"),
                  "original": "#stage(macro)\nfn addy(x){ `{ let y = 1.0\n $x + y } }\n#stage(main)\nlet y = 100.0\nfn dsp(){ addy!(`y) }\n",
                  "renamed": "#stage(macro)\nfn addy(x){ `{ let z = 1.0\n $x + z } }\n#stage(main)\nlet y = 100.0\nfn dsp(){ addy!(`y) }\n",
                  "expect": ("4000000000000000", "4059400000000000")})
    cdir = os.path.join(VERIF, "corpus", "C10")
    if os.path.isdir(cdir):
        for fn in sorted(os.listdir(cdir)):
            if fn.endswith(".json"):
                cases.append(json.load(open(os.path.join(cdir, fn))))
    if ck.replay:
        rp = json.load(open(ck.replay)).get("replay", {})
        if "original" in rp and "renamed" in rp:
            cases.insert(0, {"template": "replay", "kind": rp.get("kind", "?"), "collides": bool(rp.get("collides")), "own": False,
                             "rn": tuple(rp.get("rn", ["?", "?"])), "original": rp["original"], "renamed": rp["renamed"]})
    for _ in range(n_cases):
        cases.append(gen_case(rng))
    reqs = []
    for c in cases:
        reqs.append({"m": "src", "src": c["original"], "times": 2, "expand": True})
        reqs.append({"m": "src", "src": c["renamed"], "times": 2, "expand": True})
    rc, ans = c09.run_json(exe_i, reqs)
    if len(ans) < len(reqs):
        ck.violation("implementation harness crashed", {"answered": len(ans), "cases": len(reqs),
                     "next_input": reqs[len(ans)] if len(ans) < len(reqs) else None}, no_input=True)
        return finish(ck)
    # model: expansion of both programs, and one call of dsp on the expansions
    mlines, mmap = [], []
    for i, a in enumerate(ans):
        if "in" in a and exe_m:
            mmap.append(i)
            mlines.append("X\t%d\t%d\t%s" % (256, c09.temp_base(a.get("st0", ""), a["in"]), a["in"]))
    mres = {}
    if exe_m and mlines:
        rc_m, mo = c09.run_model(exe_m, mlines)
        for j, i in enumerate(mmap):
            if j < len(mo):
                mres[i] = mo[j].split("\t")
    vlines, vmap = [], []
    for i in mres:
        m = mres[i]
        if len(m) > 1 and not m[1].startswith("ERR"):
            p = dsp_body_program(m[1])
            if p:
                vmap.append(i)
                vlines.append("V\t64\t%s" % p)
    mval = {}
    if exe_m and vlines:
        rc_v, vo = c09.run_model(exe_m, vlines)
        for j, i in enumerate(vmap):
            if j < len(vo):
                mval[i] = vo[j]

    disagreements, prop_fail = [], []
    stats = {"invariant": 0, "changed_known_F7": 0, "changed_own_name": 0, "not_runnable": 0, "commutation_checked": 0,
             "model_capture_reproduced": 0, "colliding": 0, "non_colliding": 0}
    tcount = {}
    nontrivial = 0
    for ci, c in enumerate(cases):
        a, b = ans[2 * ci], ans[2 * ci + 1]
        tcount[c["template"] + "/" + c["kind"]] = tcount.get(c["template"] + "/" + c["kind"], 0) + 1
        replay = {"template": c["template"], "kind": c["kind"], "original": c["original"], "renamed": c["renamed"], "rn": list(c["rn"]),
                  "collides": c["collides"],
                  "implementation": {"original": {k: a.get(k) for k in ("vm", "vm_err", "st1", "expand_err")},
                                     "renamed": {k: b.get(k) for k in ("vm", "vm_err", "st1", "expand_err")}},
                  "how": "echo '{\"m\":\"src\",\"src\":<source>,\"times\":2}' | .cache/target/lang/debug/staging_run"}
        # model == implementation on the expansions
        for i, x in ((2 * ci, a), (2 * ci + 1, b)):
            if i in mres:
                m = mres[i]
                if m[0] != x.get("st0"):
                    disagreements.append(("translate output differs", dict(replay, model_st0=m[0][:1500])))
                elif len(m) > 1 and not m[1].startswith("ERR") and m[1] != x.get("st1"):
                    disagreements.append(("expanded code differs", dict(replay, model_st1=m[1][:1500])))
        if c.get("own"):
            stats["changed_own_name"] += 1
            continue
        if "vm" not in a or "vm" not in b:
            if ("vm" in a) != ("vm" in b) and not c["collides"]:
                prop_fail.append(("renaming a binder makes the program " + ("fail" if "vm" in a else "compile") + " (no name coincidence)", replay))
            else:
                stats["not_runnable"] += 1
            continue
        nontrivial += 1
        stats["colliding" if c["collides"] else "non_colliding"] += 1
        if "expect" in c and (a["vm"][0], b["vm"][0]) != c["expect"]:
            prop_fail.append(("the capture witness no longer produces %s / %s" % c["expect"], replay))
        if a["vm"] == b["vm"]:
            stats["invariant"] += 1
        else:
            if c["collides"] and F7:
                stats["changed_known_F7"] += 1
                ck.known(F7, "%s -> %s after renaming %s to %s in: %s" % (a["vm"][0], b["vm"][0], c["rn"][0], c["rn"][1],
                                                                        c["original"].split("#stage(macro)")[-1].replace("\n", " ")[:200]))
                # the model must show the same capture
                va, vb = mval.get(2 * ci), mval.get(2 * ci + 1)
                if va and vb and va.startswith("num:") and vb.startswith("num:"):
                    if (va[4:], vb[4:]) == (a["vm"][0], b["vm"][0]):
                        stats["model_capture_reproduced"] += 1
                    else:
                        disagreements.append(("the model evaluates the captured expansion differently", dict(replay, model_values=[va, vb])))
            else:
                prop_fail.append(("renaming a binder changes the output although no name of the macro's quoted code occurs at the use site", replay))
        # C10_hygiene_fresh on the implementation's expansions (non-colliding, macro binder renamed)
        # (hypothesis `fixes rn (names0 U)`: the renamed name occurs nowhere outside the macro body, prelude included)
        if (not c["collides"] and c["kind"] == "rename-macro-binder" and a.get("st1") and b.get("st1")
                and c["rn"][0] not in GLOBALS and c["rn"][0] not in KEYWORDS):
            stats["commutation_checked"] += 1
            if canon_temps(rename_sexpr(a["st1"], c["rn"][0], c["rn"][1])) != canon_temps(b["st1"]):
                prop_fail.append(("the expansion of the renamed macro is not the renamed expansion (C10_hygiene_fresh instance)", replay))
    ck.coverage.update(stats)
    ck.coverage["cases"] = len(cases)
    ck.coverage["templates"] = tcount
    ck.coverage["evaluations"] = len(reqs)
    ck.coverage["distinct_nontrivial"] = nontrivial
    ck.coverage["exhaustive"] = False
    ck.coverage["model_vs_impl_disagreements"] = len(disagreements)
    ck.coverage["first_disagreements"] = [(w, r.get("template"), r.get("original", "")[-200:], str(r.get("model_values", ""))[:200]) for w, r in disagreements[:12]]
    ck.sample({"original": cases[0]["original"], "renamed": cases[0]["renamed"], "vm": [ans[0].get("vm"), ans[1].get("vm")]})
    if len(cases) > 3:
        ck.sample({"original": cases[3]["original"], "renamed": cases[3]["renamed"], "vm": [ans[6].get("vm"), ans[7].get("vm")], "collides": cases[3]["collides"]})

    # ---- imported / module-level names (implementation only, both backends) ----
    import lmmm as _lm
    rc_, out_, bindir_ = cargo_build("lang", ["lmmm_run"])
    icases = [gen_import_case(ck.rng.fork(("import-hygiene", i))) for i in range(120 if ck.tier == "quick" else 1500)]
    if rc_ == 0:
        ires = _lm.run_impl(os.path.join(bindir_, "lmmm_run"),
                            [{"src": c[k], "n": 2, "state": False} for c in icases for k in ("clashing", "renamed")])
        ist = {"import_cases": len(icases), "import_same": 0, "import_rejected_both": 0}
        for ci, c in enumerate(icases):
            ra, rb = ires[2 * ci], ires[2 * ci + 1]
            def summ(r):
                if 'crash' in r: return ('crash',)
                return tuple((be, tuple(tuple(x.get('out', ['P'])) for x in r[be]['samples']) if 'samples' in r.get(be, {}) else 'reject') for be in ("vm", "wasm"))
            sa, sb = summ(ra), summ(rb)
            if sa == sb:
                if all(v == 'reject' for _, v in sa if sa != ('crash',)):
                    ist["import_rejected_both"] += 1
                else:
                    ist["import_same"] += 1
                continue
            prop_fail.append(("renaming a binder of quoted code whose name is also an imported / module-level function changes the result (%s)" % c["desc"],
                              {"original": c["clashing"], "renamed": c["renamed"], "kind": "rename-macro-binder-imported-name",
                               "clashing_result": str(sa)[:300], "renamed_result": str(sb)[:300]}))
        ck.coverage.update(ist)
    for what, rp in prop_fail[:5]:
        ck.violation(what, rp)
    if disagreements and not prop_fail:
        what, rp = disagreements[0]
        ck.broken.append("correspondence Staging.Model vs translate_staging/codegen_combinators: " + what)
        rp = dict(rp)
        rp["disagreements"] = len(disagreements)
        ck.violation("model and implementation disagree: " + what, rp)
    if not proved and not prop_fail and not disagreements:
        ck.violation("a proof obligation of Props/C10.v no longer checks", {"broken": ck.broken}, no_input=True)
    return finish(ck)


def finish(ck):
    ck.finish(
        explanation=("Props/C10.v: the hygiene property is refuted in Coq by the capture witness (addy / `y: 2.0 vs 101.0, replayed on the real "
                     "compiler at every run) and the restricted theorem C10_hygiene_fresh is proved for ALL programs, renamings, environments and "
                     "fuel over the Gallina transcription of translate_staging.rs + codegen_combinators.rs: when neither the use site nor the spliced "
                     "code values mention a renamed name, the implementation expands the renamed macro to the renamed expansion. The model is tied to "
                     "/repo as in C09 (tables regenerated from source; expanded ASTs of model and real compiler compared on every case). The property "
                     "itself (renaming a binder does not change the output) is evaluated on generated macro bodies x use sites on the VM; changes are "
                     "accepted only inside the class of finding F7 and must be reproduced by the model."),
        trusted_base=["Coq 8.16.1 kernel (coqc, vm_compute; no native_compute)",
                      "extraction: ExtrOcamlBasic + ExtrOcamlString only; OCaml 4.13.1; ocaml/staging_drv.ml",
                      "translators/combinators.py; harness/lang/src/bin/staging_run.rs (see C09)",
                      "alpha-equivalence of a program and its renaming by a fresh name is the standard fact, not mechanised: C10_hygiene_fresh "
                      "states the commutation of expansion with renaming; the output comparison of the check covers the meaning",
                      "python-side class predicate of F7 (name sets of the macro's quotation and of the use site)"],
        rule=("10 macro-body templates (binder around / next to the splice, lambda, tuple and nested tuple patterns, free global) x binder and use-site "
              "names drawn from a pool of 8 (one third forced to collide) x argument expressions; each case run before and after renaming the macro "
              "binder or the use-site binder to a fresh name; non-trivial = both versions compile and run; distinct = distinct program pairs"))
