"""C11 — scheduled tasks run exactly once at exactly their sample time.

P: theorems of coq/theories/Props/C11.v over Sched/Model.v (any number of tasks, any rescheduling chains, any
   order among equal-time tasks): exactly-once on the VM machine and on the WASM machine, backends agree.
C: generated task sets -> (a) abstract description run by the extracted model (ocaml/sched_drv.ml),
   (b) mimium source whose tasks add their own digit to global counters that dsp exposes and clears, run on the
   real VM (ExecContext + LocalBufferDriver) and the real WASM runtime (WasmDspRuntime) by harness bin sched_run;
   per-sample counter vectors (and panic sample for premise-violating inputs) are compared.
S: the property itself is evaluated on the implementation's output by an independent python oracle
   (decode per-sample execution counts, replay the ideal schedule), so a failing input is reported without the model.
"""
import json, os, struct, subprocess, sys, time
from concurrent.futures import ThreadPoolExecutor
from vplib import *

U64_MAX = (1 << 64) - 1
COUNTER_BITS = 50
MAX_COUNTERS = 8
F13_CLASS = "wasm-tick-allocated-closure"


# --------------------------------------------------------------------------------------
# abstract task sets
#   case = {"N": samples, "clos": [{"form": "fn"|"closure", "rules": [[dq, target, "direct"|"lambda"], ...]}, ...],
#           "init": [[q|None, c], ...], "dsp": {"<t>": [[dq, c, "direct"|"lambda"], ...]}}
#   times are in quarter samples; rule (dq, c'): when the closure runs at `now`, schedule c' at now + dq/4.
#   A closure may only name itself or a closure with a smaller index (mimium needs definitions before use).
# --------------------------------------------------------------------------------------
def trunc(q):
    """Rust `f64 as u64` of q/4 (None = NaN)"""
    if q is None or q < 0:
        return 0
    return min(q // 4, U64_MAX)


def ideal(case, stop_on_violation=True):
    """The property, operationally: every scheduled task instance runs once in the sample equal to its truncated
    time. Returns (per-sample {closure: count}, pending multiset {(when, closure): count}, premise_ok)."""
    pend = {}  # when -> {closure: count}
    ok = True

    def add(now, q, c, k=1):
        nonlocal ok
        w = trunc(q)
        if w <= now:
            ok = False
        b = pend.setdefault(w, {})
        b[c] = b.get(c, 0) + k

    for q, c in case["init"]:
        add(0, q, c)
    ticks = []
    clos, dsp = case["clos"], case["dsp"]
    for t in range(case["N"]):
        due = pend.pop(t, {})
        ticks.append(due)
        for c in sorted(due):
            k = due[c]
            for r in clos[c]["rules"]:
                add(t, 4 * t + r[0], r[1], k)
        for r in dsp.get(str(t), ()):
            add(t, 4 * t + r[0], r[1])
    flat = {(w, c): k for w, b in pend.items() for c, k in b.items()}
    return ticks, flat, ok


def premise_ok(case):
    """static form of the premise used by the theorems (C11_table_behaviours_respect_future): every delay >= one
    whole sample, every global-scope time >= 1"""
    for q, c in case["init"]:
        if trunc(q) < 1:
            return False
    for cl in case["clos"]:
        for r in cl["rules"]:
            if r[0] < 4:
                return False
    for t, rs in case["dsp"].items():
        for r in rs:
            if r[0] < 4:
                return False
    return True


def in_f13_class(case):
    """class predicate of finding F13: some closure value that is created while a sample is being processed
    (a top-level function used as a value, or a lambda, inside a task body or inside dsp) is handed to `@`.
    On the WASM backend that closure cell lives in linear memory that `_mimium_exec_closure_void` / dsp / run_dsp
    release again (bump pointer restored) before the task is due."""
    def fresh(r):
        return r[2] == "lambda" or case["clos"][r[1]]["form"] == "fn"
    for i, cl in enumerate(case["clos"]):
        for r in cl["rules"]:
            if fresh(r) and not (r[1] == i and cl["form"] == "closure" and r[2] == "direct"):
                return True
    for t, rs in case["dsp"].items():
        for r in rs:
            if fresh(r):
                return True
    return False


def assign_digits(case, counts_hint):
    """give every closure its own bit field in one of the counters: width fits the largest per-sample count + headroom"""
    n = len(case["clos"])
    mx = [0] * n
    for due in counts_hint:
        for c, k in due.items():
            mx[c] = max(mx[c], k)
    fields = []
    counter, pos = 0, 0
    for c in range(n):
        width = max(2, (mx[c] + 2).bit_length())
        if pos + width > COUNTER_BITS:
            counter, pos = counter + 1, 0
        fields.append((counter, pos, width))
        pos += width
    return fields, counter + 1


def fnum(q):
    """quarter-sample count -> exact decimal literal"""
    s = "-" if q < 0 else ""
    q = abs(q)
    return f"{s}{q // 4}.{('00', '25', '5', '75')[q % 4]}".replace(".00", ".0")


def time_expr(dq):
    return f"(now+{fnum(dq)})" if dq >= 0 else f"(now-{fnum(-dq)})"


def render(case, fields, K):
    clos = case["clos"]
    name = lambda c: ("t%d" if clos[c]["form"] == "fn" else "k%d") % c
    out = [f"let c{i} = 0.0" for i in range(K)]

    def sched(r, self_idx=None, self_name=None):
        tgt = self_name if (self_idx is not None and r[1] == self_idx and self_name) else name(r[1])
        if r[2] == "lambda":
            return f"| |{{ {tgt}() }}@{time_expr(r[0])}"
        return f"{tgt}@{time_expr(r[0])}"

    for c, cl in enumerate(clos):
        ctr, pos, width = fields[c]
        add = f"c{ctr} = c{ctr} + {float(1 << pos)!r}"
        if cl["form"] == "fn":
            out.append(f"fn t{c}(){{")
            out.append(f"  {add}")
            for r in cl["rules"]:
                out.append("  " + sched(r))
            out.append("}")
        else:
            out.append(f"fn mk{c}(){{")
            out.append("  letrec g = | |{")
            out.append(f"    {add}")
            for r in cl["rules"]:
                out.append("    " + sched(r, c, "g"))
            out.append("  }")
            out.append("  g")
            out.append("}")
            out.append(f"let k{c} = mk{c}()")
    for q, c in case["init"]:
        out.append(f"{name(c)}@{'(0.0/0.0)' if q is None else fnum(q)}")
    for t in sorted(case["dsp"], key=int):
        out.append(f"fn d{t}(){{")
        for r in case["dsp"][t]:
            out.append("  " + sched(r))
        out.append("  0.0")
        out.append("}")
    out.append("fn dsp(){")
    for i in range(K):
        out.append(f"  let a{i} = c{i}")
        out.append(f"  c{i} = 0.0")
    for t in sorted(case["dsp"], key=int):
        out.append(f"  let u{t} = if (now == {int(t)}.0) {{ d{t}() }} else {{ 0.0 }}")
    out.append("  a0" if K == 1 else "  (" + ",".join(f"a{i}" for i in range(K)) + ")")
    out.append("}")
    return "\n".join(out) + "\n"


def pure_fn(case):
    """every closure argument of every `@` is a top-level function used as a value (sub-class of F13 in which
    Sched/WasmAlloc.v predicts what the WASM runtime really runs)"""
    return (all(cl["form"] == "fn" and all(r[2] == "direct" for r in cl["rules"]) for cl in case["clos"])
            and not case["dsp"] and all(q is not None for q, c in case["init"]))


def model_line(case, sel, alloc=False):
    parts = [f"T {case['N']}", f"S {sel}"] + (["A"] if alloc else [])
    if case["init"]:
        parts.append("I " + " ".join(f"{'nan' if q is None else q}:{c}" for q, c in case["init"]))
    for c, cl in enumerate(case["clos"]):
        if cl["rules"]:
            parts.append(f"B {c} " + " ".join(f"{r[0]}:{r[1]}" for r in cl["rules"]))
    for t in sorted(case["dsp"], key=int):
        parts.append(f"D {t} " + " ".join(f"{r[0]}:{r[1]}" for r in case["dsp"][t]))
    return " ; ".join(parts) + " ;"


def parse_model(ans):
    """'vm ok e0/e1/.. pend ..| wasm ...' -> {'vm': (status, at, [ {c:count} per sample ]), 'wasm': ...}"""
    res = {}
    for part in ans.split(" | "):
        toks = part.split(" ")
        be, st = toks[0], toks[1]
        if be.startswith("alloc"):
            res[be] = (st, toks[2] if len(toks) > 2 else "")
            continue
        if st == "ok":
            ex, at = toks[2], None
        elif st == "panic":
            at, ex = int(toks[2]), (toks[3] if len(toks) > 3 else "")
        else:
            res[be] = (st, None, [])
            continue
        ticks = []
        for e in ex.split("/")[:-1] if ex else []:
            d = {}
            for x in e.split(","):
                if x:
                    d[int(x)] = d.get(int(x), 0) + 1
            ticks.append(d)
        res[be] = (st, at, ticks)
    return res


def counters_of(due, fields, K):
    v = [0] * K
    for c, k in due.items():
        ctr, pos, width = fields[c]
        v[ctr] += k << pos
    return v


def decode(vals, fields):
    """per-sample counter values (floats) -> {closure: count}; None when a value is not a non-negative integer"""
    ints = []
    for x in vals:
        if x != x or x < 0 or x != int(x) or x >= 2.0 ** 53:
            return None
        ints.append(int(x))
    d = {}
    for c, (ctr, pos, width) in enumerate(fields):
        if ctr < len(ints):
            k = (ints[ctr] >> pos) & ((1 << width) - 1)
            if k:
                d[c] = k
    return d


def fdec(h):
    return float("nan") if h == "NaN" else struct.unpack(">d", bytes.fromhex(h))[0]


def property_on_output(case, fields, out_vals):
    """Evaluate C11 directly on what an implementation produced (premise-respecting cases only).
    Returns None when the property holds on all produced samples, else a description of the first failure."""
    pend = {}  # when -> {closure: count}

    def add(w, c, k):
        b = pend.setdefault(w, {})
        b[c] = b.get(c, 0) + k

    for q, c in case["init"]:
        add(trunc(q), c, 1)
    clos, dsp = case["clos"], case["dsp"]
    for t, vals in enumerate(out_vals):
        got = decode(vals, fields)
        if got is None:
            return f"sample {t}: counters {vals} are not sums of task digits"
        want = pend.pop(t, {})
        if got != want:
            for c in sorted(set(got) | set(want)):
                g, w = got.get(c, 0), want.get(c, 0)
                if g < w:
                    return f"sample {t}: task of closure {c} scheduled for sample {t} ran {g} time(s) instead of {w} (dropped or late)"
                if g > w:
                    return f"sample {t}: closure {c} ran {g} time(s) but only {w} instance(s) were scheduled for sample {t} (early, late or duplicated)"
        for c in sorted(want):
            for r in clos[c]["rules"]:
                add(trunc(4 * t + r[0]), r[1], want[c])
        for r in dsp.get(str(t), ()):
            add(trunc(4 * t + r[0]), r[1], 1)
    return None


# --------------------------------------------------------------------------------------
# generators
# --------------------------------------------------------------------------------------
def pick_form(rng, mode):
    if mode == "closure":
        return "closure"
    if mode in ("fn", "fnpure"):
        return "fn"
    return rng.choice(["fn", "closure"])


def rand_delay(rng, maxp=7):
    return 4 * rng.range(1, maxp) + rng.choice([0, 0, 0, 1, 2, 3])


def how(rng, mode):
    return "lambda" if (mode not in ("closure", "fnpure") and rng.chance(1, 5)) else "direct"


def gen_oneshots(rng, mode, N):
    ncl = rng.range(1, 50)
    clos = [{"form": pick_form(rng, mode), "rules": []} for _ in range(ncl)]
    ntask = rng.choice([1, 2, 5, 20, 60, 120, 200, 300, 600, 1200])   # bursts beyond any small fixed queue capacity (seeded C11c: 256)
    ntimes = rng.choice([1, 2, 3, 8, N])
    times = [rng.range(4, 4 * N + 3) for _ in range(ntimes)]
    init = [[rng.choice(times), rng.below(ncl)] for _ in range(ntask)]
    return {"N": N, "clos": clos, "init": init, "dsp": {}}


def gen_chains(rng, mode, N):
    ncl = rng.range(1, 12 if mode == "fnpure" else 30)
    clos = []
    for c in range(ncl):
        clos.append({"form": pick_form(rng, mode), "rules": [[rand_delay(rng), c, how(rng, mode)]]})
    init = []
    for c in range(ncl):
        for _ in range(rng.choice([1, 1, 1, 2])):
            init.append([rng.range(4, 4 * 8 + 3), c])
    for i in range(len(init) - 1, 0, -1):
        j = rng.below(i + 1)
        init[i], init[j] = init[j], init[i]
    return {"N": N, "clos": clos, "init": init, "dsp": {}}


def gen_spawn(rng, mode, N):
    ncl = rng.range(2, 12 if mode == "fnpure" else 40)
    clos = []
    for c in range(ncl):
        rules = []
        if rng.chance(1, 3):
            rules.append([rand_delay(rng), c, how(rng, mode)])
        for _ in range(rng.choice([0, 0, 1, 1, 2, 3])):
            if c > 0:
                rules.append([rand_delay(rng, 4), rng.below(c), how(rng, mode)])
        clos.append({"form": pick_form(rng, mode), "rules": rules})
    init = [[rng.range(4, 4 * 6), rng.range(ncl // 2, ncl - 1)] for _ in range(rng.range(1, 6))]
    return {"N": N, "clos": clos, "init": init, "dsp": {}}


def gen_dsp(rng, mode, N):
    case = rng.choice([gen_oneshots, gen_chains, gen_spawn])(rng, mode, N)
    ncl = len(case["clos"])
    if rng.chance(1, 3):
        case["init"] = case["init"][: rng.below(3)]
    for _ in range(rng.range(1, 6)):
        t = str(rng.below(N))
        case["dsp"].setdefault(t, [])
        for _ in range(rng.range(1, 3)):
            case["dsp"][t].append([rand_delay(rng, 5), rng.below(ncl), how(rng, mode)])
    return case


def gen_sparse_fn(rng, mode, N):
    """few top-level-function chains / spawns, so that often at most one task is due per sample"""
    ncl = rng.range(2, 4)
    clos = []
    for c in range(ncl):
        rules = [[4 * rng.range(2, 7) + rng.below(4), c, "direct"]] if rng.chance(3, 4) else []
        if c > 0 and rng.chance(1, 3):
            rules.append([4 * rng.range(1, 5), rng.below(c), "direct"])
        clos.append({"form": "fn", "rules": rules})
    init = [[4 * (1 + 2 * c) + rng.below(8), c] for c in range(ncl)]
    return {"N": N, "clos": clos, "init": init, "dsp": {}}


def tame(case, rng):
    """keep the total work bounded: drop rules until the ideal run has <= 4000 executions and counts <= 40"""
    for _ in range(60):
        ticks, pend, ok = ideal(case)
        tot = sum(sum(d.values()) for d in ticks)
        mx = max([max(d.values()) for d in ticks if d] + [0])
        if tot <= 4000 and mx <= 40 and sum(pend.values()) <= 4000:
            return case
        cands = [c for c, cl in enumerate(case["clos"]) if cl["rules"]]
        if not cands:
            case["init"] = case["init"][: len(case["init"]) // 2]
            continue
        c = rng.choice(cands)
        case["clos"][c]["rules"].pop(rng.below(len(case["clos"][c]["rules"])))
    return case


def break_premise(case, rng):
    """malformed stream: make exactly one call ask for a sample that is not later than the current one"""
    kind = rng.below(4)
    bad = rng.choice([0, 1, 2, 3, -1, -8])
    if kind == 0 or not any(cl["rules"] for cl in case["clos"]):
        if kind == 0 or not case["dsp"]:
            q = rng.choice([0, 1, 2, 3, -4, None])
            case["init"].insert(rng.below(len(case["init"]) + 1), [q, rng.below(len(case["clos"]))])
            return case
    if kind == 1 and case["dsp"]:
        t = rng.choice(sorted(case["dsp"]))
        case["dsp"][t][rng.below(len(case["dsp"][t]))][0] = bad
        return case
    if kind == 2:
        t = str(rng.below(case["N"]))
        case["dsp"].setdefault(t, []).append([bad, rng.below(len(case["clos"])), "direct"])
        return case
    cands = [c for c, cl in enumerate(case["clos"]) if cl["rules"]]
    if cands:
        c = rng.choice(cands)
        case["clos"][c]["rules"][rng.below(len(case["clos"][c]["rules"]))][0] = bad
    else:
        case["init"].append([rng.choice([0, 2, None]), rng.below(len(case["clos"]))])
    return case


# --------------------------------------------------------------------------------------
FIXTURES = [  # repo fixtures with the expectations of crates/lib/mimium-test/tests/scheduler_test.rs
    ("scheduler_global_recursion.mmm", 10, [0, 1, 2, 3, 4, 5, 6, 7, 8, 9]),
    ("scheduler_multiple_at_sametime.mmm", 5, [0, 2, 4, 6, 8]),
    ("scheduler_counter.mmm", 10, [0, 1, 2, 3, 4, 5, 6, 7, 8, 9]),
    ("scheduler_counter_indirect.mmm", 10, [0, 1, 2, 3, 4, 5, 6, 7, 8, 9]),
    ("scheduler_reactive.mmm", 10, [0, 1, 1, 1, 2, 2, 2, 3, 3, 3]),
    ("scheduler_reactive_interval1.mmm", 10, [0, 1, 2, 3, 4, 5, 6, 7, 8, 9]),
]


def run_sharded(exe, lines, shards, timeout):
    """run the line-protocol harness over `lines` in `shards` parallel processes; returns answers in order"""
    shards = max(1, min(shards, len(lines)))
    chunks = [lines[i::shards] for i in range(shards)]

    def one(chunk):
        p = subprocess.run([exe], input="\n".join(chunk) + "\n", stdout=subprocess.PIPE, stderr=subprocess.DEVNULL,
                           text=True, timeout=timeout)
        return p.returncode, p.stdout.split("\n")

    with ThreadPoolExecutor(max_workers=shards) as ex:
        rs = list(ex.map(one, chunks))
    out = [None] * len(lines)
    bad = None
    for s, (rc, ans) in enumerate(rs):
        idxs = list(range(s, len(lines), shards))
        if rc != 0 or len(ans) < len(idxs):
            bad = (rc, len(ans), len(idxs), idxs[min(len(ans), len(idxs)) - 1] if idxs else None)
        for j, i in enumerate(idxs):
            if j < len(ans) and ans[j]:
                out[i] = ans[j]
    return out, bad


def run(ck):
    ck.level = "proof"
    proved = ck.prove(tables=[], extra_targets=["theories/Extract/SchedExtract.vo"])

    rc, out, exe_m = ocaml_build("sched_drv", ["sched_model"], os.path.join(VERIF, "ocaml", "sched_drv.ml"))
    model_ok = rc == 0
    if not model_ok:
        ck.broken.append("model-build: " + out[-400:])
    rc, out, bindir = cargo_build("lang", ["sched_run"])
    if rc != 0:
        ck.broken.append("harness-build: " + out[-800:])
        ck.violation("harness sched_run does not build against /repo", {"cargo_output": out[-3000:]}, no_input=True)
        return finish(ck)
    exe_i = os.path.join(bindir, "sched_run")

    # ---------------- inputs ----------------
    cases = []  # (tag, case)
    if ck.replay:
        rp = json.load(open(ck.replay))["replay"]
        if "case" in rp:
            cases.append(("replay", rp["case"]))
    corpus = os.path.join(VERIF, "corpus", "C11", "cases.jsonl")
    ncorpus = 0
    if os.path.exists(corpus):
        for l in open(corpus):
            l = l.strip()
            if l and not l.startswith("#"):
                cases.append(("corpus", json.loads(l)))
                ncorpus += 1
    quick = ck.tier == "quick"
    n_valid = 2400 if quick else 14000
    n_bad = 400 if quick else 2000
    rng = ck.rng.fork("tasksets")
    gens = [("oneshots", gen_oneshots), ("chains", gen_chains), ("spawn", gen_spawn), ("dsp", gen_dsp)]
    if not ck.replay:
        for i in range(n_valid):
            gname, g = gens[i % len(gens)]
            mode = ["closure", "closure", "fn", "mixed", "fnpure"][(i // len(gens)) % 5]
            N = rng.choice([12, 16, 24, 32] if quick else [16, 32, 48, 64])
            cases.append((gname + "/" + mode, tame(g(rng, mode, N), rng)))
        for i in range(n_valid // 10):
            cases.append(("sparse/fnpure", gen_sparse_fn(rng, "fnpure", rng.choice([16, 24, 32]))))
        for i in range(n_bad):
            gname, g = gens[i % len(gens)]
            mode = ["closure", "closure", "fn"][(i // len(gens)) % 3]
            N = rng.choice([8, 12, 16])
            cases.append(("bad-" + gname + "/" + mode, break_premise(tame(g(rng, mode, N), rng), rng)))

    # ---------------- render ----------------
    prepared = []
    for tag, case in cases:
        hint, _pend, _ = ideal(case)
        fields, K = assign_digits(case, hint)
        if K > MAX_COUNTERS:  # cannot happen with <= 50 closures and counts <= 40; keep the case honest
            continue
        src = render(case, fields, K)
        prepared.append({"tag": tag, "case": case, "fields": fields, "K": K, "src": src, "hint": hint,
                         "pending": sum(_pend.values()),
                         "valid": premise_ok(case), "f13": in_f13_class(case)})
    impl_lines = [json.dumps({"src": p["src"], "n": p["case"]["N"], "backends": "both"}) for p in prepared]
    fixture_lines = []
    for fn, n, exp in FIXTURES:
        path = os.path.join(REPO, "crates/lib/mimium-test/tests/mmm", fn)
        if os.path.exists(path):
            fixture_lines.append((fn, n, exp, json.dumps({"src": open(path).read(), "n": n, "backends": "both"})))
    for p in prepared:
        p["mech"] = p["valid"] and p["f13"] and p["K"] == 1 and pure_fn(p["case"])
    model_lines = [model_line(p["case"], i % 2, p["mech"]) for i, p in enumerate(prepared)]

    # ---------------- run ----------------
    t0 = time.time()
    shards = min(8, max(2, NPROC // 2))
    answers, bad = run_sharded(exe_i, impl_lines + [f[3] for f in fixture_lines], shards, 1500 if quick else 6000)
    ck.coverage["impl_run_s"] = round(time.time() - t0, 1)
    if bad:
        ck.violation("implementation harness crashed (process died; see last answered case)",
                     {"rc": bad[0], "answered": bad[1], "expected": bad[2],
                      "case": prepared[bad[3]]["case"] if bad[3] is not None and bad[3] < len(prepared) else None,
                      "src": prepared[bad[3]]["src"] if bad[3] is not None and bad[3] < len(prepared) else None},
                     no_input=(bad[3] is None))
        return finish(ck)
    model_ans = [None] * len(prepared)
    if model_ok:
        t0 = time.time()
        model_ans, mbad = run_sharded(exe_m, model_lines, shards, 1500 if quick else 6000)
        ck.coverage["model_run_s"] = round(time.time() - t0, 1)
        if mbad:
            ck.broken.append("model driver crashed")
            model_ok = False

    # ---------------- compare ----------------
    findings = {f["cls"]: f for f in known_findings("C11")}
    prop_fail, disagree, f13_hits, compile_fail = [], [], 0, []
    mech_cases, mech_agree, mech_bad = 0, 0, []
    nontrivial, executed_total, ties, max_pending, f13_cases, bad_cases = 0, 0, 0, 0, 0, 0
    distinct = set()
    for i, p in enumerate(prepared):
        case, fields, K = p["case"], p["fields"], p["K"]
        r = json.loads(answers[i])
        key = model_lines[i]
        pred = parse_model(model_ans[i]) if (model_ok and model_ans[i]) else None
        hint = p["hint"]
        if key not in distinct:
            distinct.add(key)
            ex = sum(sum(d.values()) for d in hint)
            executed_total += ex
            if ex > 0:
                nontrivial += 1
            ties += sum(1 for d in hint if sum(d.values()) > 1)
            max_pending = max(max_pending, p["pending"])
        if p["f13"]:
            f13_cases += 1
        if not p["valid"]:
            bad_cases += 1
        for be in ("vm", "wasm"):
            x = r[be]
            if x["st"] == "compile":
                compile_fail.append((p, be, x["msg"]))
                continue
            outv = [[fdec(h) for h in s] for s in x["out"]]
            known_here = (be == "wasm" and p["f13"] and F13_CLASS in findings)
            # inside the known class, where the allocation-aware model (Sched/WasmAlloc.v) gives an order-independent
            # prediction, a WASM deviation is only "known" when it is the predicted one
            if (known_here and p["mech"] and pred and "alloc0" in pred and pred["alloc0"] == pred.get("alloc1")
                    and pred["alloc0"][0] == "ok" and all("," not in e for e in pred["alloc0"][1].split("/"))):
                # (at most one task due per sample in the predicted run: the heap's tie-breaking cannot matter)
                mech_cases += 1
                want = []
                for e in pred["alloc0"][1].split("/")[:-1]:
                    d = {}
                    for z in e.split(","):
                        if z:
                            d[int(z)] = d.get(int(z), 0) + 1
                    want.append(counters_of(d, fields, K))
                got_m = [[int(v) if v == int(v) else v for v in s_] for s_ in outv]
                if x["st"] == "ok" and got_m == want:
                    mech_agree += 1
                else:
                    mech_bad.append((p, be, model_ans[i], x))
                    known_here = False
            # --- S: the property on the implementation's own output (premise-respecting inputs) ---
            if p["valid"]:
                why = None
                if x["st"] != "ok":
                    why = f"{x['st']} in sample {x['at']} ({x['msg']}) although every task was scheduled for a later sample"
                elif len(outv) != case["N"]:
                    why = f"produced {len(outv)} samples instead of {case['N']}"
                else:
                    why = property_on_output(case, fields, outv)
                if why:
                    if known_here:
                        f13_hits += 1
                        ck.known(findings[F13_CLASS], f"{p['tag']} closures={len(case['clos'])}: {why}")
                    else:
                        prop_fail.append((p, be, why, x))
                    continue
            # --- C: model vs implementation ---
            if pred is not None and be in pred:
                st, at, mt = pred[be]
                want_out = [counters_of(d, fields, K) for d in mt]
                got_out = [[int(v) if v == int(v) else v for v in s] for s in outv]
                if st == "ok":
                    same = x["st"] == "ok" and got_out == want_out
                elif st == "panic":
                    same = (x["st"] == "panic" and x["at"] == at and x["msg"] == "sched-not-future"
                            and got_out == want_out[: len(got_out)] and len(got_out) == max(at, 0))
                else:
                    same = False
                if not same:
                    if known_here:
                        f13_hits += 1
                        ck.known(findings[F13_CLASS], f"{p['tag']}: WASM output differs from the model")
                    else:
                        disagree.append((p, be, model_ans[i], x))
    # repo fixtures: both runtimes must give the values the repo's own tests expect
    fix_fail = []
    for j, (fn, n, exp, _) in enumerate(fixture_lines):
        r = json.loads(answers[len(prepared) + j])
        for be in ("vm", "wasm"):
            got = [fdec(s[0]) for s in r[be]["out"]] if r[be]["st"] == "ok" else None
            if got != [float(e) for e in exp]:
                fix_fail.append((fn, be, r[be]["st"], got))

    ck.coverage["evaluations"] = 2 * len(prepared) + 2 * len(fixture_lines)
    ck.coverage["task_sets"] = len(prepared)
    ck.coverage["distinct_nontrivial"] = nontrivial
    ck.coverage["task_executions_predicted"] = executed_total
    ck.coverage["samples_with_several_tasks_due"] = ties
    ck.coverage["max_pending_tasks_at_end"] = max_pending
    ck.coverage["premise_violating_task_sets"] = bad_cases
    ck.coverage["task_sets_in_known_class_F13"] = f13_cases
    ck.coverage["wasm_failures_in_known_class_F13"] = f13_hits
    ck.coverage["F13_mechanism_model_cases"] = mech_cases
    ck.coverage["F13_mechanism_model_agrees"] = mech_agree
    ck.coverage["corpus_cases"] = ncorpus
    ck.coverage["repo_fixtures"] = len(fixture_lines)
    ck.coverage["model_vs_impl_disagreements"] = len(disagree)
    ck.coverage["exhaustive"] = False
    for i in ([0, 1, len(prepared) // 2, len(prepared) - 1] if prepared else []):
        p = prepared[i]
        ck.sample({"tag": p["tag"], "model_input": model_lines[i], "model": model_ans[i],
                   "implementation": {be: {k: v for k, v in json.loads(answers[i])[be].items() if k != "out"} for be in ("vm", "wasm")},
                   "closures": len(p["case"]["clos"]), "counters": p["K"]})

    # ---------------- verdicts ----------------
    def replay_obj(p, extra):
        d = {"case": p["case"], "src": p["src"], "samples": p["case"]["N"], "digit_fields(counter,bit,width)": p["fields"],
             "how": "./check C11 --replay <this file>   (or: echo '{\"src\":...,\"n\":N,\"backends\":\"both\"}' | .cache/target/lang/debug/sched_run)"}
        d.update(extra)
        return d

    for (p, be, why, x) in prop_fail[:4]:
        ck.violation(f"C11 fails on the {be} runtime: {why}",
                     replay_obj(p, {"backend": be, "status": x["st"], "at": x["at"], "msg": x["msg"],
                                    "output": [[fdec(h) for h in s] for s in x["out"]]}))
    for (fn, be, st, got) in fix_fail[:2]:
        ck.violation(f"repo fixture {fn} gives unexpected samples on {be}", {"fixture": fn, "backend": be, "status": st, "got": got})
    if compile_fail and not prop_fail:
        p, be, msg = compile_fail[0]
        ck.violation(f"generated scheduler program rejected by the {be} compiler ({len(compile_fail)} cases)",
                     replay_obj(p, {"backend": be, "msg": msg}), no_input=True)
    if disagree and not prop_fail:
        p, be, m_, x = disagree[0]
        ck.broken.append("correspondence Sched.Model.{run_vm,run_wasm} vs mimium-scheduler")
        ck.violation(f"model and {be} implementation disagree ({'premise-violating input' if not p['valid'] else 'no clause of the property fails on this input'})",
                     replay_obj(p, {"correspondence": "Sched.Model.run_%s vs %s" % (be, "SchedulerAudioWorker/VmDspRuntime" if be == "vm" else "WasmSchedulerHandle/WasmDspRuntime"),
                                    "backend": be, "model": m_, "implementation": {k: v for k, v in x.items() if k != "out"},
                                    "implementation_output": [[fdec(h) for h in s] for s in x["out"]],
                                    "disagreements": len(disagree)}), no_input=True)
    if not proved and not prop_fail and not disagree:
        ck.violation("a proof obligation of Props/C11.v no longer checks", {"broken": ck.broken}, no_input=True)
    return finish(ck)


def finish(ck):
    ck.finish(
        explanation=("C11_exactly_once / _wasm / C11_backends_agree are proved in Coq for every task multiset, every behaviour function "
                     "respecting 'later than now', every order among equal-time tasks and every number of samples, over a literal Gallina "
                     "transcription of scheduler.rs (channel + worker heap), wasm_handle.rs (guarded shared heap) and the two run_dsp "
                     "drivers. The transcription is tied to /repo by rendering generated task sets to mimium programs whose tasks add "
                     "private digits to global counters, running them on the real VM and WASM runtimes sample by sample and comparing the "
                     "counter vectors (and, for premise-violating inputs, the sample of the panic) with the extracted model; the property "
                     "is also evaluated directly on the implementations' outputs by an independent oracle."),
        trusted_base=["Coq 8.16.1 kernel (coqc, vm_compute; no native_compute)",
                      "extraction: ExtrOcamlBasic + ExtrOcamlString only; OCaml 4.13.1; ocaml/sched_drv.ml driver",
                      "harness/lang/src/bin/sched_run.rs (copy of mimium-test run_source_with_plugins / run_source_with_scheduler_wasm, per-sample)",
                      "python renderer/oracle in checks/C11.py (digits, ideal schedule); mimium compiler + runtimes execute the rendered tasks as written",
                      "BinaryHeap modelled as a list + arbitrary tie-breaking selector; mpsc channel as FIFO drained atomically by the single audio thread",
                      "task behaviour abstracted to (closure, now) -> schedule calls; closure retention (resolve_closure/execute_closure, WASM linear memory) is observed only through the counters (finding F13)"],
        rule=("generated task sets: one-shot tasks (1-200, clustered on few times), self-rescheduling chains (period 1..7 plus fractional "
              "quarters), tasks spawning other tasks, tasks scheduled by dsp at given samples; rendered with persistent closures, "
              "top-level functions or a mix (+ lambdas); plus a premise-violating stream; non-trivial = at least one task executes; "
              "distinct = distinct abstract task sets"))
