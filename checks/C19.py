"""C19 — concurrent compilations do not interfere (level: other / partial, narrow theorem + search over real schedules).

P: Props/C19.v over Interner/{Model,Lemmas,Conc,EnvVar}.v: for EVERY schedule of K threads that use the shared storage through
   its atomic operations, each thread observes what it observes alone (C19_interleaving_invisible/_complete); the atomicity is
   necessary (C19_split_intern_refuted); the process environment variable MIMIUM_CURRENT_MACRO_FILE is not interleaving-safe
   (C19_envvar_race, finding F11 -- from code reading + model: the harness has no symphonia plugin).
C: (1) extracted model vs real SessionGlobals on sequential operation sequences (fresh processes, exact ids);
   (2) K real threads interpreting symbol programs against the real interner/type arena (resolving either by a copy under the
       lock or through Symbol::as_str as the compiler does): every thread's observations must equal the model's solo observations;
   (3) a reference obtained from Symbol::as_str must still read the same string after another thread interned 200000 strings.
S: K in {2,4,8,16} real threads, each compiling and running (VM and WASM, own ExecContext) distinct or identical sources at
   the same time with random start skews; every thread's Mir / bytecode listing / WASM bytes / skeleton / outputs /
   diagnostics are compared with the result of the same job run alone; panic, contamination, deadlock (60 s) = violation.
"""
import concurrent.futures, importlib.util, json, os, re, time
from vplib import *
import lmmm


def load_c15():
    spec = importlib.util.spec_from_file_location("check_C15_lib", os.path.join(VERIF, "checks", "C15.py"))
    m = importlib.util.module_from_spec(spec)
    spec.loader.exec_module(m)
    return m


C15 = load_c15()
ARTS = C15.ARTS

MACRO_SRC = """#stage(macro)
fn mk%d(){
  `{ %d.0 + now }
}
#stage(main)
fn dsp(){
  mk%d!() + %d.0
}
"""


def hx(s):
    return s.encode().hex()


def gen_symprog(r, pool):
    """a straight-line symbol program: (ops for the harness / the OCaml driver: same notation)"""
    ops = []
    nsym = nkey = nreg = 0
    for _ in range(r.range(4, 24)):
        c = r.below(12)
        def sv():
            parts = []
            for _ in range(r.range(1, 3)):
                if nreg and r.chance(1, 2):
                    parts.append("g%d" % r.below(nreg))
                else:
                    parts.append("l" + hx(r.choice(pool)))
            return "+".join(parts)
        if c < 4 or nsym == 0:
            ops.append("I" + sv()); nsym += 1
        elif c < 6:
            ops.append("R%d" % r.below(nsym)); nreg += 1
        elif c < 7:
            ops.append("S" + sv()); nkey += 1
        elif c < 8 and nkey:
            ops.append("L%d" % r.below(nkey)); nreg += 1
        elif c < 10:
            ops.append("Q%d,%d" % (r.below(nsym), r.below(nsym)))
        else:
            ops.append("E" + sv())
    # finally print everything the thread knows
    for i in range(nsym):
        ops.append("R%d" % i); ops.append("Eg%d" % nreg); nreg += 1
    return ops


def run_one(cexe, req, timeout):
    req = dict(req)
    req["id"] = 0
    res, rc = lmmm._run_batch(cexe, [req], timeout)
    return (res[0] if res else None), rc


def cmp_obs(solo, thr):
    """artefacts in which a thread's observation differs from the solo observation"""
    bad = []
    if "thread_panic" in thr:
        return ["thread_panic: " + str(thr["thread_panic"])[:200]]
    for a in ARTS:
        if C15.canon(a, solo.get(a)) != C15.canon(a, thr.get(a)):
            bad.append(a)
    return bad


def run(ck):
    ck.level = "other"
    proved = ck.prove(tables=[], extra_targets=["theories/Extract/InternerExtract.vo"])
    quick = ck.tier == "quick"
    rc, out, bindir = cargo_build("lang", ["determinism_run", "concurrency_run"])
    if rc != 0:
        ck.broken.append("harness build failed: " + out[-600:])
        ck.violation("harness does not build against the repository", {"broken": ck.broken}, no_input=True)
        return finish(ck)
    cexe = os.path.join(bindir, "concurrency_run")
    rcm, outm, mexe = ocaml_build("interner_drv", ["interner_model"], os.path.join(VERIF, "ocaml", "interner_drv.ml"))
    findings = {f["id"]: f for f in known_findings("C19")}
    viol = []

    # ---- C1: sequential correspondence -----------------------------------------------------------------------------
    if rcm == 0 and mexe:
        bad = C15.interner_correspondence(ck, mexe, cexe, 32 if quick else 300)
        if bad:
            ck.broken.append("correspondence Interner.Model intern/resolve/store/load vs interner.rs")
            viol.append(("model and real interner disagree on a sequential operation sequence (fresh process)", bad[0], True))
    else:
        ck.broken.append("ocaml driver build failed: " + str(outm)[-300:])

    # ---- C2: symbol programs on real threads vs the model's solo observations ------------------------------------------
    n_sp = 200 if quick else 1500
    sp_reqs = []
    for i in range(n_sp):
        r = ck.rng.fork(("C19sym", i))
        K = r.choice([2, 4, 8, 16])
        pool = ["x", "y", "dsp", "m$", "f", "osc", "_", "phase", "a", "b"][:r.range(2, 10)]   # few strings: threads fight for the same ids
        same = r.chance(1, 4)
        t0 = gen_symprog(r, pool)
        threads = [t0 if same else gen_symprog(r, pool) for _ in range(K)]
        sp_reqs.append({"op": "symprog", "threads": threads, "seed": r.below(1 << 30), "reps": 3 if quick else 6,
                        "mode": "as_str" if i % 4 == 3 else "atomic"})
    rp_req = None
    if ck.replay:
        rp_req = json.load(open(ck.replay)).get("replay", {}).get("request")
        if rp_req is not None:
            sp_reqs = [rp_req] if rp_req.get("op") == "symprog" else []
            n_sp = len(sp_reqs)
    if rcm == 0 and mexe and sp_reqs:
        lines = []
        for rq in sp_reqs:
            for t in rq["threads"]:
                lines.append("prog " + " ".join(t))
        rc1, mout, _ = run_lines(mexe, "\n".join(lines) + "\n", timeout=600)
        mout = [l.strip() for l in mout]
        k = 0
        sp_timeouts = []
        def do_sp(i):
            if len(sp_timeouts) >= 2:
                return i, (None, "skipped")
            r_ = run_one(cexe, sp_reqs[i], 60)
            if r_[0] is None and r_[1] == "timeout":
                sp_timeouts.append(i)
            return i, r_
        with concurrent.futures.ThreadPoolExecutor(max_workers=4) as ex:
            answers = dict(ex.map(do_sp, range(n_sp)))
        for i, rq in enumerate(sp_reqs):
            exp = mout[k:k + len(rq["threads"])]
            k += len(rq["threads"])
            res, rcx = answers[i]
            if rcx == "skipped":
                continue
            if res is None:
                viol.append(("the process running %d symbol-program threads %s" % (len(rq["threads"]), "timed out (deadlock?)" if rcx == "timeout" else "died rc=%s" % rcx),
                             {"request": rq, "how": "echo '<request>' | .cache/target/lang/debug/concurrency_run"}, False))
                continue
            for rep in res["runs"]:
                ck.add("symprog_thread_runs", len(rep))
                for ti, (got, want) in enumerate(zip(rep, exp)):
                    if got.strip() != want and rq["mode"] == "as_str" and "F24" in findings:
                        # same programs, same threads; the only difference to the atomic mode is Symbol::as_str (class of F24)
                        ck.add("symprog_as_str_mode_contaminated")
                        ck.known(findings["F24"], "symbol program thread %d of %d: observed %s, alone %s" % (ti, len(rq["threads"]), got[:80], want[:80]))
                        break
                    if got.strip() != want:
                        viol.append(("a thread running a symbol program against the real interner observes something else than alone "
                                     "(model: C19_interleaving_complete)", {"K": len(rq["threads"]), "seed": rq["seed"], "thread": ti,
                                      "program": rq["threads"][ti], "observed": got, "solo(model)": want, "request": rq}, False))
                        break

    # ---- the reference handed out by Symbol::as_str must stay valid while another thread interns (was finding F24; fixed by
    #      switching to a backend that never moves strings): a dangling / garbage name is a violation --------------------
    probe_bad = []
    for i in range(3):
        res, rcx = run_one(cexe, {"op": "asstr", "seed": ck.rng.fork(("C19asstr", i)).below(1 << 20), "fill": 200000}, 120)
        ck.add("as_str_probes")
        if res is None:
            probe_bad.append({"outcome": "process died rc=%s" % rcx})
        elif not res.get("fresh_resolve_ok"):
            viol.append(("resolving a symbol again after another thread interned strings gives a different string", res, False))
        elif res.get("moved") and not res.get("held_reference_intact"):
            probe_bad.append({"expected": res.get("expected"), "held_reference_now_reads": res.get("held_now")})
    ck.coverage["as_str_reference_dangling"] = len(probe_bad)
    if probe_bad:
        if "F24" in findings:
            ck.known(findings["F24"], json.dumps(probe_bad[0])[:200])
        else:
            viol.append(("a &str obtained from Symbol::as_str is invalidated when another thread interns new strings",
                         {"probe": probe_bad[0], "how": "echo '{\"op\":\"asstr\",\"id\":0,\"seed\":1,\"fill\":200000}' | .cache/target/lang/debug/concurrency_run"}, False))

    # ---- S: K concurrent compile+run jobs ----------------------------------------------------------------------------------
    pool = []
    for s in C15.corpus_sources():
        if not C15.f20_class(s["src"]) and "class:" not in s["src"].split("\n")[0]:
            pool.append(s)
    fast = ["add.mmm", "counter.mmm", "closure_counter.mmm", "enum_basic.mmm", "fb_mem.mmm", "delay.mmm", "if.mmm", "let_tuple_nested.mmm",
            "many_comments.mmm", "hof_state.mmm", "generic_id.mmm", "tuple_pass.mmm", "recursion.mmm", "nested_closure.mmm", "array_test.mmm",
            "stateful_match.mmm", "type_alias_simple.mmm", "record_basic.mmm", "scheduler_global_recursion.mmm", "module_macro.mmm",
            "multistage_globalsyntax.mmm", "tuple_binop_macro_stage.mmm", "typing_tuple_fail.mmm", "block_local_scope_fail.mmm"]
    for nm in fast:
        f = os.path.join(REPO, "crates/lib/mimium-test/tests/mmm", nm)
        if os.path.exists(f):
            pool.append({"name": nm, "src": open(f).read(), "path": f, "sched": True, "kind": "shipped"})
    for s in C15.gen_core_sources(ck, 60 if quick else 300):
        pool.append(s)
    for i in range(8):
        pool.append({"name": "macro-%d" % i, "src": MACRO_SRC % (i, i + 1, i, i + 2), "path": "/tmp/c19dir%d/prog%d.mmm" % (i, i), "sched": False, "kind": "macro"})
    pool.append({"name": "unbound", "src": "fn dsp(){ undefined_name + 1.0 }", "path": None, "sched": False, "kind": "error"})
    pool.append({"name": "type-error", "src": "fn f(x:float)->float{ x }\nfn dsp(){ f((1.0,2.0)) }", "path": None, "sched": False, "kind": "error"})
    pool.append({"name": "parse-error", "src": "fn dsp( { 1.0 ", "path": None, "sched": False, "kind": "error"})
    # LARGER erroneous programs (response to seeded change C19c): the diagnostic points at an expression that the type checker reaches
    # late, so other jobs start, succeed and finish while this job is between parsing and reporting
    okbig = [s for s in pool if s["kind"] in ("shipped", "gen-core") and len(s["src"]) > 400][:24]
    errbig = []
    for i, s0 in enumerate(okbig):
        tail = ["\nfn zz_err%d(){ undefined_name_q%d + 1.0 }\n" % (i, i),
                "\nfn zz_err%d(x:float)->float{ x }\nfn zz_use%d(){ zz_err%d((1.0,2.0)) }\n" % (i, i, i)][i % 2]
        errbig.append({"name": "err-big-%d(%s)" % (i, s0["name"]), "src": s0["src"] + tail, "path": "/tmp/c19err%d/reporter%d.mmm" % (i, i),
                       "sched": s0["sched"], "kind": "error"})
    pool += errbig
    ck.coverage["job_pool"] = len(pool)

    reqs = []
    for K in (2, 4, 8, 16):
        for v in range(50 if quick else 250):
            r = ck.rng.fork(("C19jobs", K, v))
            identical = v % 5 >= 3
            if identical:
                s = r.choice(pool)
                js = [s] * K
            else:
                js = [r.choice(pool) for _ in range(K)]
            reqs.append({"K": K, "identical": identical, "names": [s["name"] for s in js], "macro_only": False,
                         "req": {"op": "jobs", "jobs": [C15.obs_req(s, 16) for s in js], "seed": r.below(1 << 30), "reps": 3 if quick else 5}})
    # erroneous and error-free jobs side by side
    for K in (2, 4, 8, 16):
        for v in range(6 if quick else 40):
            r = ck.rng.fork(("C19mixed", K, v))
            js = [(r.choice(errbig) if (k % 2 == 0) else r.choice(okbig)) for k in range(K)] if errbig and okbig else []
            if js:
                reqs.append({"K": K, "identical": False, "names": [s["name"] for s in js], "macro_only": False,
                             "req": {"op": "jobs", "jobs": [C15.obs_req(s, 8) for s in js], "seed": r.below(1 << 30), "reps": 4 if quick else 6}})
    # macro-stage programs of different directories only: the environment variable of finding F11 is exercised
    mac = [s for s in pool if s["kind"] == "macro"]
    for v in range(8 if quick else 40):
        r = ck.rng.fork(("C19macro", v))
        js = [mac[i % len(mac)] for i in range(16)]
        reqs.append({"K": 16, "identical": False, "names": [s["name"] for s in js], "macro_only": True,
                     "req": {"op": "jobs", "jobs": [C15.obs_req(s, 4) for s in js], "seed": r.below(1 << 30), "reps": 6}})

    if rp_req is not None:
        reqs = []
        if rp_req.get("op") == "jobs":
            reqs = [{"K": len(rp_req["jobs"]), "identical": False, "names": [j.get("tag") for j in rp_req["jobs"]], "macro_only": False, "req": rp_req}]

    confirmed_deadlocks = []
    def do_job(i):
        t = time.time()
        if len(confirmed_deadlocks) >= 2:
            return i, None, "skipped", 0.0          # two confirmed deadlocks are reported; do not spend 210 s on each further request
        res, rcx = run_one(cexe, reqs[i]["req"], 60)
        if res is None and rcx == "timeout":
            # the machine is shared: a timeout under load is confirmed alone with a longer limit before it counts as a deadlock
            res2, rcx2 = run_one(cexe, reqs[i]["req"], 150)
            if res2 is not None:
                return i, res2, "slow-under-load", time.time() - t
            confirmed_deadlocks.append(i)
            return i, None, "timeout", time.time() - t
        return i, res, rcx, time.time() - t
    t0 = time.time()
    with concurrent.futures.ThreadPoolExecutor(max_workers=3 if quick else 4) as ex:
        answers = list(ex.map(do_job, range(len(reqs))))
    ck.coverage["jobs_phase_s"] = round(time.time() - t0, 1)
    stats = {}
    def bump(k, n=1): stats[k] = stats.get(k, 0) + n
    stale_env = []
    for i, res, rcx, dt in answers:
        q = reqs[i]
        if rcx == "slow-under-load":
            bump("requests_repeated_after_timeout_under_load")
        if rcx == "skipped":
            bump("requests_skipped_after_two_confirmed_deadlocks"); continue
        if res is None:
            viol.append(("%d concurrent compile+run jobs: the process %s" % (q["K"], "did not finish within 60 s and again within 150 s alone (deadlock)" if rcx == "timeout" else "died (rc=%s)" % rcx),
                         {"K": q["K"], "seed": q["req"]["seed"], "sources": [{"name": j["tag"], "src": j["src"], "path": j["path"]} for j in q["req"]["jobs"]],
                          "how": "echo '<request>' | .cache/target/lang/debug/concurrency_run", "request": q["req"]}, False))
            continue
        solo = res["solo"]
        bump("requests")
        bump("requests_K%d" % q["K"])
        for rep_i, rep in enumerate(res["runs"]):
            for ti, thr in enumerate(rep):
                bump("thread_jobs")
                if any(isinstance(solo[ti].get(a), dict) and "h" in solo[ti][a] for a in ARTS):
                    bump("thread_jobs_with_artefacts")
                bad = cmp_obs(solo[ti], thr)
                if bad:
                    j = q["req"]["jobs"][ti]
                    viol.append(("a job run on one of %d concurrent threads differs from the same job run alone in: %s" % (q["K"], ", ".join(bad)),
                                 {"K": q["K"], "seed": q["req"]["seed"], "repetition": rep_i, "thread": ti, "source": j["src"], "path": j["path"],
                                  "other_sources": [x["tag"] for x in q["req"]["jobs"]],
                                  "solo": {a: C15.canon(a, solo[ti].get(a)) for a in bad if a in ARTS},
                                  "concurrent": {a: C15.canon(a, thr.get(a)) for a in bad if a in ARTS},
                                  "how": "echo '<request>' | .cache/target/lang/debug/concurrency_run", "request": q["req"]}, False))
        if res.get("env_after") is not None:
            stale_env.append((q, res["env_after"]))
    ck.coverage["stats"] = stats
    ck.coverage["evaluations"] = stats.get("thread_jobs", 0) + ck.coverage.get("symprog_thread_runs", 0)
    ck.coverage["distinct_nontrivial"] = stats.get("thread_jobs_with_artefacts", 0)
    ck.coverage["stale_env_var_after_concurrent_macro_expansion"] = len(stale_env)
    for q, val in stale_env:
        # class predicate of F11 (the part observable without the symphonia plugin): >= 2 of the concurrent jobs expand macros
        n_macro = sum(1 for j in q["req"]["jobs"] if "#stage(macro)" in j["src"] or re.search(r"\w!\(", j["src"]))
        if n_macro >= 2:
            if "F11" in findings:
                ck.known(findings["F11"], "after %d concurrent compilations of macro-stage programs of different directories had all finished, "
                                          "MIMIUM_CURRENT_MACRO_FILE was still set to %s" % (q["K"], val))
            else:
                viol.append(("MIMIUM_CURRENT_MACRO_FILE is left set after concurrent compilations finished", {"value": val, "request": q["req"]}, False))
        else:
            viol.append(("MIMIUM_CURRENT_MACRO_FILE is left set after concurrent compilations of programs without macros", {"value": val, "request": q["req"]}, False))
    for s in ([answers[0], answers[len(answers) // 2], answers[-1]] if answers else []):
        i, res, rcx, dt = s
        ck.sample({"K": reqs[i]["K"], "identical_sources": reqs[i]["identical"], "sources": reqs[i]["names"][:4], "seconds": round(dt, 1),
                   "threads_equal_solo": res is not None})

    for what, rp, no_input in viol[:5]:
        ck.violation(what, rp, no_input=no_input)
    if not proved and not viol:
        ck.violation("a proof obligation of Props/C19.v no longer checks", {"broken": ck.broken}, no_input=True)
    return finish(ck)


def finish(ck):
    ck.finish(
        explanation=("NARROW theorem + search over real schedules. Proved in Coq (every history, every number of threads, EVERY schedule): "
                     "threads that use the shared SessionGlobals only through its atomic operations (intern, resolve, symbol equality, arena "
                     "store/load) each observe exactly what they observe alone, and a thread that finishes has printed what it prints in a fresh "
                     "process; with get_or_intern split into two critical sections this fails; the process environment variable "
                     "MIMIUM_CURRENT_MACRO_FILE is refuted (finding F11, scoped to Sampler macros, from code reading + model; only the stale "
                     "variable is observed on the real code). Atomicity itself (one std Mutex around every access) is trusted. NOT proved: "
                     "that everything else in a compilation is thread-local; for that K in {2,4,8,16} real compile+run jobs (VM and WASM, own "
                     "ExecContext per thread) are run concurrently with random skews and compared artefact by artefact with their solo runs."),
        trusted_base=["Coq 8.16.1 kernel", "extraction (ExtrOcamlBasic/ExtrOcamlString), ocaml/interner_drv.ml", "std::sync::Mutex / Rust memory model", "Symbol::as_str's result is modelled as a copy made under the lock; the real function returns a reference into the interner's storage, which is sound only because BucketBackend never moves strings (fixed finding F24; probed on every run)",
                      "harness/lang concurrency_run + determinism_run + runner.rs", "the OS scheduler produces varied interleavings (sampled, not enumerated)",
                      "python generators"],
        rule=("symbol programs: random straight-line programs over a small string pool, K in {2,4,8,16} real threads, 3-6 repetitions, compared "
              "with the extracted model's solo run; jobs: sources drawn from corpus/C15, a fixed list of fast shipped fixtures, generated core "
              "programs, macro-stage programs with distinct file paths and three rejected programs; distinct or identical sources per request; "
              "distinct_nontrivial = thread jobs that produced at least one artefact"))
